"""C02 — returned gradients are the true derivatives for every parameter layout.

Correspondence (model = Model/ParamLayout.lean + Model/Grad.lean on top of C01's Model/LLH.lean, Driver/C02.lean):
  * layout: the real ParameterModelMapper (create_src_params_recarray `<name>:gpidx` fields, n_global_floating_params,
    floating_params_idxs, get_gflp_idx('ns'), KeyError of map_param) vs. the layout model — exact (integers);
  * stacked gradient: real MultiDatasetTCLLHRatio.evaluate / calculate_ns_grad2 over real
    ZeroSigH0SingleDatasetTCLLHRatio, SourceWeightedPDFRatio, PDFRatioProduct, SrcDetSigYieldWeightsService,
    DatasetSignalWeightFactorsService (stub leaves with analytic parameter dependence) vs. `Grad.stacked` fed with
    the leaves and the *model's own* gpidx table — relation: |impl - model| <= 1e-9 (|impl| + |model|) + 1e3 * (change
    of the model output under a 1e-12 relative perturbation of its inputs)   [condition-aware, never bit-exact];
  * per-value SigOverBkgPDFRatio.get_gradient (cases 1-4, zero background) vs. `Grad.sobGrad` — same relation.
Property oracles (implementation only): Richardson-extrapolated central differences of the implementation's own value
in every floating parameter vs. the returned entry; the same for calculate_ns_grad2 vs. the returned ns-gradient in the
stable regime (both also through the real SignalMultiDimGridPDFSet with Linear / Parabola interpolation); length of the gradient vector; no exception for a legal layout; used object vs. fresh object at a second
parameter point (stale caches); the same fd oracle and a call-history oracle (several evaluations of one object inside
one interpolation grid cell and across cells vs. fresh objects) through the real IceCube consumers
SingleParamFluxPointLikeSourceI3DetSigYield and SplinedI3EnergySigSetOverBkgPDFRatio; get_values_mask_for_source_mask; exact-fraction quotient rule for SigOverBkgPDFRatio.
Round 7 (harness/c02_r7_fixtures.py, Model/GradMapR7.lean): the consumers' loop / values mask / yield gradient dictionary, code-shaped,
vs. the real SignalMultiDimGridPDFSet.get_pd, SplinedI3EnergySigSetOverBkgPDFRatio.get_gradient,
TrialDataManager.get_values_mask_for_source_mask, SingleParamFluxPointLikeSourceI3DetSigYield.__call__ — exact / 1e-12.
"""
import collections
import itertools
import os
import time
import re
import zlib

import numpy as np

from harness import extract
from harness import grad_fixtures as gf
from harness import c02_r7_fixtures as r7
from harness import llh_fixtures as fx
from harness.core import MachineryError, f2b, b2f, flist, ilist, parse_flist, parse_ilist

MODEL_MODULES = ['SkyllhModel.Model.LLH', 'SkyllhModel.Model.Grad', 'SkyllhModel.Model.ParamLayout', 'SkyllhModel.Model.GradMapR7',
                 'SkyllhModel.Model.GradState']

# Python callables that have an executable Lean counterpart which the c02_* theorems are about AND which run(ctx) compares
# with the real callable on every run (directly, or as a stage of the real MultiDatasetTCLLHRatio pipeline whose output is
# compared with Grad.stacked stage by stage through J = 1 / K = 1 cases)
MODEL_MAP = {
    'skyllh/core/parameters.py::ParameterModelMapper.create_src_params_recarray':
        ['ParamLayout.gpidxField', 'ParamLayout.gpTable', 'ParamLayout.localValue'],
    'skyllh/core/parameters.py::ParameterModelMapper.map_param': ['ParamLayout.wellFormedB'],
    'skyllh/core/parameters.py::ParameterModelMapper.n_global_floating_params': ['ParamLayout.nFloating'],
    'skyllh/core/llhratio.py::MultiDatasetTCLLHRatio.evaluate':
        ['Grad.stacked', 'Grad.stackedChecked', 'Grad.multiValue', 'Grad.multiGradNs', 'Grad.multiGradP', 'Grad.assemble',
         'GradState.step'],
    'skyllh/core/llhratio.py::MultiDatasetTCLLHRatio.calculate_ns_grad2': ['Grad.multiNsGrad2', 'GradState.grad2Loop'],
    'skyllh/core/llhratio.py::ZeroSigH0SingleDatasetTCLLHRatio.evaluate': ['Grad.gradNs', 'Grad.gradP', 'Grad.nsGradI', 'Grad.pGradI'],
    'skyllh/core/llhratio.py::ZeroSigH0SingleDatasetTCLLHRatio.calculate_ns_grad2': ['Grad.nsGrad2'],
    'skyllh/core/pdfratio.py::SigOverBkgPDFRatio.get_gradient': ['Grad.sobGrad'],
    'skyllh/core/pdfratio.py::PDFRatioProduct.get_gradient': ['Grad.productGrad', 'Grad.leafGrad'],
    'skyllh/core/pdf.py::PDFProduct.get_pd': ['Grad.productGrad'],
    'skyllh/core/pdfratio.py::SourceWeightedPDFRatio.get_ratio': ['Grad.wRatio'],
    'skyllh/core/pdfratio.py::SourceWeightedPDFRatio.get_gradient': ['Grad.wRatioGradCode', 'Grad.wRatioGrad'],
    'skyllh/core/services.py::SrcDetSigYieldWeightsService.calculate': ['Grad.aRow', 'Grad.stDaRow'],
    'skyllh/core/services.py::DatasetSignalWeightFactorsService.calculate': ['Grad.fjRow', 'Grad.fjGradRow'],
    # round 7 (Model/GradMapR7.lean)
    'skyllh/core/trialdata.py::TrialDataManager.get_values_mask_for_source_mask': ['GradMap.valuesMaskCode', 'GradMap.valuesMaskSpec'],
    'skyllh/core/signalpdf.py::SignalMultiDimGridPDFSet.get_pd': ['GradMap.sigGrads', 'GradMap.interpLoop'],
    'skyllh/i3/pdfratio.py::SplinedI3EnergySigSetOverBkgPDFRatio.get_gradient': ['GradMap.interpLoop', 'GradMap.i3Gradient'],
    'skyllh/i3/detsigyield.py::SingleParamFluxPointLikeSourceI3DetSigYield.__call__':
        ['GradMap.yieldGradsCode', 'GradMap.yieldKeys', 'GradMap.yieldValues'],
}

OPA_RECORDED = 1e-3
REL = 1e-9
SENS = 1e3
PERT = 1e-12


# --------------------------------------------------------------------------------------------------
# constants read from the current source

def _opa(ctx=None):
    try:
        return float(extract.class_attr('skyllh/core/llhratio.py', 'ZeroSigH0SingleDatasetTCLLHRatio', '_one_plus_alpha'))
    except Exception as e:  # noqa
        if ctx is not None:
            ctx.note('constant extraction failed, using the recorded value (one_plus_alpha: %s)' % e)
            ctx.proof['generated_fallbacks'].append('one_plus_alpha: %s' % e)
        return OPA_RECORDED


def generated(ctx):
    (consts, fails) = r7.consumer_constants()
    for f in fails:
        if ctx is not None:
            ctx.note('constant extraction failed, using the recorded value (%s)' % f)
            ctx.proof['generated_fallbacks'].append(f)
    return ('/- generated by harness/props/c02.py from skyllh/core/llhratio.py, skyllh/core/signalpdf.py, skyllh/i3/pdfratio.py, '
            'skyllh/i3/detsigyield.py; do not edit -/\n'
            'namespace Gen.C02\n'
            '/-- `ZeroSigH0SingleDatasetTCLLHRatio._one_plus_alpha` -/\n'
            'def onePlusAlpha {F : Type} [OfScientific F] : F := %s\n'
            '%s'
            'end Gen.C02\n') % (extract.lean_float(_opa(ctx)), r7.generated_text(consts))


# --------------------------------------------------------------------------------------------------
# generators

def _maps(K):
    """every way to map one global parameter to K sources: per source unmapped (-1) | gamma (0) | ecut (1); all
    unmapped = a global parameter no source uses (mapped to the detector model only)"""
    return [list(m) for m in itertools.product((-1, 0, 1), repeat=K)]


def enumerate_layouts(K, m):
    """every declaration of ns + m other global parameters for K sources: m x {fixed, floating} x every source mapping
    (shared / subset / per-source alias names), ns at every position (ill-formed ones included)"""
    opts = [(fixed, mp) for fixed in (False, True) for mp in _maps(K)]
    for combo in itertools.product(opts, repeat=m):
        for pos in range(m + 1):
            lay = [{'fixed': f, 'map': mp, 'value': 1.05 + 0.1 * i} for i, (f, mp) in enumerate(combo)]
            lay.insert(pos, {'ns': True})
            yield lay


def _pvalue(rng):
    return float(rng.choice([gf.VMIN, gf.VMAX, round(gf.VMIN + 0.1 * rng.randrange(0, 11), 1),
                             gf.VMIN + (gf.VMAX - gf.VMIN) * rng.random()]))


def gen_layout(rng, K, m=None, well_formed=True):
    if m is None:
        m = rng.choice([0, 1, 1, 2, 2, 2, 3, 3, 3])
    maps = _maps(K)
    for _ in range(400):
        lay = []
        for _i in range(m):
            style = rng.choice(['shared', 'shared', 'any', 'any', 'any', 'three-names'])
            if style == 'shared':
                mp = [rng.randrange(2)] * K
            elif style == 'three-names':
                mp = [rng.choice([-1, 0, 1, 2, 2]) for _k in range(K)]      # third, inert local name 'beta'
            else:
                mp = rng.choice(maps)
            lay.append({'fixed': rng.random() < 0.4, 'map': list(mp), 'value': _pvalue(rng)})
        lay.insert(rng.randrange(m + 1), {'ns': True})
        if gf.well_formed({'layout': lay, 'K': K}) == well_formed or m == 0:
            for p in lay:
                if (not p.get('ns')) and rng.random() < 0.2:
                    p['declared_fixed'] = not p['fixed']       # status changed after mapping
            return lay
    return [{'ns': True}]


def _logu(rng, lo, hi):
    return float(np.exp(rng.uniform(np.log(lo), np.log(hi))))


def gen_case(rng, K=None, J=None, layout=None, regime=None):
    K = K or rng.choice([1, 2, 2, 3, 3])
    J = J or rng.choice([1, 2, 2, 3])
    groups = rng.choice([[K]] + ([[1, K - 1]] if K >= 2 else []) + ([[2, 1]] if K == 3 else []))
    lay = layout or gen_layout(rng, K)
    regime = regime or rng.choice(['stable', 'stable', 'stable', 'junction', 'junction', 'mixed', 'negative-ns', 'ns-zero'])
    ds = []
    for _j in range(J):
        E = rng.choice([0, 1, 1, 2, 3, 5, 8, 12])          # 0: a dataset without any event in the trial (0-length arrays)
        N = max(1, E + rng.choice([0, 0, 1, 5, 40]))
        mask = None
        if rng.random() < 0.5:
            mask = [[1 if rng.random() < 0.7 else 0 for _e in range(E)] for _k in range(K)]

        def tab(lo, hi, zero=0.0):
            return [[0.0 if rng.random() < zero else _logu(rng, lo, hi) for _e in range(E)] for _k in range(K)]

        def stab(s):
            return [[rng.uniform(-s, s) for _e in range(E)] for _k in range(K)]
        hi = 1e3 if regime in ('mixed', 'negative-ns') else 30.0
        ds.append({'N': N, 'E': E, 'mask': mask,
                   'cA': tab(1e-2, hi, zero=0.1), 'sA': stab(1.5), 'cB': tab(1e-1, 10.0), 'sB': stab(1.0),
                   'y0': [_logu(rng, 0.1, 10.0) for _k in range(K)],
                   'u': [rng.uniform(-1, 1) for _k in range(K)], 'v': [rng.uniform(-1, 1) for _k in range(K)]})
    # parameter-free PDF ratio factors: the wrapped ratio returns the int 0 for a parameter the yields depend on
    free = rng.choice(['none', 'none', 'none', 'A', 'B', 'both', 'both'])
    for d in ds:
        if free in ('A', 'both'):
            d['parA'] = False
        if free in ('B', 'both'):
            d['parB'] = False
    # detector signal yields with zeros (C03 allows them): single entries, a whole source column, a whole dataset row
    # (a dataset in which no source has any yield: it must not select events, its weighted ratio would be 0/0), and
    # optionally a non-zero yield *gradient* at a zero (or non-zero) yield through the linear terms lg / lx
    zero = rng.choice(['none', 'none', 'single', 'row', 'row-selected', 'row-selected', 'column', 'row+column'])
    if zero in ('row', 'row-selected', 'row+column') and J == 1:
        zero = 'single'
    if zero in ('column', 'row+column') and K == 1:
        zero = 'single' if zero == 'column' else 'row'
    zrow = rng.randrange(J) if 'row' in zero else None
    zcol = rng.randrange(K) if 'column' in zero else None
    for j, d in enumerate(ds):
        if zero == 'single' and K > 1:
            for k in range(K):
                if rng.random() < 0.3:
                    d['y0'][k] = 0.0
            if not any(d['y0']):
                d['y0'][rng.randrange(K)] = 1.0
        if zcol is not None:
            d['y0'][zcol] = 0.0
        if j == zrow:
            d['y0'] = [0.0] * K
            if zero != 'row-selected':
                d['mask'] = [[0] * d['E'] for _k in range(K)]
        lin = rng.choice(['none', 'none', 'at-zeros', 'anywhere'])
        if j == zrow and zero == 'row-selected' and rng.random() < 0.6:
            lin = 'none'            # the realistic case: zero yield with zero yield gradient (source outside the acceptance)
        if lin != 'none':
            d['lg'] = [rng.uniform(-0.5, 0.5) if (lin == 'anywhere' or d['y0'][k] == 0.0) and rng.random() < 0.7 else 0.0 for k in range(K)]
            d['lx'] = [rng.uniform(-0.5, 0.5) if (lin == 'anywhere' or d['y0'][k] == 0.0) and rng.random() < 0.7 else 0.0 for k in range(K)]
    nmin = min(d['N'] for d in ds)
    case = None
    if regime == 'negative-ns':
        ns = -rng.uniform(0.2, 3.0)
    elif regime == 'junction':
        ns = -1.0
    elif regime == 'ns-zero':
        ns = 0.0             # the null-hypothesis point, the lower bound of ns in every analysis
    elif regime == 'mixed':
        ns = rng.choice([rng.uniform(0.0, 0.9 * nmin), -rng.uniform(0.5, 2.0), 0.0])
    else:
        ns = rng.uniform(0.05, 0.5 * nmin)
    theta = []
    for p in lay:
        if p.get('ns'):
            theta.append(float(ns))
        elif not p['fixed']:
            theta.append(_pvalue(rng))
    case = {'K': K, 'groups': groups, 'W': [_logu(rng, 0.2, 5.0) for _k in range(K)], 'layout': lay, 'theta': theta,
            'ds': ds, 'regime': regime, 'zero_yields': zero}
    if regime == 'junction':
        # ns such that the event with the largest f_j*X_i sits at / just below / just above the stable-Taylor junction
        # alpha_i = ns*f_j*X_i = one_plus_alpha - 1 (moderate magnitudes, unlike a deep Taylor regime)
        xs = np.concatenate([x for x in gf.alphas(case)] + [np.array([0.0])])
        xmax = float(np.max(xs))
        if xmax > 1e-6:
            delta = rng.choice([0.0, 1e-12, -1e-12, 1e-6, -1e-6, rng.uniform(0, 0.01), rng.uniform(0, 0.01), -rng.uniform(0, 0.01)])
            case['theta'][gf.ns_fit_index(case)] = float((_opa() - 1.0 - delta) / xmax)
            case['junction_delta'] = float(delta)
        else:
            case['theta'][gf.ns_fit_index(case)] = 0.3
    return case


# --------------------------------------------------------------------------------------------------
# model requests

def layout_line(case):
    return 'layout %s %d %d' % (gf.layout_string(case), case['K'], gf.NN)


def lval_line(case):
    """request for the value column: theta_i = 1.5 + 0.01 i for the floating parameters, the fixed values of the layout"""
    nfl = len(gf.floating_positions(case))
    fx_ = [p['value'] for p in case['layout'] if (not p.get('ns')) and p['fixed']]
    return 'lval %s %d %d %s %s' % (gf.layout_string(case), case['K'], gf.NN, flist([1.5 + 0.01 * i for i in range(nfl)]), flist(fx_))


def parse_layout_answer(ans):
    d = dict(t.split(':', 1) for t in ans.split(' '))
    return {'wf': d['wf'] == '1', 'nfl': int(d['nfl']), 'fl': parse_ilist(d['fl']), 'gp': parse_ilist(d['gp']),
            'gpp': parse_ilist(d['gpp']), 'ok': d['ok'] == '1', 'okp': d['okp'] == '1'}


def impl_layout(case):
    """what the real ParameterModelMapper says about the layout (or 'KeyError')"""
    K = case['K']
    sources = fx.make_sources(K)
    try:
        pmm = gf.make_pmm_layout(sources, case['layout'])
    except KeyError:
        return 'KeyError'
    nfl = pmm.n_global_floating_params
    rec = pmm.create_src_params_recarray(gflp_values=np.zeros((nfl,)))
    gp = []
    for k in range(K):
        for name in gf.LOCAL_NAMES:
            gp.append(int(rec[name + ':gpidx'][k]) if name in rec.dtype.fields else 0)
    recv = pmm.create_src_params_recarray(gflp_values=np.array([1.5 + 0.01 * i for i in range(nfl)]))
    vals = []
    for k in range(K):
        for name in gf.LOCAL_NAMES:
            v = float(recv[name][k]) if name in recv.dtype.fields else float('nan')
            vals.append('n' if v != v else f2b(v))
    return {'vals': vals, 'nfl': int(nfl), 'fl': [int(i) for i in pmm.global_paramset.floating_params_idxs], 'gp': gp,
            'ns': int(pmm.get_gflp_idx('ns')), 'veclen': int(len(rec))}


def stack_line(case, lay, opa, pert=None):
    """request for Grad.stacked; `lay` = parsed answer of the layout request (the model's own gpidx table)"""
    K = case['K']
    loc = gf.local_values(case)
    rs = np.random.RandomState(zlib.crc32(('%s|%r' % (gf.layout_string(case), case['theta'])).encode()) % (2 ** 32))

    def P(x):
        x = np.asarray(x, dtype=np.float64)
        if pert is None:
            return x
        return x * (1.0 + pert * rs.uniform(-1, 1, size=x.shape))
    ns = case['theta'][gf.ns_fit_index(case)]
    g_ns = [g for g, p in enumerate(case['layout']) if p.get('ns')][0]
    gp2 = [lay['gp'][gf.NN * k + n] for k in range(K) for n in (0, 1)]      # the leaves know gamma and ecut only
    toks = ['stack', f2b(opa), f2b(float(P(ns))), str(lay['nfl']), str(lay['fl'].index(g_ns)), str(K), ilist(gp2),
            flist(P(case['W'])), str(len(case['ds']))]
    for j, d in enumerate(case['ds']):
        Y, dYg, dYx = gf.yield_tables(case, j, loc)
        rA, rB, dA, dB = gf.leaf_tables(case, j, loc)
        m = gf.mask_of(case, j)
        sel = [e for e in range(d['E']) if m[:, e].any()]
        leaves = np.zeros((len(sel), K, 4))
        for i, e in enumerate(sel):
            for k in range(K):
                if m[k, e]:
                    leaves[i, k] = (rA[k, e], rB[k, e], dA[k, e], dB[k, e])
        toks += [str(d['N']), '1' if d.get('parA', True) else '0', '1' if d.get('parB', True) else '0', flist(P(Y)), flist(P(np.column_stack([dYg, dYx])).ravel()), str(len(sel)),
                 flist(P(leaves).ravel())]
    return ' '.join(toks)


def parse_stack_answer(ans):
    if ans.startswith('ERR'):
        return ans            # the model's explicit exception (IndexError of the gradient bookkeeping)
    v, g, g2 = ans.split(' ')
    return b2f(v), parse_flist(g), b2f(g2)


def _close(impl, model, model2):
    if not (np.isfinite(impl) and np.isfinite(model)):
        return bool(impl == model)          # +-inf on both sides; a NaN never agrees
    return abs(impl - model) <= REL * (abs(impl) + abs(model)) + SENS * abs(model - model2) + 1e-300


def compare_stack(case, impl, m1, m2):
    """impl = (value, grads, g2) | 'EXC:..'; m1/m2 = model answers (plain / perturbed). -> None | text"""
    if isinstance(m1, str):
        return None if isinstance(impl, str) else 'the model raises %s, the implementation evaluates' % m1
    if isinstance(impl, str):
        return 'implementation raised %s, the model evaluates' % impl
    (v, g, g2), (mv, mg, mg2), (pv, pg, pg2) = impl, m1, m2
    if len(g) != len(mg):
        return 'gradient vector has %d entries, model %d (= n_floating)' % (len(g), len(mg))
    if not _close(v, mv, pv):
        return 'value %r, model %r' % (v, mv)
    for i, (a, b, c) in enumerate(zip(g, mg, pg)):
        if not _close(a, b, c):
            return 'grads[%d] = %r, model %r (all: %r vs %r)' % (i, a, b, list(g), mg)
    if not _close(g2, mg2, pg2):
        return 'calculate_ns_grad2 = %r, model %r' % (g2, mg2)
    return None


def impl_stack(case):
    try:
        B = gf.build(case)
        v, g, g2 = gf.evaluate(B, case['theta'])
        return (v, [float(x) for x in g], g2)
    except Exception as e:  # noqa
        return 'EXC:%s: %s' % (type(e).__name__, str(e)[:200])


# --------------------------------------------------------------------------------------------------
# property oracles (implementation only)

def _richardson(f, x, h):
    d1 = (f(x + h) - f(x - h)) / (2 * h)
    d2 = (f(x + h / 2) - f(x - h / 2)) / h
    return (4 * d2 - d1) / 3.0, abs(d2 - d1)


def _fd_check(f, x, g, h0, fscale, rel=1e-6):
    """is `g` the derivative of f at x?  Richardson-extrapolated central differences d(h) at steps h0, h0/5, ... (up to 7
    levels); the error estimate of a level is |D(h/2) - D(h)| (the h^2 term the extrapolation removes: an upper bound
    for the extrapolated value also when the stencil straddles the stable/Taylor junction of an event) + the rounding
    error 1e-14*fscale/h.  The level with the smallest estimate decides: accepted iff |d - g| <= rel*(|d|+|g|) +
    2*estimate.  A level that is already precise (estimate <= 1e-5 relative) and agrees ends the descent early.
    -> (ok, estimate of the derivative, tolerance)"""
    best, h, worse = None, h0, 0
    for _ in range(7):
        d, spread = _richardson(f, x, h)
        err = spread + 1e-14 * fscale / h
        if np.isfinite(d):
            if best is None or err < best[0]:
                best, worse = (err, d), 0
            else:
                worse += 1
            if err <= 1e-5 * (abs(d) + abs(g)) + 1e-12 * fscale and abs(d - g) <= rel * (abs(d) + abs(g)) + 2 * err:
                return True, d, rel * (abs(d) + abs(g)) + 2 * err
            if worse >= 2:
                break
        h /= 5.0
    if best is None:
        return False, float('nan'), float('nan')
    err, d = best
    tol = rel * (abs(d) + abs(g)) + 2 * err
    return bool(abs(d - g) <= tol), d, tol


def o_fd(ctx, case):
    """every entry of the returned gradient = derivative of the returned value (finite differences of the
    implementation's own value); no exception; one entry per floating parameter"""
    try:
        B = gf.build(case)
        theta = np.array(case['theta'], dtype=np.float64)
        (v0, g, _g2) = gf.evaluate(B, theta)
    except AssertionError as e:          # an assertion of the fixtures themselves
        raise MachineryError('fixture: %s' % e)
    except Exception as e:  # noqa
        return 'evaluation raised %s: %s (layout %s)' % (type(e).__name__, str(e)[:160], gf.layout_string(case))
    nfl = len(gf.floating_positions(case))
    if len(g) != nfl:
        return 'gradient vector has %d entries for %d floating parameters' % (len(g), nfl)
    ins = gf.ns_fit_index(case)
    if np.isfinite(v0) and not np.all(np.isfinite(g)):
        bad = [i for i in range(nfl) if not np.isfinite(g[i])]
        return ('gradient entries %r are not finite (grads = %r) although the returned value %r is finite; yields y0 = %r, '
                'layout %s theta %r' % (bad, [float(x) for x in g], v0, [d['y0'] for d in case['ds']],
                                        gf.layout_string(case), list(theta)))
    for i in range(nfl):
        def f(t, i=i):
            th = theta.copy()
            th[i] = t
            return float(B.multi.evaluate(th)[0])
        h = 1e-3 * max(1.0, abs(theta[i])) if i == ins else 2e-3
        ok, d, tol = _fd_check(f, theta[i], g[i], h, max(1.0, abs(v0)))
        if not ok:
            which = 'ns' if i == ins else 'p'
            return ('grads[%d] (%s, floating parameter #%d in declaration order) = %r but d(value)/d(parameter) = %r '
                    '(finite differences, tol %.2g); layout %s theta %r' % (
                        i, which, i, float(g[i]), float(d), tol, gf.layout_string(case), list(theta)))
    return None


def o_grad2(ctx, case):
    """calculate_ns_grad2 = derivative of the returned ns-gradient, stable regime"""
    opa = _opa()
    if not gf.all_stable(case, opa, margin=1e-3):
        return None
    try:
        B = gf.build(case)
        theta = np.array(case['theta'], dtype=np.float64)
        (_v, g, g2) = gf.evaluate(B, theta)
    except AssertionError as e:          # an assertion of the fixtures themselves
        raise MachineryError('fixture: %s' % e)
    except Exception as e:  # noqa
        return 'evaluation raised %s: %s' % (type(e).__name__, str(e)[:160])
    ins = gf.ns_fit_index(case)

    def f(t):
        th = theta.copy()
        th[ins] = t
        return float(B.multi.evaluate(th)[1][ins])
    h = 1e-4 * max(1.0, abs(theta[ins]))
    # the stencil must stay in the stable regime
    for t in (theta[ins] - h, theta[ins] + h):
        c2 = dict(case)
        th = list(case['theta'])
        th[ins] = float(t)
        c2['theta'] = th
        if not gf.all_stable(c2, opa, margin=1e-3):
            return None
    ok, d, tol = _fd_check(f, theta[ins], g2, h, max(1.0, abs(g[ins])))
    if not ok:
        return 'calculate_ns_grad2 = %r but d(grads[ns])/d(ns) = %r (finite differences, tol %.2g); theta %r' % (
            g2, float(d), tol, list(theta))
    return None


def o_reuse(ctx, case):
    """a used object (evaluated at theta, then moved to theta2) returns the same value, gradient and second
    derivative at theta2 as a fresh object: no stale per-event cache (`_cache_nsgrad_i`, `_cache_R_ik`, ...)"""
    theta = np.array(case['theta'], dtype=np.float64)
    ins = gf.ns_fit_index(case)
    theta2 = theta + 0.137
    theta2[ins] = theta[ins] * 0.83 + 0.05
    try:
        B = gf.build(case)
        gf.evaluate(B, theta)
        used = gf.evaluate(B, theta2)
        fresh = gf.evaluate(gf.build(case), theta2)
        # a new pseudo-data trial on the used object (other selected events, other N) vs. a fresh object on that trial
        gf.start_trial(B, case, 1)
        used_t = gf.evaluate(B, theta2)
        fresh_t = gf.evaluate(gf.build(case, trial=1), theta2)
    except AssertionError as e:          # an assertion of the fixtures themselves
        raise MachineryError('fixture: %s' % e)
    except Exception as e:  # noqa
        return 'evaluation raised %s: %s' % (type(e).__name__, str(e)[:160])
    if not np.array_equal(theta, np.array(case['theta'], dtype=np.float64)):
        return 'evaluate / calculate_ns_grad2 modified the fitparam_values array it was given'
    checks = (('value', used[0], fresh[0]), ('calculate_ns_grad2', used[2], fresh[2])) + tuple(
        ('grads[%d]' % i, x, y) for i, (x, y) in enumerate(zip(used[1], fresh[1])))
    checks += (('value after a new trial', used_t[0], fresh_t[0]), ('calculate_ns_grad2 after a new trial', used_t[2], fresh_t[2])) + tuple(
        ('grads[%d] after a new trial' % i, x, y) for i, (x, y) in enumerate(zip(used_t[1], fresh_t[1])))
    for what, a, b in checks:
        if (np.isnan(a) and np.isnan(b)) or a == b:
            continue            # a NaN is the business of the fd oracle, not a stale cache
        if not abs(a - b) <= 1e-12 * (abs(a) + abs(b)):
            return '%s at theta2=%r after an evaluation at theta=%r is %r, a fresh object gives %r' % (
                what, list(theta2), list(theta), float(a), float(b))
    return None


def gen_grid_case(rng):
    K = rng.choice([1, 2, 2, 3])
    # the PDF set needs a gamma value for every source: legal layouts map local name 0 to every source
    while True:
        lay = gen_layout(rng, K, m=rng.choice([1, 2, 2, 3, 3]))
        others = [p for p in lay if not p.get('ns')]
        if all(any(p['map'][k] == 0 for p in others) for k in range(K)) and any(
                (not p['fixed']) and 0 in p['map'] for p in others):
            break
    E = rng.choice([2, 4, 7])
    theta = []
    for p in lay:
        if p.get('ns'):
            theta.append(float(rng.uniform(0.2, 0.5 * E)))
        elif not p['fixed']:
            kind = rng.choice(['grid', 'bound', 'free', 'free'])
            if kind == 'grid':
                theta.append(round(1.0 + 0.1 * rng.randrange(0, 11), 1))
            elif kind == 'bound':
                theta.append(rng.choice([gf.VMIN, gf.VMAX]))
            else:
                # away from grid points (kinks of the linear method) and mid-points (switch of the parabola method)
                theta.append(round(1.0 + 0.1 * rng.randrange(0, 10), 1) + rng.choice([0.012, 0.02, 0.031, 0.038, 0.062, 0.07, 0.088]))
    if rng.random() < 0.4:
        # per-source alias spectral indices: one alias for exactly one source, the others with their own floating or
        # fixed gamma — and (below) a parameter point at which the gamma values of ALL sources coincide: the customary
        # start point of a fit, a common bound / grid point, a floating alias passing the value of a fixed one
        K = rng.choice([2, 2, 3])
        v = _pvalue(rng) if rng.random() < 0.6 else round(1.0 + 0.1 * rng.randrange(0, 10), 1) + rng.choice([0.012, 0.038, 0.062, 0.088])
        one = rng.randrange(K)
        lay = [{'fixed': False, 'map': [0 if k == one else -1 for k in range(K)], 'value': v},
               {'fixed': rng.random() < 0.4, 'map': [-1 if k == one else 0 for k in range(K)], 'value': v}]
        if rng.random() < 0.4:
            lay.append({'fixed': rng.random() < 0.5, 'map': [rng.choice([-1, 1]) for _k in range(K)], 'value': _pvalue(rng)})
        rng.shuffle(lay)
        lay.insert(rng.randrange(len(lay) + 1), {'ns': True})
        theta = []
        for p in lay:
            if p.get('ns'):
                theta.append(float(rng.uniform(0.2, 0.5 * E)))
            elif not p['fixed']:
                theta.append(float(v) if 0 in p['map'] else _pvalue(rng))
        coincide = True
    else:
        coincide = False
    if rng.random() < 0.12:
        theta[[i for i, p in enumerate([q for q in lay if q.get('ns') or not q['fixed']]) if p.get('ns')][0]] = 0.0      # ns = 0
    return {'K': K, 'W': [_logu(rng, 0.3, 3.0) for _k in range(K)], 'y': [_logu(rng, 0.3, 3.0) for _k in range(K)],
            'coincide': coincide, 'sig_product': rng.choice([None, None, None, 'both', 'both', 'first', 'second']),
            'interp': rng.choice(['linear', 'parabola']), 'N': E + rng.choice([0, 3, 30]),
            'x': [round(rng.uniform(0.02, 0.98), 3) for _e in range(E)], 'layout': lay, 'theta': theta,
            'edge_grid': rng.random() < 0.5, 'J': rng.choice([1, 1, 2]), 'sel': rng.random() < 0.4,
            'groups': rng.choice([[K]] + ([[1, K - 1]] if K >= 2 else []))}


def gen_i3_case(rng):
    c = gen_grid_case(rng)
    K = c['K']
    lay = c['layout']
    # the yields depend on gamma: put a floating gamma parameter *before* ns in a good share of the cases
    if rng.random() < 0.5:
        lay = [p for p in lay if not p.get('ns')]
        first_gamma = [i for i, p in enumerate(lay) if (not p['fixed']) and 0 in p['map']]
        lay.insert(rng.randrange(first_gamma[0] + 1, len(lay) + 1), {'ns': True})
        ns_old = gf.ns_fit_index(c)
        th = list(c['theta'])
        ns_val = th.pop(ns_old)
        c['layout'] = lay
        th.insert(gf.ns_fit_index(c), ns_val)
        c['theta'] = th
    J = rng.choice([1, 2, 2, 3])
    E = [rng.choice([3, 6, 9]) for _j in range(J)]
    groups = rng.choice([[K]] + ([[1, K - 1]] if K >= 2 else []))
    c.update({'J': J, 'E': E, 'N': [e + rng.choice([0, 4, 30]) for e in E], 'ev_seed': rng.randrange(10 ** 6), 'groups': groups,
              'order': rng.choice(['first', 'second']), 'no_energy': rng.random() < 0.25})
    for k in ('x', 'y', 'sel', 'sig_product'):
        c.pop(k, None)
    # legal ns: below every dataset's total event count (ns_j = ns*f_j <= ns < N_j)
    th = list(c['theta'])
    th[gf.ns_fit_index(c)] = float(rng.uniform(0.2, 0.8 * min(c['N']))) if rng.random() > 0.12 else 0.0
    c['theta'] = th
    return c


def o_fd_grid(ctx, case):
    """as `fd`, through the real SignalMultiDimGridPDFSet / SigOverBkgPDFRatio / SourceWeightedPDFRatio chain
    (Linear and Parabola grid interpolation). At a grid point of the linear method the value has a kink: the returned
    entry must equal one of the two one-sided derivatives."""
    return _fd_interp(case, gf.build_grid)


def o_fd_i3(ctx, case):
    """as `fd_grid`, through the IceCube consumers: real SingleParamFluxPointLikeSourceI3DetSigYield yields (incl. sources
    outside a dataset's acceptance = zero yield) and the real SplinedI3EnergySigSetOverBkgPDFRatio in a PDFRatioProduct"""
    return _fd_interp(case, gf.build_i3)


def _seq_points(case):
    """theta, a second point inside the same gamma grid cells, a point in other cells, theta again"""
    theta = np.array(case['theta'], dtype=np.float64)
    ins = gf.ns_fit_index(case)
    t1, t2 = theta.copy(), theta.copy()
    for i in range(len(theta)):
        if i == ins:
            t1[i] = theta[i] * 1.07 + 0.01
            t2[i] = theta[i] * 0.8 + 0.05
        else:
            frac = theta[i] * 10 - np.floor(theta[i] * 10 + 1e-9)
            t1[i] = theta[i] + (0.027 if frac < 0.5 else -0.027)
            t2[i] = theta[i] + (0.137 if theta[i] < 1.5 else -0.137)
    return [theta, t1, t2, theta.copy(), t1.copy()]


_START = {}


def _o_seq(case, builder, what):
    """call history: one object evaluated at a sequence of parameter points of one trial (twice inside one grid cell of
    the interpolation, then another cell, then back) returns at every point what a fresh object returns there"""
    pts = _seq_points(case)
    try:
        B = builder(case)
        used = []
        for t in pts:
            (v, g) = B.multi.evaluate(t.copy())
            used.append((float(v), np.array(g, dtype=np.float64)))
        fresh = []
        for t in pts[:3]:
            (v, g) = builder(case).multi.evaluate(t.copy())
            fresh.append((float(v), np.array(g, dtype=np.float64)))
        fresh += [fresh[0], fresh[1]]
        # a new pseudo-data trial on the used object, evaluated inside the grid cell used before
        starter = {gf.build_i3: gf.start_trial_i3, gf.build_grid: gf.start_trial_grid}[builder]
        starter(B, case, 1)
        for t in (pts[1], pts[0]):
            (v, g) = B.multi.evaluate(t.copy())
            used.append((float(v), np.array(g, dtype=np.float64)))
            (v, g) = builder(case, trial=1).multi.evaluate(t.copy())
            fresh.append((float(v), np.array(g, dtype=np.float64)))
        pts = pts + [pts[1], pts[0]]
    except AssertionError as e:          # an assertion of the fixtures themselves
        raise MachineryError('fixture: %s' % e)
    except Exception as e:  # noqa
        return 'evaluation raised %s: %s (%s, layout %s)' % (type(e).__name__, str(e)[:160], what, gf.layout_string(case))
    for n, (t, (uv, ug), (fv, fg)) in enumerate(zip(pts, used, fresh)):
        for name, a, b in (('value', uv, fv),) + tuple(('grads[%d]' % i, x, y) for i, (x, y) in enumerate(zip(ug, fg))):
            if (np.isnan(a) and np.isnan(b)) or a == b:
                continue
            if not abs(a - b) <= 1e-10 * (abs(a) + abs(b)) + 1e-13:
                return ('%s at evaluation #%d (#5, #6 = after a new trial) (theta=%r) of one object is %r, a fresh object gives %r; %s, %s interpolation, '
                        'layout %s, earlier points %r' % (name, n, [float(x) for x in t], float(a), float(b), what,
                                                          case['interp'], gf.layout_string(case), [[float(x) for x in q] for q in pts[:n]]))
    return None


def o_seq_i3(ctx, case):
    return _o_seq(case, gf.build_i3, 'SplinedI3EnergySigSetOverBkgPDFRatio + I3 detector signal yields')


def o_seq_grid(ctx, case):
    return _o_seq(case, gf.build_grid, 'SignalMultiDimGridPDFSet')


def _fd_interp(case, builder):
    try:
        B = builder(case)
        theta = np.array(case['theta'], dtype=np.float64)
        (v0, g) = B.multi.evaluate(theta)
        g = np.array(g, dtype=np.float64)
    except AssertionError as e:          # an assertion of the fixtures themselves
        raise MachineryError('fixture: %s' % e)
    except Exception as e:  # noqa
        return 'evaluation raised %s: %s (layout %s, %s interpolation)' % (
            type(e).__name__, str(e)[:160], gf.layout_string(case), case['interp'])
    fl = gf.floating_positions(case)
    if len(g) != len(fl):
        return 'gradient vector has %d entries for %d floating parameters' % (len(g), len(fl))
    ins = gf.ns_fit_index(case)
    if np.isfinite(v0) and not np.all(np.isfinite(g)):
        return 'gradient entries are not finite (grads = %r) although the returned value %r is finite; layout %s theta %r' % (
            [float(x) for x in g], float(v0), gf.layout_string(case), list(theta))
    for i in range(len(fl)):
        def f(t, i=i):
            th = theta.copy()
            th[i] = t
            return float(B.multi.evaluate(th)[0])
        h = 1e-3
        on_grid = i != ins and abs(theta[i] * 10 - round(theta[i] * 10)) < 1e-9
        if on_grid and case['interp'] == 'linear':
            cands = []
            for sgn in (1.0, -1.0):
                d1 = (f(theta[i] + sgn * h) - v0) / (sgn * h)
                d2 = (f(theta[i] + sgn * h / 2) - v0) / (sgn * h / 2)
                cands.append((2 * d2 - d1, abs(d2 - d1)))
            ok = any(abs(d - g[i]) <= 1e-5 * (abs(d) + abs(g[i])) + 0.5 * sp + 1e-13 * max(1.0, abs(v0)) / h for d, sp in cands)
            d = cands[0][0]
        else:
            ok, d, _tol = _fd_check(f, theta[i], g[i], h, max(1.0, abs(v0)))
        if not ok:
            return ('grads[%d] (floating parameter #%d in declaration order) = %r but d(value)/d(parameter) = %r (finite '
                    'differences); %s interpolation, layout %s theta %r' % (
                        i, i, float(g[i]), float(d), case['interp'], gf.layout_string(case), list(theta)))
    return None


def gen_history(rng, case):
    """a history of operations on ONE MultiDatasetTCLLHRatio object: new pseudo-data trials, successful evaluations at
    several parameter points, an evaluation that raises inside the first single llh ratio, calculate_ns_grad2 at the
    evaluated ns and at another one — starting on the fresh object"""
    # the linear yield terms make yields negative away from theta (illegal input): histories visit other points
    for d in case['ds']:
        d.pop('lg', None)
        d.pop('lx', None)
    ops = []
    thetas = [list(case['theta'])]
    ins = gf.ns_fit_index(case)
    for k in (1, 2):
        th = [t + 0.11 * k for t in case['theta']]
        th[ins] = case['theta'][ins] * (1.0 - 0.2 * k) + 0.03 * k
        thetas.append(th)
    th = list(case['theta'])
    th[ins] = 0.0                      # the null-hypothesis point
    thetas.append(th)
    for _ in range(rng.choice([5, 8, 12])):
        kind = rng.choice(['grad2', 'grad2', 'eval', 'eval', 'eval', 'new', 'fail'])
        if kind == 'grad2':
            ops.append(['grad2', rng.choice(['same', 'same', 'other'])])
        elif kind == 'eval':
            ops.append(['eval', rng.randrange(len(thetas))])
        elif kind == 'new':
            ops.append(['new', rng.randrange(0, 4)])
        else:
            ops.append(['fail', rng.randrange(len(thetas))])
    ops.append(['grad2', 'same'])
    return {'case': case, 'thetas': thetas, 'ops': ops}


def _history_impl(h):
    """run the history on the real object; one entry per grad2 op: float | 'ERR'"""
    case = h['case']
    B = gf.build(case)
    ins = gf.ns_fit_index(case)
    out, last_ns = [], case['theta'][ins]
    for op in h['ops']:
        if op[0] == 'new':
            gf.start_trial(B, case, op[1])
        elif op[0] == 'eval':
            th = np.array(h['thetas'][op[1]], dtype=np.float64)
            B.multi.evaluate(th)
            last_ns = float(th[ins])
        elif op[0] == 'fail':
            th = np.array(h['thetas'][op[1]], dtype=np.float64)
            stub = B.inner[0][0]
            orig = stub.get_ratio

            def boom(*a, **k):
                raise ArithmeticError('injected failure of a PDF ratio')
            stub.get_ratio = boom
            try:
                B.multi.evaluate(th)
                # the implementation did not ask the first dataset's PDF ratio at all: nothing the model's `evaluateFail`
                # describes; the rest of this history cannot be compared
                out.append('UNSURFACED')
                stub.get_ratio = orig
                return out
            except ArithmeticError:
                pass
            finally:
                stub.get_ratio = orig
        else:
            ns = last_ns if op[1] == 'same' else last_ns * 0.7 + 0.013
            rec = B.pmm.create_src_params_recarray(gflp_values=np.array(h['thetas'][0], dtype=np.float64))
            try:
                out.append(float(B.multi.calculate_ns_grad2(ns=ns, ns_pidx=ins, src_params_recarray=rec)))
            except Exception:  # noqa  (which exception class is raised is not part of the relation)
                out.append('ERR')
    return out


def _history_lines(h, opa):
    case = h['case']
    ins = gf.ns_fit_index(case)
    lines, trial, last_ns = ['hreset %d' % len(case['ds'])], 0, case['theta'][ins]
    (_f, _Xs, sizes) = gf.f_and_X(case, 0)
    lines.append('hnew ' + ';'.join('%d,%d' % s for s in sizes))       # the constructor's trial
    for op in h['ops']:
        if op[0] == 'new':
            trial = op[1]
            (_f, _Xs, sizes) = gf.f_and_X(case, trial)
            lines.append('hnew ' + ';'.join('%d,%d' % s for s in sizes))
        elif op[0] == 'eval':
            th = h['thetas'][op[1]]
            (f, Xs, _sz) = gf.f_and_X(case, trial, th)
            lines.append('heval %s %s %s %s' % (f2b(opa), f2b(th[ins]), flist(f), ';'.join(flist(x) for x in Xs)))
            last_ns = th[ins]
        elif op[0] == 'fail':
            (f, _Xs, _sz) = gf.f_and_X(case, trial, h['thetas'][op[1]])
            lines.append('hfail %s' % flist(f))
        else:
            ns = last_ns if op[1] == 'same' else last_ns * 0.7 + 0.013
            lines.append('hgrad2 %s' % f2b(ns))
    return lines


def _history_compare(h, impl, answers):
    model = [a for a, l in zip(answers, _history_lines(h, 0.0)) if l.startswith('hgrad2')]
    if impl and impl[-1] == 'UNSURFACED':
        impl = impl[:-1]
        model = model[:len(impl)]
    if len(model) != len(impl):
        return 'machinery: %d model answers for %d grad2 calls' % (len(model), len(impl))
    for n, (a, b) in enumerate(zip(impl, model)):
        if (a == 'ERR') != b.startswith('ERR'):
            return 'calculate_ns_grad2 call #%d of the history %r: implementation %s, model %s' % (
                n, h['ops'], 'raised' if a == 'ERR' else 'returned %r' % a, b)
        if a != 'ERR':
            mv = b2f(b)
            if not abs(a - mv) <= 1e-7 * (abs(a) + abs(mv)) + 1e-300:
                return 'calculate_ns_grad2 call #%d of the history %r: implementation %r, model %r' % (n, h['ops'], a, mv)
    return None


def o_history(ctx, h):
    """state-machine correspondence on one history (Model/GradState.lean): which calculate_ns_grad2 calls raise, and the
    values of the others (1e-7 relative)"""
    opa = _opa()
    try:
        impl = _history_impl(h)
    except AssertionError as e:
        from harness.core import MachineryError
        raise MachineryError('history fixture: %s' % e)
    answers = ctx.driver('C02', _history_lines(h, opa))
    return _history_compare(h, impl, answers)


ARG_FORMS = ('strided', 'readonly', 'explicit-recarray', 'readonly-recarray', 'fortran-2d-column')


def _arg_form(theta, form, pmm):
    """the same parameter point handed to evaluate in another legal form -> (fitparam_values, kwargs)"""
    theta = np.array(theta, dtype=np.float64)
    if form == 'strided':                      # a non-contiguous view
        buf = np.full((2 * len(theta),), 123.456)
        buf[::2] = theta
        return buf[::2], {}
    if form == 'readonly':                     # evaluate must not write into its argument
        a = theta.copy()
        a.flags.writeable = False
        return a, {}
    if form == 'explicit-recarray':            # the caller builds src_params_recarray itself (as Analysis classes do)
        return theta.copy(), {'src_params_recarray': pmm.create_src_params_recarray(gflp_values=theta)}
    if form == 'readonly-recarray':
        rec = pmm.create_src_params_recarray(gflp_values=theta)
        rec.flags.writeable = False
        return theta.copy(), {'src_params_recarray': rec}
    if form == 'fortran-2d-column':            # a column of a Fortran-ordered 2-d array (contiguous, other base)
        m = np.asfortranarray(np.tile(theta[:, None], (1, 3)))
        return m[:, 1], {}
    raise ValueError(form)


def _o_argforms(case, builder, what):
    """glue: the result of evaluate does not depend on the memory layout / writability of the fitparam_values array nor on
    whether src_params_recarray is passed or built internally; the arguments are left unchanged; an array handed out by
    an earlier call is not changed by a later call (no live view of an internal buffer)"""
    theta = np.array(case['theta'], dtype=np.float64)
    try:
        B = builder(case)
        (v0, g0) = B.multi.evaluate(theta.copy())
        v0, g0 = float(v0), np.array(g0, dtype=np.float64)
    except AssertionError as e:          # an assertion of the fixtures themselves
        raise MachineryError('fixture: %s' % e)
    except Exception as e:  # noqa
        return 'evaluation raised %s: %s (%s)' % (type(e).__name__, str(e)[:160], what)
    for form in ARG_FORMS:
        try:
            B2 = builder(case)
            (arg, kw) = _arg_form(theta, form, B2.pmm)
            snap = arg.tobytes()
            snap_rec = kw['src_params_recarray'].tobytes() if kw else None
            (v, g) = B2.multi.evaluate(arg, **kw)
            handed_out = g
            keep = np.array(g, dtype=np.float64)
            theta2 = theta + 0.05
            B2.multi.evaluate(theta2)
        except Exception as e:  # noqa
            return 'evaluate raised %s: %s when fitparam_values / src_params_recarray are given as %s (%s)' % (
                type(e).__name__, str(e)[:160], form, what)
        if arg.tobytes() != snap or (kw and kw['src_params_recarray'].tobytes() != snap_rec):
            return 'evaluate modified its %s argument (%s)' % (form, what)
        if float(v) != v0 or not np.array_equal(keep, g0):
            return 'evaluate with %s arguments returns (%r, %r), with a plain array (%r, %r) (%s)' % (
                form, float(v), keep.tolist(), v0, g0.tolist(), what)
        if not np.array_equal(np.asarray(handed_out, dtype=np.float64), keep):
            return 'the gradient array handed out by evaluate was changed by the next evaluate call (%s)' % what
    return None


def o_argforms(ctx, case):
    return _o_argforms(case, gf.build, 'stub chain')


def o_argforms_i3(ctx, case):
    return _o_argforms(case, gf.build_i3, 'i3 chain')


def o_argforms_grid(ctx, case):
    return _o_argforms(case, gf.build_grid, 'grid chain')


def _o_grad2_chain(case, builder, what):
    """calculate_ns_grad2 = d(grads[ns])/d(ns) in the stable regime, through a chain whose leaves the model does not
    know; stability is read through the public API (pdfratio.get_ratio, get_weights)"""
    opa = _opa()
    theta = np.array(case['theta'], dtype=np.float64)
    ins = gf.ns_fit_index(case)
    try:
        B = builder(case)
        (_v, g) = B.multi.evaluate(theta.copy())
        rec = B.pmm.create_src_params_recarray(gflp_values=theta)
        g2 = float(B.multi.calculate_ns_grad2(ns=theta[ins], ns_pidx=ins, src_params_recarray=rec))
        (f, _fg) = B.multi.ds_sig_weight_factors_service.get_weights()
        h = 1e-4 * max(1.0, abs(theta[ins]))
        for j, llh in enumerate(B.multi.llhratio_list):
            R = np.asarray(llh.pdfratio.get_ratio(tdm=llh.tdm, src_params_recarray=rec))
            X = (R - 1.0) / llh.tdm.n_events
            for n in (theta[ins] - h, theta[ins], theta[ins] + h):
                if np.any(n * f[j] * X <= (opa - 1.0) + 1e-3):
                    return None
    except AssertionError as e:          # an assertion of the fixtures themselves
        raise MachineryError('fixture: %s' % e)
    except Exception as e:  # noqa
        return 'evaluation raised %s: %s (%s)' % (type(e).__name__, str(e)[:160], what)

    def fn(t):
        th = theta.copy()
        th[ins] = t
        return float(B.multi.evaluate(th)[1][ins])
    ok, d, tol = _fd_check(fn, theta[ins], g2, h, max(1.0, abs(g[ins])))
    if not ok:
        return 'calculate_ns_grad2 = %r but d(grads[ns])/d(ns) = %r (finite differences, tol %.2g); %s, theta %r' % (
            g2, float(d), tol, what, list(theta))
    return None


def o_grad2_i3(ctx, case):
    return _o_grad2_chain(case, gf.build_i3, 'i3 chain')


def o_grad2_grid(ctx, case):
    return _o_grad2_chain(case, gf.build_grid, 'grid chain')


def o_layout(ctx, case):
    """reference (pure python): gpidx of a local parameter = fit-parameter id + 1 of the floating global parameter
    mapped to it (id = rank among the floating ones in declaration order), negative for a fixed one, 0 if unmapped;
    an ill-formed layout is refused by map_param"""
    return _layout_reference(case, impl_layout(case))


def _layout_reference(case, got):
    wf = gf.well_formed(case)
    if got == 'KeyError':
        return None if not wf else 'map_param raised KeyError for the legal layout %s' % gf.layout_string(case)
    if not wf:
        return 'map_param accepted the layout %s that defines a local parameter twice for one source' % gf.layout_string(case)
    fl = gf.floating_positions(case)
    K = case['K']
    want = [0] * (gf.NN * K)
    for g, p in enumerate(case['layout']):
        if p.get('ns'):
            continue
        for k, nm in enumerate(p['map']):
            if nm >= 0:
                want[gf.NN * k + nm] = -(g + 1) if p['fixed'] else fl.index(g) + 1
    if got['nfl'] != len(fl) or got['fl'] != fl:
        return 'floating parameters %r (n=%d), declared floating %r' % (got['fl'], got['nfl'], fl)
    if got['ns'] != gf.ns_fit_index(case):
        return 'get_gflp_idx("ns") = %d, ns is floating parameter #%d' % (got['ns'], gf.ns_fit_index(case))
    for idx, (a, b) in enumerate(zip(got['gp'], want)):
        if a != b and not (a <= 0 and b <= 0 and (a < 0) == (b < 0)):
            return ('%s:gpidx of source %d = %d but consumers (== fitparam_id + 1) need %d: the local parameter belongs to '
                    'fit parameter #%s; layout %s' % (gf.LOCAL_NAMES[idx % gf.NN], idx // gf.NN, a, b,
                                                      b - 1 if b > 0 else 'none (fixed)', gf.layout_string(case)))
    return None


def o_values_mask(ctx, case):
    """TrialDataManager.get_values_mask_for_source_mask selects exactly the values of the masked sources"""
    K, E = case['K'], case['E']
    cfg = fx.make_cfg()
    sources = fx.make_sources(K)
    shg_mgr = fx.make_shg_mgr(cfg, sources)
    pmm = fx.make_pmm(sources)
    esm = fx.StubEventSelection(shg_mgr, np.array(case['mask'], dtype=bool).reshape((K, E))) if case.get('mask') else None
    tdm = fx.make_tdm(shg_mgr, pmm, E, evt_sel_method=esm)
    sm = np.array(case['src_mask'], dtype=bool)
    try:
        got = np.asarray(tdm.get_values_mask_for_source_mask(sm))
    except Exception as e:  # noqa
        return 'get_values_mask_for_source_mask(%r) raised %s: %s' % (case['src_mask'], type(e).__name__, e)
    want = sm[np.asarray(tdm.src_evt_idxs[0])]
    if got.shape != want.shape or not np.array_equal(got, want):
        return 'get_values_mask_for_source_mask(%r) = %r, expected %r' % (case['src_mask'], got.tolist(), want.tolist())
    return None


def _sob_objects(case):
    """real SigOverBkgPDFRatio on stub PDFs with prescribed densities and gradient dictionaries"""
    from skyllh.core.pdf import PDF, IsBackgroundPDF, IsSignalPDF
    from skyllh.core.pdfratio import SigOverBkgPDFRatio
    cfg = fx.make_cfg()
    E = len(case['s'])

    class SigPDF(PDF, IsSignalPDF):
        def assert_is_valid_for_trial_data(self, tdm, tl=None, **kwargs):
            pass

        def get_pd(self, tdm, params_recarray=None, tl=None):
            g = {0: np.array(case['ds'], dtype=np.float64)} if case['sigDep'] else {}
            return (np.array(case['s'], dtype=np.float64), g)

    class BkgPDF(PDF, IsBackgroundPDF):
        def assert_is_valid_for_trial_data(self, tdm, tl=None, **kwargs):
            pass

        def get_pd(self, tdm, params_recarray=None, tl=None):
            g = {0: np.array(case['db'], dtype=np.float64)} if case['bkgDep'] else {}
            return (np.array(case['b'], dtype=np.float64), g)
    sources = fx.make_sources(1)
    shg_mgr = fx.make_shg_mgr(cfg, sources)
    pmm = fx.make_pmm(sources)
    tdm = fx.make_tdm(shg_mgr, pmm, E)
    r = SigOverBkgPDFRatio(sig_pdf=SigPDF(pmm=None, param_set=None, cfg=cfg), bkg_pdf=BkgPDF(pmm=None, param_set=None, cfg=cfg),
                           cfg=cfg)
    return r, tdm


def impl_sob(case):
    r, tdm = _sob_objects(case)
    r.get_ratio(tdm=tdm, src_params_recarray=None)
    g = r.get_gradient(tdm=tdm, src_params_recarray=None, fitparam_id=0)
    return [float(x) for x in np.broadcast_to(np.asarray(g, dtype=np.float64), (len(case['s']),))]


def sob_lines(case, pert=0.0):
    out = []
    for i in range(len(case['s'])):
        out.append('sob %d %d %s %s %s %s' % (case['sigDep'], case['bkgDep'], f2b(case['s'][i] * (1 + pert)), f2b(case['b'][i]),
                                               f2b(case['ds'][i]), f2b(case['db'][i] * (1 - pert))))
    return out


def o_sob(ctx, case):
    """SigOverBkgPDFRatio.get_gradient = the quotient-rule derivative of s/b (exact fractions reference)"""
    from fractions import Fraction as Fr
    try:
        got = impl_sob(case)
    except Exception as e:  # noqa
        return 'SigOverBkgPDFRatio.get_gradient raised %s: %s' % (type(e).__name__, e)
    for i, gi in enumerate(got):
        s, b, ds, db = (Fr(case[k][i]) for k in ('s', 'b', 'ds', 'db'))
        if not case['sigDep']:
            ds = Fr(0)
        if not case['bkgDep']:
            db = Fr(0)
        want = (ds * b - s * db) / (b * b) if b > 0 else Fr(0)
        mag = (abs(ds * b) + abs(s * db)) / (b * b) if b > 0 else Fr(0)
        if abs(Fr(gi) - want) > Fr(1e-12) * mag + Fr(1, 10**300):
            return 'SigOverBkgPDFRatio.get_gradient value %d = %r, d(s/b)/dp = %r (s=%r b=%r ds=%r db=%r sigDep=%s bkgDep=%s)' % (
                i, gi, float(want), case['s'][i], case['b'][i], case['ds'][i], case['db'][i], case['sigDep'], case['bkgDep'])
    return None


def _pdfprod_impl(case):
    """real SignalPDFProduct (PDFProduct.get_pd) on two stub signal PDFs with prescribed densities and gradient dictionaries
    -> (pd list, gradient list for fit parameter 0 | None when the key is absent)"""
    from skyllh.core.pdf import PDF, IsSignalPDF, SignalPDFProduct
    cfg = fx.make_cfg()

    class P(PDF, IsSignalPDF):
        def __init__(self, pd, g, has):
            super().__init__(pmm=None, param_set=None, cfg=cfg)
            self._v = (np.array(pd, dtype=np.float64), {0: np.array(g, dtype=np.float64)} if has else {})

        def assert_is_valid_for_trial_data(self, tdm, tl=None, **kwargs):
            pass

        def get_pd(self, tdm, params_recarray=None, tl=None):
            return (self._v[0].copy(), {k: v.copy() for k, v in self._v[1].items()})
    prod = SignalPDFProduct(P(case['pd1'], case['g1'], case['has1']), P(case['pd2'], case['g2'], case['has2']), cfg=cfg)
    sources = fx.make_sources(1)
    tdm = fx.make_tdm(fx.make_shg_mgr(cfg, sources), fx.make_pmm(sources), len(case['pd1']))
    (pd, grads) = prod.get_pd(tdm=tdm, params_recarray=None)
    return [float(x) for x in pd], ([float(x) for x in grads[0]] if 0 in grads else None)


def pdfprod_lines(case, pert=0.0):
    return ['prod %d %d %s %s %s %s' % (case['has1'], case['has2'], f2b(case['pd1'][i] * (1 + pert)), f2b(case['pd2'][i] * (1 - pert)),
                                         f2b(case['g1'][i]), f2b(case['g2'][i])) for i in range(len(case['pd1']))]


def o_pdfprod(ctx, case):
    """PDFProduct.get_pd: the density is pd1*pd2 and the gradient entry of a fit parameter is the product-rule derivative
    (exact fractions), with the key absent iff neither factor has it"""
    from fractions import Fraction as Fr
    try:
        (pd, g) = _pdfprod_impl(case)
    except Exception as e:  # noqa
        return 'PDFProduct.get_pd raised %s: %s' % (type(e).__name__, e)
    if (g is None) != (not case['has1'] and not case['has2']):
        return 'PDFProduct.get_pd: gradient key %s although has1=%s has2=%s' % ('absent' if g is None else 'present', case['has1'], case['has2'])
    for i in range(len(pd)):
        p1, p2, g1, g2 = (Fr(case[k][i]) for k in ('pd1', 'pd2', 'g1', 'g2'))
        if abs(Fr(pd[i]) - p1 * p2) > Fr(1e-14) * abs(p1 * p2):
            return 'PDFProduct.get_pd value %d = %r, pd1*pd2 = %r' % (i, pd[i], float(p1 * p2))
        if g is not None:
            want = (g1 * p2 if case['has1'] else 0) + (p1 * g2 if case['has2'] else 0)
            mag = abs(g1 * p2) + abs(p1 * g2)
            if abs(Fr(g[i]) - want) > Fr(1e-12) * mag + Fr(1, 10**300):
                return ('PDFProduct.get_pd gradient value %d = %r, d(pd1*pd2)/dp = %r (pd1=%r pd2=%r grad1=%r grad2=%r has1=%s has2=%s)' % (
                    i, g[i], float(want), case['pd1'][i], case['pd2'][i], case['g1'][i], case['g2'][i], case['has1'], case['has2']))
    return None


def o_corr(ctx, case):
    """model vs implementation on one stacked case (used for replays)"""
    opa = _opa()
    lay = parse_layout_answer(ctx.driver('C02', [layout_line(case)])[0])
    if not lay['wf']:
        return None
    a = ctx.driver('C02', [stack_line(case, lay, opa), stack_line(case, lay, opa, pert=PERT)])
    return compare_stack(case, impl_stack(case), parse_stack_answer(a[0]), parse_stack_answer(a[1]))


def o_corr_layout(ctx, case):
    lay = parse_layout_answer(ctx.driver('C02', [layout_line(case)])[0])
    return compare_layout(case, impl_layout(case), lay)


def compare_layout(case, impl, lay):
    if impl == 'KeyError':
        return None if not lay['wf'] else 'map_param raised KeyError, model says the layout is well-formed'
    if not lay['wf']:
        return 'map_param accepted a layout the model calls ill-formed'
    g_ns = [g for g, p in enumerate(case['layout']) if p.get('ns')][0]
    if impl['nfl'] != lay['nfl'] or impl['fl'] != lay['fl']:
        return 'floating parameters: implementation %r, model %r' % (impl['fl'], lay['fl'])
    if impl['ns'] != lay['fl'].index(g_ns):
        return 'ns index: implementation %d, model %d' % (impl['ns'], lay['fl'].index(g_ns))
    if any(a != b and not (a < 0 and b < 0) for a, b in zip(impl['gp'], lay['gp'])):
        return '<name>:gpidx table (K x [gamma, ecut]): implementation %r, model %r%s' % (
            impl['gp'], lay['gp'], ' (= the rule of the pinned commit)' if impl['gp'] == lay['gpp'] else '')
    return None


ORACLES = {'pdfprod': o_pdfprod, 'history': o_history, 'argforms': o_argforms, 'argforms_i3': o_argforms_i3, 'argforms_grid': o_argforms_grid,
           'grad2_i3': o_grad2_i3, 'grad2_grid': o_grad2_grid, 'fd': o_fd, 'fd_grid': o_fd_grid, 'fd_i3': o_fd_i3, 'seq_i3': o_seq_i3, 'seq_grid': o_seq_grid, 'grad2': o_grad2, 'reuse': o_reuse, 'layout': o_layout, 'values_mask': o_values_mask, 'sob': o_sob,
           'corr': o_corr, 'corr_layout': o_corr_layout}
ORACLES.update(r7.ORACLES)


def _mode(res):
    m = re.search(r'raised (\w+)', res)
    if m:
        return 'raises-' + m.group(1)
    if 'not finite' in res:
        return 'non-finite-gradient'
    if 'entries' in res:
        return 'vector-length'
    return 'wrong-result'


# --------------------------------------------------------------------------------------------------

def _layout_batch(args):
    """(cases, answers of the `layout` requests, answers of the `lval` requests) -> (counters, problems); run in the
    parent (quick) or in a forked worker (exhaustive K = 3 enumeration of the thorough tier)"""
    (cases, answers, lvals) = args
    counts, problems = collections.Counter(), []
    for i, (c, a, lv) in enumerate(zip(cases, answers, lvals)):
        lay = parse_layout_answer(a)
        impl = impl_layout(c)
        if impl != 'KeyError' and lay['wf'] and impl['vals'] != ([] if lv == '-' else lv.split(',')):
            problems.append((i, 'values', 'value column of create_src_params_recarray %r, model localValue %r (layout %s)' % (
                impl['vals'], lv, gf.layout_string(c))))
        counts['layout:' + ('ill-formed' if not lay['wf'] else 'n_floating=%d' % lay['nfl'])] += 1
        if lay['wf']:
            fixed_before_floating = any(
                (not p.get('ns')) and p['fixed'] and any(q.get('ns') or not q['fixed'] for q in c['layout'][g + 1:])
                for g, p in enumerate(c['layout']))
            counts['layout:fixed-before-floating' if fixed_before_floating else 'layout:floating-first'] += 1
            if any((not p.get('ns')) and all(x < 0 for x in p['map']) for p in c['layout']):
                counts['layout:parameter-mapped-to-no-source'] += 1
            if any('declared_fixed' in p for p in c['layout']):
                counts['layout:parameter-fixed-or-floated-after-mapping'] += 1
            if not lay['ok']:
                problems.append((i, 'corr', 'model: gradient key out of range for a well-formed layout'))
        d = compare_layout(c, impl, lay)
        if d:
            problems.append((i, 'corr', d))
        r = _layout_reference(c, impl)
        if r:
            problems.append((i, 'oracle', r))
    return counts, problems


EXPECTED_BRANCHES = (
    ['branch:lamOfAlpha:' + b for b in ('stable', 'taylor')] +        # equality goes to the Taylor branch (`opa - 1 < a` false)
    ['branch:wRatio:' + b for b in ('A!=0', 'A=0')] +
    ['branch:wRatioGradCode:yDep=%d,rDep=%d' % yr for yr in ((0, 0), (1, 0), (1, 1))] +        # (0, 1) is unreachable: the yields know every local parameter the ratio factors know
    ['branch:productGrad:dep1=%d,dep2=%d' % dd for dd in ((0, 0), (0, 1), (1, 0), (1, 1))] +
    ['branch:assemble:ns-' + b for b in ('only', 'first', 'middle', 'last')] +
    ['branch:gpidxOf:' + b for b in ('floating', 'fixed', 'unmapped')] +
    ['branch:sobGrad:case%d,%s' % (n, b) for n in (1, 2, 3, 4) for b in ('b>0', 'b=0')] +
    ['branch:PDFProduct.get_pd:has1=%d,has2=%d' % hh for hh in ((0, 0), (0, 1), (1, 0), (1, 1))] +
    ['branch:step:' + b for b in ('newTrial', 'evaluate', 'evaluateFail', 'grad2-ok', 'grad2-noWeights', 'grad2-notEvaluated')] +
    ['branch:Multi.evaluate:J=%d' % j for j in (1, 2, 3)] + ['branch:groups=%d' % g for g in (1, 2)] + list(r7.R7_BRANCHES))


def _count_stack_branches(ctx, c, lay, opa):
    """which branches of the modelled functions this stacked case drives (computed from the case and the model's own
    gpidx table) — an un-hit branch of the model is an untied branch"""
    K = c['K']
    gp = [[lay['gp'][gf.NN * k + n] for n in (0, 1)] for k in range(K)]
    ns_i = lay['fl'].index([g for g, p in enumerate(c['layout']) if p.get('ns')][0])
    nfl = lay['nfl']
    ctx.count('branch:assemble:ns-' + ('only' if nfl == 1 else 'first' if ns_i == 0 else 'last' if ns_i == nfl - 1 else 'middle'))
    parA, parB = c['ds'][0].get('parA', True), c['ds'][0].get('parB', True)
    for p in range(nfl):
        if p == ns_i:
            continue
        d0, d1 = any(r[0] == p + 1 for r in gp), any(r[1] == p + 1 for r in gp)
        ctx.count('branch:wRatioGradCode:yDep=%d,rDep=%d' % (d0 or d1, (parA and d0) or (parB and d1)))
        ctx.count('branch:productGrad:dep1=%d,dep2=%d' % (parA and d0, parB and d1))
    for v in lay['gp']:
        ctx.count('branch:gpidxOf:' + ('floating' if v > 0 else 'fixed' if v < 0 else 'unmapped'))
    ns = c['theta'][gf.ns_fit_index(c)]
    loc = gf.local_values(c)
    W = np.array(c['W'], dtype=np.float64)
    for j, (x, d) in enumerate(zip(gf.alphas(c), c['ds'])):
        if len(x):
            A = float((W * gf.yield_tables(c, j, loc)[0]).sum())
            ctx.count('branch:wRatio:' + ('A=0' if A == 0.0 else 'A!=0'))
        a = ns * np.asarray(x)
        ctx.count('branch:lamOfAlpha:stable', int(np.sum(a > opa - 1.0)))
        ctx.count('branch:lamOfAlpha:taylor', int(np.sum(a < opa - 1.0)))
        ctx.count('branch:lamOfAlpha:exactly-at-junction', int(np.sum(a == opa - 1.0)))
    ctx.count('branch:Multi.evaluate:J=%d' % len(c['ds']))
    ctx.count('branch:groups=%d' % len(c['groups']))


_ENUM_CTX = None


def _layout_enum_task(first):
    """all K = 3 layouts with 3 other parameters whose first other parameter is option `first`"""
    opts = [(fixed, mp) for fixed in (False, True) for mp in _maps(3)]
    cases = []
    for rest in itertools.product(opts, repeat=2):
        combo = (opts[first],) + rest
        for pos in range(4):
            lay = [{'fixed': f, 'map': mp, 'value': 1.05 + 0.1 * i} for i, (f, mp) in enumerate(combo)]
            lay.insert(pos, {'ns': True})
            cases.append({'K': 3, 'layout': lay})
    ans = _ENUM_CTX.driver('C02', [layout_line(c) for c in cases])
    lvs = _ENUM_CTX.driver('C02', [lval_line(c) for c in cases])
    (counts, problems) = _layout_batch((cases, ans, lvs))
    pc = [cases[i] for (i, _k, _t) in problems]
    problems = [(n, k, t) for n, (_i, k, t) in enumerate(problems)]
    return [gf.layout_string(c) for c in cases], counts, problems, pc


def _layout_key(case):
    return (case['K'], gf.layout_string(case))


def run(ctx):
    """a failure of the machinery after a violation was found must not mask the violation (exit 1, not 2)"""
    try:
        _run_body(ctx)
    except Exception as e:  # noqa
        if not ctx.violations:
            raise
        ctx.note('machinery error AFTER a violation was found (the violation stands, the run is incomplete): %s: %s' % (
            type(e).__name__, str(e)[:300]))
        ctx.extra['incomplete_run'] = True


def _run_body(ctx):
    rng = ctx.rng
    opa = _opa(ctx)
    _sec = {'name': None, 't': time.time()}
    ctx.extra['section_s'] = {}

    def _tick(name):
        now = time.time()
        if _sec['name']:
            ctx.extra['section_s'][_sec['name']] = round(now - _sec['t'], 1)
        _sec['name'], _sec['t'] = name, now
    ctx.rule = ('layouts: ns + up to 3 other global parameters (4 in total) x {fixed, floating} x every declaration order '
                '(ns anywhere) x every source mapping (per source: unmapped / gamma / ecut, i.e. shared, subset, per-source '
                'alias), 1..3 sources: '
                'enumerated (quick: all with <= 2 other parameters for K <= 2 + a sample; thorough: all) for the '
                'bookkeeping; stacked cases: sampled layouts x 1..3 datasets x 1..3 sources in 1..2 groups x random events, '
                'event-selection masks, zero ratios, zero detector signal yields (single entries, a whole dataset row without '
                'selected events, a whole source column; with zero or non-zero yield gradient there), parameter points incl. grid points and bounds, stable / Taylor regime, '
                'negative ns; a case is non-trivial when distinct by its full content')
    ctx.trusted_base += ['correspondence harness harness/props/c02.py + harness/grad_fixtures.py (tolerance stated in the docstring)',
                         'stub leaves (StubPDFRatio, StubDetSigYield of harness/llh_fixtures.py) stand for the spline-based PDF ratios '
                         'and yields; they apply the same `gpidx == fitparam_id + 1` rule as the real consumers',
                         'IEEE rounding is outside the theorems (statements over the reals)',
                         'C01 model Model/LLH.lean for the value']
    ctx.assumptions += ['ns is a floating global parameter mapped to the detector model (nsIdx < n_fitparams)',
                        'guards of the value (hypotheses of c02_stacked_entry_is_derivative): N_j > 0, ns*f_j < N_j, total yield '
                        'weight a != 0, A_j != 0 for datasets with selected events (the edge A_j = 0 with a yield gradient is the '
                        'open finding / c02_zero_yield_row_counterexample)',
                        'shapes: every dataset row and every event row has K entries, the gpidx table has the two columns the leaves '
                        'know (FDS.Honest, hshape) - established by the harness when it builds the model input',
                        'the local partial derivatives handed to the model (dY, dA, dB) are the true partial derivatives of the '
                        'leaf functions w.r.t. the local source parameters (analytic stubs); that the consumers rule then yields the '
                        'derivative w.r.t. the fit parameter is proved for every layout (c02_layout_honest_yield / _leaf)',
                        'histories (c02_history_grad2): operations of matching shapes (WT: J datasets throughout), J > 0']

    _tick('layouts')
    # ---------------- layouts: bookkeeping, exact --------------------------------------------------
    lay_cases = []
    if ctx.thorough:
        for K in (1, 2, 3):
            for m in (0, 1, 2, 3):
                if K == 3 and m == 3:
                    continue
                for lay in enumerate_layouts(K, m):
                    lay_cases.append({'K': K, 'layout': lay})
        ctx.extra['layouts_enumerated'] = 'pending'
    else:
        for K in (1, 2):
            for m in (0, 1, 2):
                for lay in enumerate_layouts(K, m):
                    lay_cases.append({'K': K, 'layout': lay})
        for _ in range(150):
            K = rng.choice([2, 3, 3])
            lay_cases.append({'K': K, 'layout': gen_layout(rng, K, m=3, well_formed=rng.random() < 0.8)})
        ctx.extra['layouts_enumerated'] = 'all for K<=2 with <=2 other parameters; 150 sampled with 3 other parameters'
    bad_layout = []

    def absorb(cases, counts, problems):
        for k, v in counts.items():
            ctx.count(k, v)
        for (i, kind, text) in problems:
            c = cases[i]
            if kind == 'values':
                ctx.violation('corr_layout', c, text, kind='correspondence', relation='exact (values passed through)',
                              signature='C02/corr/local-values', no_failing_input=True)
            elif kind == 'oracle':
                ctx.violation('layout', c, text, signature='C02/create_src_params_recarray/' + (
                    'gpidx-not-floating-index' if 'gpidx of source' in text else _mode(text)))
            else:
                bad_layout.append((c, text))

    answers = ctx.driver('C02', [layout_line(c) for c in lay_cases])
    lvals = ctx.driver('C02', [lval_line(c) for c in lay_cases])
    for c in lay_cases:
        ctx.case(key=('layout',) + _layout_key(c), desc={'layout': gf.layout_string(c), 'K': c['K']} if ctx.evaluations % 1499 == 0 else None)
    (counts, problems) = _layout_batch((lay_cases, answers, lvals))
    absorb(lay_cases, counts, problems)
    if ctx.thorough:
        # the complete enumeration for K = 3 sources with 3 other parameters, in forked workers (each generates its
        # share of the layouts, runs its own model driver and the real ParameterModelMapper)
        import multiprocessing
        global _ENUM_CTX
        _ENUM_CTX = ctx
        t_enum = time.time()
        n_enum = 0
        n_opts = 2 * len(_maps(3))
        with multiprocessing.get_context('fork').Pool(min(16, os.cpu_count() or 1)) as pool:
            for (keys, counts, problems, cases_of_problems) in pool.imap(_layout_enum_task, range(n_opts)):
                absorb(cases_of_problems, counts, problems)
                for k in keys:
                    ctx.case(key=k)
                n_enum += len(keys)
        ctx.count('model_lines', 2 * n_enum)
        ctx.extra['layouts_enumerated'] = ('ALL layouts with ns + up to 3 other global parameters for 1..3 sources (two local names + '
                                           'unmapped): %d for K = 3 with 3 other parameters enumerated in %.0f s' % (n_enum, time.time() - t_enum))
        ctx.extra['layout_space_exhausted'] = True
    for c, d in sorted(bad_layout, key=lambda x: len(x[0]['layout']))[:3]:
        r = o_layout(ctx, c)
        if not r:
            ctx.violation('corr_layout', c, 'layout model and ParameterModelMapper disagree (%s) but the reference oracle passes' % d,
                          kind='correspondence', relation='exact (integers)', signature='C02/corr/layout', no_failing_input=True)
    ctx.extra['layout_disagreements'] = len(bad_layout)

    _tick('values_mask')
    # ---------------- values mask ---------------------------------------------------------------------
    for _ in range(ctx.n(12, 200)):
        K = rng.choice([1, 2, 3])
        E = rng.choice([1, 3, 6])
        mask = [[1 if rng.random() < 0.6 else 0 for _e in range(E)] for _k in range(K)] if rng.random() < 0.6 else None
        if mask is not None and not any(any(r) for r in mask):
            mask[0][0] = 1
        c = {'K': K, 'E': E, 'mask': mask, 'src_mask': [rng.random() < 0.5 for _k in range(K)]}
        ctx.case(key=('vm', c))
        ctx.count('oracle:values_mask')
        r = o_values_mask(ctx, c)
        if r:
            ctx.violation('values_mask', c, r, signature='C02/get_values_mask_for_source_mask/' + _mode(r))

    _tick('sob')
    # ---------------- SigOverBkgPDFRatio.get_gradient, per value -----------------------------------------
    sob_cases = []
    for _ in range(ctx.n(24, 600)):
        E = rng.choice([1, 2, 5])
        c = {'sigDep': int(rng.random() < 0.6), 'bkgDep': int(rng.random() < 0.5),
             's': [_logu(rng, 1e-3, 1e3) for _e in range(E)],
             'b': [0.0 if rng.random() < 0.15 else _logu(rng, 1e-3, 1e3) for _e in range(E)],
             'ds': [rng.uniform(-5, 5) for _e in range(E)], 'db': [rng.uniform(-5, 5) for _e in range(E)]}
        sob_cases.append(c)
    for sd in (0, 1):            # every branch of sobGrad at least once, whatever the seed
        for bd in (0, 1):
            sob_cases.append({'sigDep': sd, 'bkgDep': bd, 's': [2.5, 0.7], 'b': [0.0, 1.3], 'ds': [0.4, -1.1], 'db': [0.9, 0.3]})
    lines, lines2 = [], []
    for c in sob_cases:
        lines += sob_lines(c)
        lines2 += sob_lines(c, pert=PERT)
    ans = ctx.driver('C02', lines + lines2)
    pos = 0
    for c in sob_cases:
        E = len(c['s'])
        m1 = [b2f(x) for x in ans[pos:pos + E]]
        m2 = [b2f(x) for x in ans[len(lines) + pos:len(lines) + pos + E]]
        pos += E
        ctx.case(key=('sob', c))
        ctx.count('sob:case%d' % (1 + c['sigDep'] + 2 * c['bkgDep'] if (c['sigDep'], c['bkgDep']) != (1, 1) else 4))
        for b_ in c['b']:
            ctx.count('branch:sobGrad:case%d,%s' % ((1 + c['sigDep'] + 2 * c['bkgDep'] if (c['sigDep'], c['bkgDep']) != (1, 1) else 4), 'b>0' if b_ > 0 else 'b=0'))
        r = o_sob(ctx, c)
        if r:
            ctx.violation('sob', c, r, signature='C02/SigOverBkgPDFRatio.get_gradient/' + _mode(r))
            continue
        try:
            got = impl_sob(c)
        except Exception as e:  # noqa
            got = None
        if got is None or any(not _close(a, b, b2) for a, b, b2 in zip(got, m1, m2)):
            ctx.violation('corr', c, 'sobGrad model and SigOverBkgPDFRatio.get_gradient disagree (%r vs %r), exact-fraction oracle passes' % (got, m1),
                          kind='correspondence', relation='1e-9 relative + sensitivity', signature='C02/corr/sob', no_failing_input=True)

    # ---------------- PDFProduct.get_pd (signal / background PDF products), per value -------------------------------
    pp_cases = []
    for h1 in (0, 1):                       # every branch at least once, whatever the seed
        for h2 in (0, 1):
            pp_cases.append({'has1': h1, 'has2': h2, 'pd1': [2.5, 0.7], 'pd2': [0.3, 1.3], 'g1': [0.4, -1.1], 'g2': [0.9, 0.3]})
    for _ in range(ctx.n(16, 400)):
        E = rng.choice([1, 2, 5])
        pp_cases.append({'has1': int(rng.random() < 0.6), 'has2': int(rng.random() < 0.6),
                         'pd1': [_logu(rng, 1e-3, 1e3) for _e in range(E)], 'pd2': [_logu(rng, 1e-3, 1e3) for _e in range(E)],
                         'g1': [rng.uniform(-5, 5) for _e in range(E)], 'g2': [rng.uniform(-5, 5) for _e in range(E)]})
    l1, l2 = [], []
    for c in pp_cases:
        l1 += pdfprod_lines(c)
        l2 += pdfprod_lines(c, pert=PERT)
    pans = ctx.driver('C02', l1 + l2)
    pos = 0
    for c in pp_cases:
        E = len(c['pd1'])
        m1 = [b2f(x) for x in pans[pos:pos + E]]
        m2 = [b2f(x) for x in pans[len(l1) + pos:len(l1) + pos + E]]
        pos += E
        ctx.case(key=('pdfprod', c))
        ctx.count('branch:PDFProduct.get_pd:has1=%d,has2=%d' % (c['has1'], c['has2']))
        r = o_pdfprod(ctx, c)
        if r:
            ctx.violation('pdfprod', c, r, signature='C02/PDFProduct.get_pd/' + _mode(r))
            continue
        (_pd, g) = _pdfprod_impl(c)
        got = g if g is not None else [0.0] * E
        if any(not _close(a, b, b2) for a, b, b2 in zip(got, m1, m2)):
            ctx.violation('corr', c, 'productGrad model and PDFProduct.get_pd disagree (%r vs %r), exact-fraction oracle passes' % (got, m1),
                          kind='correspondence', relation='1e-9 relative + sensitivity', signature='C02/corr/pdfprod', no_failing_input=True)

    _tick('grid')
    # ---------------- a real gpidx consumer: SignalMultiDimGridPDFSet, both interpolation methods ------------
    for _ in range(ctx.n(40, 800)):
        c = gen_grid_case(rng)
        ctx.case(key=('grid', c), desc={'grid': gf.layout_string(c), 'interp': c['interp'], 'theta': c['theta']} if ctx.evaluations % 211 == 0 else None)
        ctx.count('grid:' + c['interp'])
        ctx.count('grid:signal-pdf-product=' + str(c.get('sig_product')))
        if c['theta'][gf.ns_fit_index(c)] == 0.0:
            ctx.count('grid:ns=0')
        ctx.count('grid:J=%d' % c.get('J', 1))
        ctx.count('grid:groups=%d' % len(c.get('groups') or [1]))
        if c.get('sel'):
            ctx.count('grid:event-selection')
        if c.get('coincide'):
            ctx.count('grid:per-source-gamma-all-values-coincide')
        if c.get('edge_grid') and any(t in (gf.VMIN, gf.VMAX) for i, t in enumerate(c['theta']) if i != gf.ns_fit_index(c)):
            ctx.count('grid:parameter-at-outermost-legal-grid-point')
        if sum(1 for p in c['layout'] if (not p.get('ns')) and 0 in p['map']) > 1 or any(
                (not p.get('ns')) and 0 in p['map'] and -1 in p['map'] for p in c['layout']):
            ctx.count('grid:per-source-gamma')
        r = o_fd_grid(ctx, c)
        if r:
            ctx.violation('fd_grid', c, r, signature='C02/SignalMultiDimGridPDFSet.get_pd/' + (
                _mode(r) if _mode(r) != 'wrong-result' else 'wrong-derivative'))
        for name, site in (('argforms_grid', 'grid-chain.evaluate-argument-forms'), ('grad2_grid', 'grid-chain.calculate_ns_grad2')):
            if name.startswith('argforms') and ctx.evaluations % 3:
                continue
            r = ORACLES[name](ctx, c)
            ctx.count('oracle:' + name)
            if r:
                ctx.violation(name, c, r, signature='C02/%s/%s' % (site, _mode(r)))
        r = o_seq_grid(ctx, c)
        ctx.count('oracle:seq_grid')
        if r:
            ctx.violation('seq_grid', c, r, signature='C02/SignalMultiDimGridPDFSet.evaluate-sequence/' + (
                _mode(r) if _mode(r) != 'wrong-result' else 'history-dependent'))

    _tick('i3')
    # ---------------- the IceCube consumers: I3 detector signal yield + splined I3 energy PDF ratio ----------
    for n_i3 in range(ctx.n(36, 600)):
        c = gen_i3_case(rng)
        if n_i3 % 2 == 0:
            c['interp'] = 'linear' if n_i3 % 4 == 0 else 'parabola'
        ctx.case(key=('i3', c), desc={'i3': gf.layout_string(c), 'interp': c['interp'], 'theta': c['theta'], 'J': c['J']} if n_i3 % 13 == 0 else None)
        ctx.count('i3:' + c['interp'])
        if c['theta'][gf.ns_fit_index(c)] == 0.0:
            ctx.count('i3:ns=0')
        if c.get('coincide'):
            ctx.count('i3:per-source-gamma-all-values-coincide')
        if c.get('no_energy'):
            ctx.count('i3:parameter-free-ratio-with-gamma-dependent-yields')
        if any(t in (gf.VMIN, gf.VMAX) for i, t in enumerate(c['theta']) if i != gf.ns_fit_index(c)):
            ctx.count('i3:parameter-at-outermost-legal-grid-point')
        ctx.count('i3:J=%d' % c['J'])
        g_ns = [g for g, p in enumerate(c['layout']) if p.get('ns')][0]
        if any((not p.get('ns')) and (not p['fixed']) and 0 in p['map'] for p in c['layout'][:g_ns]):
            ctx.count('i3:floating-gamma-declared-before-ns')
        for name, site in (('fd_i3', 'i3-consumers.evaluate'), ('seq_i3', 'i3-consumers.evaluate-sequence'),
                           ('grad2_i3', 'i3-consumers.calculate_ns_grad2'), ('argforms_i3', 'i3-consumers.evaluate-argument-forms')):
            if name.startswith('argforms') and n_i3 % 3:
                continue
            r = ORACLES[name](ctx, c)
            ctx.count('oracle:' + name)
            if r:
                m = _mode(r)
                ctx.violation(name, c, r, signature='C02/%s/%s' % (site, m if m != 'wrong-result' else (
                    'wrong-derivative' if name == 'fd_i3' else 'history-dependent')))

    _tick('histories')
    # ---------------- histories on one object: the state behind calculate_ns_grad2 (Model/GradState.lean) -------
    hists = []
    for _ in range(ctx.n(24, 300)):
        c = gen_case(rng, regime=rng.choice(['stable', 'stable', 'junction']))
        hists.append(gen_history(rng, c))
    lines, spans = [], []
    for hh in hists:
        ls = _history_lines(hh, opa)
        spans.append((len(lines), len(lines) + len(ls)))
        lines += ls
    hans = ctx.driver('C02', lines)
    for hh, (lo, hi) in zip(hists, spans):
        ctx.case(key=('history', hh['ops'], hh['case']['theta'], gf.layout_string(hh['case'])),
                 desc={'history': hh['ops']} if ctx.evaluations % 97 == 0 else None)
        try:
            impl = _history_impl(hh)
        except AssertionError as e:
            from harness.core import MachineryError
            raise MachineryError('history fixture: %s' % e)
        for op in hh['ops']:
            ctx.count('history:op=' + op[0] + (':' + str(op[1]) if op[0] == 'grad2' else ''))
            if op[0] != 'grad2':
                ctx.count('branch:step:' + {'new': 'newTrial', 'eval': 'evaluate', 'fail': 'evaluateFail'}[op[0]])
        if impl and impl[-1] == 'UNSURFACED':
            ctx.count('history:injected-failure-did-not-surface')
        for v, a in zip([x for x in impl if x != 'UNSURFACED'], [x for x, l in zip(hans[lo:hi], _history_lines(hh, opa)) if l.startswith('hgrad2')]):
            ctx.count('history:grad2-' + ('raises' if v == 'ERR' else 'returns') + ('/' + a[4:] if a.startswith('ERR') else ''))
            ctx.count('branch:step:grad2-' + (a[4:] if a.startswith('ERR') else 'ok'))
        r = _history_compare(hh, impl, hans[lo:hi])
        if r:
            ctx.violation('history', hh, r, kind='history', signature='C02/calculate_ns_grad2/history-' + (
                'raise-mismatch' if 'raised' in r else 'stale-or-wrong-value'))

    _tick('stack')
    # ---------------- stacked cases --------------------------------------------------------------------
    cases = []
    n_cases = ctx.n(200, 3000)
    # the design's witness first: a fixed parameter declared before a floating one / per-source aliases
    cases.append(gen_case(rng, K=2, J=2, layout=[{'ns': True}, {'fixed': True, 'map': [1, 1], 'value': 1.25},
                                                 {'fixed': False, 'map': [0, 0], 'value': 2.0}], regime='stable'))
    cases.append(gen_case(rng, K=2, J=1, layout=[{'fixed': False, 'map': [0, -1], 'value': 2.0}, {'ns': True},
                                                 {'fixed': False, 'map': [1, 0], 'value': 1.5}], regime='stable'))
    while len(cases) < n_cases:
        cases.append(gen_case(rng))
    lay_ans = ctx.driver('C02', [layout_line(c) for c in cases])
    lays = [parse_layout_answer(a) for a in lay_ans]
    req = []
    for c, lay in zip(cases, lays):
        req.append(stack_line(c, lay, opa))
        req.append(stack_line(c, lay, opa, pert=PERT))
    ans = ctx.driver('C02', req)
    suspicious = []
    for idx, (c, lay) in enumerate(zip(cases, lays)):
        m1, m2 = parse_stack_answer(ans[2 * idx]), parse_stack_answer(ans[2 * idx + 1])
        impl = impl_stack(c)
        ctx.case(key=('stack', c), desc={'layout': gf.layout_string(c), 'K': c['K'], 'J': len(c['ds']), 'groups': c['groups'],
                                         'theta': c['theta'], 'regime': c['regime']} if idx % 17 == 0 else None)
        _count_stack_branches(ctx, c, lay, opa)
        ctx.count('stack:K=%d' % c['K'])
        if any(d['E'] == 0 for d in c['ds']):
            ctx.count('stack:dataset-with-zero-events')
        ctx.count('stack:J=%d' % len(c['ds']))
        ctx.count('stack:groups=%d' % len(c['groups']))
        ctx.count('stack:n_floating=%d' % lay['nfl'])
        ctx.count('stack:regime=' + c['regime'])
        if c['theta'][gf.ns_fit_index(c)] == 0.0:
            ctx.count('stack:ns=0')
        ctx.count('stack:all-stable' if gf.all_stable(c, opa) else 'stack:some-taylor')
        ctx.count('stack:parameter-free-ratio-factors=' + ('A' if not c['ds'][0].get('parA', True) else '') + ('B' if not c['ds'][0].get('parB', True) else '') or 'stack:parameter-free-ratio-factors=none')
        ctx.count('stack:zero-yields=' + c.get('zero_yields', 'none'))
        if _zero_row_with_gradient(c):
            ctx.count('stack:zero-yield-dataset-with-selected-events-and-yield-gradient')
        if 'junction_delta' in c:
            ctx.count('stack:junction-delta=' + ('0' if c['junction_delta'] == 0 else ('%+.0e' % c['junction_delta'])[:2] + ('tiny' if abs(c['junction_delta']) < 1e-5 else 'small')))
        if any(any(d.get('lg') or []) or any(d.get('lx') or []) for d in c['ds']):
            ctx.count('stack:linear-yield-term')
        if any(y == 0.0 and ((d.get('lg') or [0.0] * c['K'])[k] != 0.0 or (d.get('lx') or [0.0] * c['K'])[k] != 0.0)
               for d in c['ds'] for k, y in enumerate(d['y0'])):
            ctx.count('stack:zero-yield-with-nonzero-gradient')
        if any((not p.get('ns')) and len(set(p['map'])) > 1 for p in c['layout']):
            ctx.count('stack:per-source-alias')
        if any((not p.get('ns')) and 0 in p['map'] and 1 in p['map'] for p in c['layout']):
            ctx.count('stack:one-parameter-two-local-names')
        if any((not p.get('ns')) and 2 in p['map'] for p in c['layout']):
            ctx.count('stack:third-local-name')
        if any('declared_fixed' in p for p in c['layout']):
            ctx.count('stack:parameter-fixed-or-floated-after-mapping')
        if any((not p.get('ns')) and (not p['fixed']) and all(x < 0 for x in p['map']) for p in c['layout']):
            ctx.count('stack:floating-parameter-mapped-to-no-source')
        d = compare_stack(c, impl, m1, m2)
        if d:
            suspicious.append((c, impl, m1, d))
        for name in ('fd', 'grad2', 'reuse', 'argforms'):
            if name == 'argforms' and idx % 4:
                continue
            r = ORACLES[name](ctx, c)
            ctx.count('oracle:' + name)
            if r:
                ctx.violation(name, c, r, impl_output=impl, model_output=m1, signature=_signature(name, c, r))
    seen = 0
    for c, impl, m1, d in sorted(suspicious, key=lambda x: (len(x[0]['layout']), len(x[0]['ds']), x[0]['K'])):
        hit = False
        for name in ('fd', 'grad2', 'layout'):
            r = ORACLES[name](ctx, c)
            if r:
                hit = True
                ctx.violation(name, c, r, impl_output=impl, model_output=m1, signature=_signature(name, c, r))
        if not hit and seen < 3:
            seen += 1
            ctx.violation('corr', c, 'model and implementation disagree (%s) but no property oracle fails on this input' % d,
                          kind='correspondence', relation='|impl-model| <= 1e-9 rel + 1e3 x sensitivity(1e-12)',
                          impl_output=impl, model_output=m1, signature='C02/corr/stack', no_failing_input=True)
    _tick('r7')
    # ---------------- round 7: the consumers' bookkeeping, code-shaped (Model/GradMapR7.lean) -----------
    r7.run_section(ctx, gen_layout, gen_i3_case)
    _tick('end')
    ctx.extra['stack_disagreements'] = len(suspicious)
    ctx.extra['zero_hit_branches'] = [b for b in EXPECTED_BRANCHES if not ctx.counters.get(b)]
    ctx.extra['branches_tracked'] = len(EXPECTED_BRANCHES)
    ctx.extra['one_plus_alpha'] = opa


def _zero_row_with_gradient(case):
    """a dataset without any signal yield (a_j = 0) that has selected events and a non-zero yield *gradient* w.r.t. a
    floating parameter — the edge of the legal yield domain (a_jk >= 0)"""
    for j, d in enumerate(case['ds']):
        if any(d['y0']) or not gf.mask_of(case, j).any():
            continue
        lg, lx = gf.lin_terms(case, j)
        for p in case['layout']:
            if p.get('ns') or p['fixed']:
                continue
            for k, nm in enumerate(p['map']):
                if (nm == 0 and lg[k] != 0.0) or (nm == 1 and lx[k] != 0.0):
                    return True
    return False


def _signature(name, case, res):
    mode = _mode(res)
    if name == 'fd':
        site = 'MultiDatasetTCLLHRatio.evaluate'
        if mode == 'wrong-result':
            mode = 'wrong-derivative-' + ('ns' if '(ns,' in res else 'p')
            if mode.endswith('-p') and _zero_row_with_gradient(case):
                mode = 'zero-yield-dataset-with-yield-gradient'
    elif name == 'grad2':
        site = 'calculate_ns_grad2'
    elif name == 'argforms':
        site = 'evaluate-argument-forms'
    elif name == 'reuse':
        site = 'evaluate-after-evaluate'
        if mode == 'wrong-result':
            mode = 'stale-' + res.split(' ')[0].split('[')[0]
    elif name == 'layout':
        site = 'create_src_params_recarray'
        if 'gpidx of source' in res:
            mode = 'gpidx-not-floating-index'
    else:
        site = name
    return 'C02/%s/%s' % (site, mode)


MANIFEST = dict(
    text=('Lean theorems over the reals (HasDerivAt). Joint headline theorem about Grad.stacked, the function the driver runs: for '
          'every fit parameter p != ns the entry p of the returned vector exists and is the derivative of the returned value, through '
          'yields, dataset weights, source weights, product rule, early exit and the position bookkeeping (c02_stacked_entry_is_derivative), '
          'the ns entry likewise (c02_stacked_ns_entry_is_derivative), vector length = n_fitparams (c02_stacked_shape); its leaf hypotheses '
          'are discharged for EVERY parameter layout by c02_layout_honest_yield / _leaf on top of c02_layout (the <name>:gpidx rule selects '
          'exactly the p-th floating parameter in declaration order, no key out of range, c02_stacked_no_index_error) and '
          'c02_layout_value_moves (value column). Per-event core incl. the stable/Taylor junction, second ns-derivative in the stable '
          'regime and, over every history of new trials / evaluations / failing evaluations on one object, which evaluation '
          'calculate_ns_grad2 uses or that it raises (c02_history_grad2, state machine Model/GradState.lean). The executable models are '
          'compared with the real ParameterModelMapper (exact; all layouts with <= 4 global parameters for 1..3 sources in the thorough '
          'tier), the real MultiDatasetTCLLHRatio gradient / calculate_ns_grad2 (tolerance) and its call histories on every run; '
          'finite-difference, call-history, argument-form and fresh-vs-used oracles search the implementation incl. the real grid / i3 '
          'consumers for failing inputs. Round 7: the consumers themselves are code-shaped in the model (Model/GradMapR7.lean: the loop '
          'over the local interpolation parameters of SignalMultiDimGridPDFSet.get_pd / SplinedI3EnergySigSetOverBkgPDFRatio.get_gradient '
          'with skip, early exit and masked overwrite, TrialDataManager.get_values_mask_for_source_mask, the gradient dictionary of '
          'SingleParamFluxPointLikeSourceI3DetSigYield.__call__), compared exactly with the real callables on every run, and proved to '
          'return, for every well-formed layout and every value, the sum rule Grad.locToFit the analytic theorems are about '
          '(c02_consumer_loop_for_every_layout, c02_values_mask_code_eq_spec, c02_yield_grad_row, c02_yield_keys_for_every_layout); the '
          'offsets / comparison operators of that rule are regenerated from the current source (c02_consumer_rule_for_current_source).'),
    note=('In the model/implementation comparison the spline-based leaves are represented by analytic stubs applying the same gpidx '
          'rule; the real consumers (SignalMultiDimGridPDFSet, SplinedI3EnergySigSetOverBkgPDFRatio, '
          'SingleParamFluxPointLikeSourceI3DetSigYield; Linear and Parabola interpolation) are executed under the finite-difference, '
          'call-history and argument-form oracles and, since round 7, their gpidx bookkeeping is modelled and compared exactly (the spline / '
          'interpolation values are handed to the model as leaf inputs); their interpolation gradients themselves are C15. Open finding: zero-yield '
          'dataset with selected events and a non-zero yield gradient (c02_zero_yield_row_counterexample). The pinned gpidx rule '
          '(global index) is kept in the model with a proved counterexample; main carries the fix.'),
    design='DESIGN.md section 4 C02',
    technique='Lean 4 proof (real analysis with Mathlib HasDerivAt, list combinatorics, state-machine refinement) + '
              'model/implementation correspondence (values, layouts, histories) + finite-difference / history / argument-form oracles')
