"""C08 — same seed, same result: random streams are reproducible and kept apart; weighted choice;
unused-seed search.

Correspondence (exact): real `RandomChoice` (stub random state with prescribed uniforms), real
`extend_trial_data_file` (stub analysis recording the seed), real `Analysis.do_trial/do_trials` +
`parallelize` + `Minimizer.minimize` + `ParameterSet.generate_random_floating_param_initials` on a synthetic
analysis (real processes for ncpu > 1) vs. Model/Rng.lean through Driver/C08.lean; numpy's MT19937
streams are handed to the model as tables of 32-bit words, so rows are compared bit by bit.
Property oracles (implementation only): support/size/inverse-CDF of the choice in exact fractions,
fresh seed, two-run reproducibility after unrelated prior use, non-interference of minimiser draws,
fresh minimiser stream, worker seeds, live-time draws, fresh-vs-used histories on one Livetime/TimeGenerator,
one RandomChoice, one RandomStateService.
"""
import ast
import itertools
import os
import signal
from fractions import Fraction

import numpy as np

from harness.core import MachineryError, REPO, b2f, f2b, flist, ilist, parse_flist

MODEL_MODULES = ['SkyllhModel.Model.Rng', 'SkyllhModel.Model.RngDeep', 'SkyllhModel.Model.RngR7']

# which Python callables have an executable Lean counterpart that the theorems are about AND run(ctx) compares with them
MODEL_MAP = {
    'skyllh/core/random.py::RandomStateService.__init__': ['RngR7.mk', 'RngR7.intCast', 'RngR7.npSeed'],
    'skyllh/core/random.py::RandomStateService.reseed': ['RngR7.reseed', 'RngR7.runOps'],
    'skyllh/core/random.py::RandomStateService.random': ['RngR7.setRandom', 'RngR7.runOpsX'],
    'skyllh/core/random.py::RandomChoice.__init__': ['Rng.construct', 'Rng.cdf'],
    'skyllh/core/random.py::RandomChoice._assert_items': ['Rng.validateItems'],
    'skyllh/core/random.py::RandomChoice._assert_probabilities': ['Rng.validateProbs'],
    'skyllh/core/random.py::RandomChoice.__call__': ['Rng.chooseCoded', 'Rng.idxsCoded', 'Rng.chooseSpec', 'Rng.search', 'Rng.scatter'],
    'skyllh/core/analysis.py::Analysis.generate_signal_events': ['RngR7.generateSignalEvents', 'RngR7.injectAll', 'Rng.sigMean'],
    'skyllh/core/analysis.py::Analysis.generate_pseudo_data': ['RngR7.generatePseudoData'],
    'skyllh/core/analysis.py::Analysis.do_trial': ['Rng.doTrial', 'Rng.doTrialE'],
    'skyllh/core/analysis.py::Analysis.do_trials': ['Rng.doTrials', 'Rng.doTrialsPost', 'Rng.parTrials'],
    'skyllh/core/multiproc.py::parallelize': ['Rng.parTrials', 'Rng.workerSeeds', 'Rng.chunkSizes'],
    'skyllh/core/multiproc.py::get_ncpu': ['Rng.getNcpu'],
    'skyllh/core/minimizer.py::Minimizer.minimize': ['Rng.minimizeM', 'Rng.restartLoop', 'Rng.clipTo'],
    'skyllh/core/parameters.py::ParameterSet.generate_random_floating_param_initials': ['Rng.randInitials'],
    'skyllh/core/utils/analysis.py::extend_trial_data_file': ['Rng.extendFile', 'Rng.extendSeed', 'Rng.nextSeed', 'Rng.extendLabels'],
    'skyllh/core/utils/analysis.py::create_trial_data_file': ['Rng.createFile', 'Rng.createLoop', 'Rng.gridOf', 'Rng.effGrid'],
    'skyllh/core/livetime.py::Livetime.draw_ontimes': ['Rng.ltCfg'],
    'skyllh/core/times.py::TimeGenerator.generate_times': ['Rng.ltCfg', 'Rng.trun'],
}

# recorded values of the constants read from the source (used when extraction fails)
_RECORDED = dict(sideRight=True, seedStart=1, seedSearchRepaired=True, workerSeedLow=0,
                 workerSeedHigh=2 ** 32, minimizerSeedFromRss=True, minimizerRssForwarded=True,
                 probSumTestRejectsNaN=True, sigKwargsOverwritesMean=True,
                 reseedAssignsAfterSeeding=True)
_GEN = {}


def _gen():
    """constants of the current source (extracted once per process; generated() fills it first)"""
    if not _GEN:
        _GEN.update(_extract()[0])
    return _GEN


# ------------------------------------------------------------------------------------------
# translator part: constants read from the current source

def _parse(rel):
    with open(os.path.join(REPO, rel)) as f:
        return ast.parse(f.read(), rel)


def _find(tree, kind, name):
    for node in ast.walk(tree):
        if isinstance(node, kind) and node.name == name:
            return node
    raise LookupError(name)


def _lit(node):
    try:
        return ast.literal_eval(node)
    except Exception:  # noqa
        if isinstance(node, ast.BinOp) and isinstance(node.op, ast.Pow):
            return _lit(node.left) ** _lit(node.right)
        raise


def _extract():
    vals, failed = dict(_RECORDED), []
    # RandomChoice.__call__: np.searchsorted(..., side='right')
    try:
        f = _find(_find(_parse('skyllh/core/random.py'), ast.ClassDef, 'RandomChoice'), ast.FunctionDef, '__call__')
        calls = [n for n in ast.walk(f) if isinstance(n, ast.Call) and isinstance(n.func, ast.Attribute)
                 and n.func.attr == 'searchsorted']
        if len(calls) != 1:
            raise LookupError('searchsorted')
        sides = [_lit(k.value) for k in calls[0].keywords if k.arg == 'side']
        if not sides and len(calls[0].args) >= 3:
            sides = [_lit(calls[0].args[2])]
        if sides and sides[0] not in ('left', 'right'):
            raise LookupError('side')
        vals['sideRight'] = (sides[0] == 'right') if sides else False   # numpy's default is 'left'
    except Exception:  # noqa
        failed.append('sideRight')
    # extend_trial_data_file: next(i for i in itertools.count(k) if i not in used)   |  enumerate(..., 1)
    try:
        f = _find(_parse('skyllh/core/utils/analysis.py'), ast.FunctionDef, 'extend_trial_data_file')
        counts = [n for n in ast.walk(f) if isinstance(n, ast.Call) and (
            (isinstance(n.func, ast.Attribute) and n.func.attr == 'count' and isinstance(n.func.value, ast.Name)
             and n.func.value.id == 'itertools') or (isinstance(n.func, ast.Name) and n.func.id == 'count'))]
        enums = [n for n in ast.walk(f) if isinstance(n, ast.Call) and isinstance(n.func, ast.Name) and n.func.id == 'enumerate']
        if len(counts) == 1 and not enums:
            c = counts[0]
            start = _lit(c.args[0]) if c.args else (_lit(c.keywords[0].value) if c.keywords else 0)
            if not isinstance(start, int) or start < 0:
                raise LookupError('count start')
            vals['seedStart'], vals['seedSearchRepaired'] = start, True
        elif len(enums) == 1 and not counts:
            vals['seedStart'] = _lit(enums[0].args[1]) if len(enums[0].args) > 1 else 0
            vals['seedSearchRepaired'] = False
        else:
            raise LookupError('seed search')
    except Exception:  # noqa
        failed.append('seedStart')
    # parallelize: RandomStateService(seed=rss.random.randint(0, 2**32))
    try:
        f = _find(_parse('skyllh/core/multiproc.py'), ast.FunctionDef, 'parallelize')
        calls = [n for n in ast.walk(f) if isinstance(n, ast.Call) and isinstance(n.func, ast.Attribute) and n.func.attr == 'randint']
        if len(calls) != 1 or len(calls[0].args) != 2:
            raise LookupError('randint')
        lo, hi = _lit(calls[0].args[0]), _lit(calls[0].args[1])
        if not (isinstance(lo, int) and isinstance(hi, int) and lo >= 0 and hi >= 0):
            raise LookupError('randint bounds')
        vals['workerSeedLow'], vals['workerSeedHigh'] = lo, hi
    except Exception:  # noqa
        failed.append('workerSeed')
    # Analysis.do_trial: minimizer_rss = RandomStateService(seed=rss.seed)
    try:
        f = _find(_find(_parse('skyllh/core/analysis.py'), ast.ClassDef, 'Analysis'), ast.FunctionDef, 'do_trial')
        calls = [n for n in ast.walk(f) if isinstance(n, ast.Call) and isinstance(n.func, ast.Name) and n.func.id == 'RandomStateService']
        if len(calls) != 1:
            # none (service created elsewhere / passed through) or several: undecidable here; the correspondence decides
            raise LookupError('RandomStateService')
        v = calls[0]
        seed = [k.value for k in v.keywords if k.arg == 'seed'] + list(v.args[:1])
        if len(seed) != 1:
            raise LookupError('seed')
        if isinstance(seed[0], ast.Attribute) and seed[0].attr == 'seed' and isinstance(seed[0].value, ast.Name) \
                and seed[0].value.id == 'rss':
            vals['minimizerSeedFromRss'] = True
        elif isinstance(seed[0], ast.Constant):
            vals['minimizerSeedFromRss'] = False       # a literal (None, a number): certainly not the seed of rss
        else:
            raise LookupError('seed expression')       # possibly equivalent: the correspondence decides
    except Exception:  # noqa
        failed.append('minimizerSeedFromRss')
    # Analysis.do_trial: which object is forwarded as minimizer_rss to do_trial_with_given_pseudo_data
    try:
        f = _find(_find(_parse('skyllh/core/analysis.py'), ast.ClassDef, 'Analysis'), ast.FunctionDef, 'do_trial')
        calls = [n for n in ast.walk(f) if isinstance(n, ast.Call) and isinstance(n.func, ast.Attribute)
                 and n.func.attr == 'do_trial_with_given_pseudo_data']
        if len(calls) != 1:
            raise LookupError('do_trial_with_given_pseudo_data')
        fw = [k.value for k in calls[0].keywords if k.arg == 'minimizer_rss']
        if len(fw) != 1 or not isinstance(fw[0], ast.Name):
            raise LookupError('minimizer_rss keyword')
        vals['minimizerRssForwarded'] = fw[0].id != 'rss'
    except Exception:  # noqa
        failed.append('minimizerRssForwarded')
    # Analysis.generate_signal_events: how the mean gets into the caller's sig_kwargs dict
    try:
        f = _find(_find(_parse('skyllh/core/analysis.py'), ast.ClassDef, 'Analysis'), ast.FunctionDef, 'generate_signal_events')
        over, keep = [], []
        for n in ast.walk(f):
            if isinstance(n, ast.Call) and isinstance(n.func, ast.Attribute) and isinstance(n.func.value, ast.Name) \
                    and n.func.value.id == 'sig_kwargs':
                if n.func.attr == 'update' and any(k.arg == 'mean' for k in n.keywords):
                    over.append(n)
                elif n.func.attr == 'setdefault' and n.args and isinstance(n.args[0], ast.Constant) and n.args[0].value == 'mean':
                    keep.append(n)
            if isinstance(n, ast.Assign) and any(
                    isinstance(t, ast.Subscript) and isinstance(t.value, ast.Name) and t.value.id == 'sig_kwargs'
                    and isinstance(t.slice, ast.Constant) and t.slice.value == 'mean' for t in n.targets):
                over.append(n)
        if len(over) + len(keep) != 1:
            raise LookupError('sig_kwargs mean')        # e.g. a copy of the dict is made: the correspondence decides
        vals['sigKwargsOverwritesMean'] = bool(over)
    except Exception:  # noqa
        failed.append('sigKwargsOverwritesMean')
    # RandomChoice._assert_probabilities: form of the test of the sum against the tolerance
    try:
        f = _find(_find(_parse('skyllh/core/random.py'), ast.ClassDef, 'RandomChoice'), ast.FunctionDef, '_assert_probabilities')
        tests = [n.test for n in ast.walk(f) if isinstance(n, ast.If) and any(
            isinstance(x, ast.Name) and x.id == 'atol' for x in ast.walk(n.test))]
        if len(tests) != 1:
            raise LookupError('sum test')
        t = tests[0]
        is_abs = lambda e: isinstance(e, ast.Call) and isinstance(e.func, ast.Name) and e.func.id == 'abs'   # noqa
        if isinstance(t, ast.Compare) and len(t.ops) == 1 and isinstance(t.ops[0], ast.Gt) and is_abs(t.left):
            vals['probSumTestRejectsNaN'] = False        # abs(p_sum - 1) > atol: false for NaN
        elif (isinstance(t, ast.UnaryOp) and isinstance(t.op, ast.Not) and isinstance(t.operand, ast.Compare)
              and len(t.operand.ops) == 1 and isinstance(t.operand.ops[0], ast.LtE) and is_abs(t.operand.left)):
            vals['probSumTestRejectsNaN'] = True         # not (abs(p_sum - 1) <= atol)
        else:
            raise LookupError('unrecognised form')       # the NaN cases of the correspondence decide
    except Exception:  # noqa
        failed.append('probSumTestRejectsNaN')
    # RandomStateService.reseed: is `self._seed` written before or after `self.random.seed(...)` was accepted?
    try:
        f = _find(_find(_parse('skyllh/core/random.py'), ast.ClassDef, 'RandomStateService'), ast.FunctionDef, 'reseed')
        is_self_seed = lambda t: isinstance(t, ast.Attribute) and t.attr == '_seed' and isinstance(t.value, ast.Name) and t.value.id == 'self'   # noqa
        assigns = [k for k, st in enumerate(f.body) if isinstance(st, ast.Assign) and any(is_self_seed(t) for t in st.targets)]
        seeds = [k for k, st in enumerate(f.body) if isinstance(st, ast.Expr) and isinstance(st.value, ast.Call)
                 and isinstance(st.value.func, ast.Attribute) and st.value.func.attr == 'seed'
                 and isinstance(st.value.func.value, ast.Attribute) and st.value.func.value.attr in ('random', '_random')]
        if len(assigns) != 1 or len(seeds) != 1:
            raise LookupError('unrecognised form')       # e.g. try/except restoring the label: the correspondence decides
        vals['reseedAssignsAfterSeeding'] = assigns[0] > seeds[0]
    except Exception:  # noqa
        failed.append('reseedAssignsAfterSeeding')
    return vals, failed


def generated(ctx):
    vals, failed = _extract()
    _GEN.clear()
    _GEN.update(vals)
    for name in failed:
        ctx.note('C08: could not read %s from the source; using the recorded value' % name)
        ctx.proof['generated_fallbacks'].append(name)
    b = lambda x: 'true' if x else 'false'   # noqa
    return '\n'.join([
        '/- GENERATED by harness/props/c08.py from the current skyllh source — do not edit. -/',
        'namespace Gen.C08',
        "/-- `np.searchsorted(..., side='right')` in RandomChoice.__call__ -/",
        'def sideRight : Bool := %s' % b(vals['sideRight']),
        '/-- the unused-seed search of extend_trial_data_file tests membership in the file (repaired form) -/',
        'def seedSearchRepaired : Bool := %s' % b(vals['seedSearchRepaired']),
        '/-- first candidate of the unused-seed search in extend_trial_data_file -/',
        'def seedStart : Nat := %d' % vals['seedStart'],
        '/-- `rss.random.randint(low, high)` for the per-worker seeds in parallelize -/',
        'def workerSeedLow : Nat := %d' % vals['workerSeedLow'],
        'def workerSeedHigh : Nat := %d' % vals['workerSeedHigh'],
        '/-- do_trial: `minimizer_rss = RandomStateService(seed=rss.seed)` when none is given -/',
        'def minimizerSeedFromRss : Bool := %s' % b(vals['minimizerSeedFromRss']),
        '/-- do_trial hands the minimiser service it bound (not the data service `rss`) to do_trial_with_given_pseudo_data -/',
        'def minimizerRssForwarded : Bool := %s' % b(vals['minimizerRssForwarded']),
        '/-- RandomChoice._assert_probabilities tests the sum with `not (abs(p_sum - 1) <= atol)` (rejects NaN) -/',
        'def probSumTestRejectsNaN : Bool := %s' % b(vals['probSumTestRejectsNaN']),
        "/-- generate_signal_events sets sig_kwargs['mean'] on every call (update / assignment), not only when missing -/",
        'def sigKwargsOverwritesMean : Bool := %s' % b(vals['sigKwargsOverwritesMean']),
        '/-- RandomStateService.reseed writes `_seed` after `self.random.seed(...)` accepted the seed -/',
        'def reseedAssignsAfterSeeding : Bool := %s' % b(vals['reseedAssignsAfterSeeding']),
        'end Gen.C08', ''])


# ------------------------------------------------------------------------------------------
# RandomChoice

class _StubRandom:
    """random state handing out prescribed uniform deviates in sequence, through whichever of the usual
    entry points the code uses and in whatever batches"""
    def __init__(self, us):
        self.us = np.array(us, dtype=np.float64)
        self.k = 0

    def _take(self, size):
        n = 1 if size is None else int(np.prod(size))
        if self.k + n > len(self.us):
            raise MachineryError('C08 stub random state: %d deviates prescribed, more requested' % len(self.us))
        out = self.us[self.k:self.k + n].copy()
        self.k += n
        return float(out[0]) if size is None else out.reshape(size)

    def random(self, size=None):
        return self._take(size)

    random_sample = random

    def rand(self, *shape):
        return self._take(shape if shape else None)

    def uniform(self, low=0.0, high=1.0, size=None):
        return low + (high - low) * self._take(size)


class _StubRSS:
    def __init__(self, us):
        self.random = _StubRandom(us)
        self.seed = None


def make_ps(spec):
    """probability vector from a compact, JSON-able description"""
    if 'explicit' in spec:
        p = np.array(spec['explicit'], dtype=np.float64)
    else:
        n, mode = spec['n'], spec['mode']
        r = np.random.RandomState(spec['seed'])
        if mode == 'dense':
            p = r.uniform(0.0, 1.0, n) + 1e-3
        elif mode == 'zeros':
            p = r.uniform(0.0, 1.0, n)
            p[r.uniform(size=n) < spec.get('zfrac', 0.5)] = 0.0
            lead, trail = spec.get('lead', 0), spec.get('trail', 0)
            p[:lead] = 0.0
            if trail:
                p[n - trail:] = 0.0
            if not p.any():
                p[r.randint(0, n)] = 1.0
        elif mode == 'onehot':
            p = np.zeros(n)
            p[spec.get('at', 0) % n] = 1.0
        elif mode == 'dyadic':
            k = r.randint(0, 4, n).astype(np.float64)
            if not k.any():
                k[r.randint(0, n)] = 1.0
            p = k
        elif mode == 'tiny':
            p = r.uniform(0.0, 1.0, n)
            idx = r.uniform(size=n) < 0.4
            p[idx] = r.choice([1e-300, 1e-17, 1e-9, 0.0], size=int(idx.sum()))
            if not p.any() or p.sum() < 1e-3:
                p[r.randint(0, n)] = 1.0
        else:
            raise ValueError(mode)
        if mode == 'dyadic':
            # exact binary fractions: every prefix sum and the total are exact, the total is a power of two
            tot = p.sum()
            pw = 2.0 ** np.ceil(np.log2(tot))
            p[np.flatnonzero(p)[-1]] += pw - tot
            p = p / pw
        else:
            p = p / p.sum()
        p = p * spec.get('scale', 1.0)
    if spec.get('dtype', 'float64') == 'float32':
        p = p.astype(np.float32)
    return p


def _probe_us(rng, p, k):
    """deviates at 0, just below 1, at and next to the entries of the cdf, plus random ones (with ties)"""
    c = np.cumsum(p, dtype=np.float64)
    c = c / c[-1]
    us = [0.0, float(np.nextafter(1.0, 0.0)), 0.5]
    pick = [0, len(c) - 1] + [rng.randrange(len(c)) for _ in range(k)]
    nz = np.flatnonzero(np.asarray(p) == 0)
    if len(nz):
        pick += [int(nz[0]), int(nz[-1]), int(nz[rng.randrange(len(nz))])]
    for i in pick:
        v = float(c[i])
        for u in (v, float(np.nextafter(v, 0.0)), float(np.nextafter(v, 2.0))):
            if 0.0 <= u < 1.0:
                us.append(u)
    us += [rng.random() for _ in range(k)]
    us += [us[rng.randrange(len(us))] for _ in range(3)]     # ties
    rng.shuffle(us)
    return us


ITEM_KINDS = ['arange', 'perm', 'offset', 'repeat', 'float', 'str', 'struct']


def make_items(ispec, n):
    """(integer codes, item array): the model works on the codes, the implementation on the array.
    ispec = {'kind': …, 'seed': …}; kinds: identity, permuted ints, offset ints, ints with repeated values,
    floats, strings, structured rows."""
    kind = (ispec or {}).get('kind', 'arange')
    r = np.random.RandomState((ispec or {}).get('seed', 0))
    if kind == 'arange':
        codes = np.arange(n)
    elif kind == 'offset':
        codes = np.arange(n) + 17
    elif kind == 'repeat':
        codes = r.randint(0, max(1, n // 2) + 1, n)
    else:
        codes = r.permutation(n) + (3 if kind == 'perm' else 0)
    return codes.astype(np.int64), _item_values(kind, codes)


def _item_values(kind, codes):
    codes = np.asarray(codes, dtype=np.int64)
    if kind in ('arange', 'perm', 'offset', 'repeat'):
        return codes.copy()
    if kind == 'float':
        return codes * 0.5 - 3.0
    if kind == 'str':
        return np.array(['s%07d' % c for c in codes], dtype='U8')
    if kind == 'struct':
        a = np.zeros(len(codes), dtype=[('id', np.int64), ('w', np.float64)])
        a['id'] = codes
        a['w'] = codes * 2.0 + 0.25
        return a
    raise ValueError(kind)


def _arr_same(a, b):
    a, b = np.asarray(a), np.asarray(b)
    return a.shape == b.shape and a.dtype == b.dtype and a.tobytes() == b.tobytes()


def _impl_choice(p, us, ispec=None):
    """returned ITEMS (an array) | 'REJ:…' | 'EXC:…'"""
    from skyllh.core.random import RandomChoice
    codes, items = make_items(ispec, len(p))
    try:
        rc = RandomChoice(items=items, probabilities=p)
    except Exception as e:  # noqa
        return 'REJ:' + type(e).__name__
    try:
        res = rc(rss=_StubRSS(us), size=len(us))
    except MachineryError:
        raise
    except Exception as e:  # noqa
        return 'EXC:' + type(e).__name__
    return np.asarray(res)


def _choice_req(p, us, ispec=None):
    codes, _ = make_items(ispec, len(p))
    return 'choice %d %s %s %s' % (1 if _gen()['sideRight'] else 0, ilist(codes), flist(np.asarray(p, dtype=np.float64)), flist(us))


def _choice_compare(impl, model, ispec=None, counts=None):
    parts = dict(x.split(':', 1) for x in model.split(' '))
    if parts['coded'] != parts['spec']:
        return 'model: code path %s differs from specification form %s' % (parts['coded'][:200], parts['spec'][:200])
    m = parts['coded']
    # premises of c08_choice_support_float_level on the model's float cdf: sorted, starts >= 0, ends in exactly 1
    if counts is not None and parts['cdf'] != 'ERR':
        c = np.array([b2f(t) for t in parts['cdf'].split(',')])
        ok = bool(np.all(np.isfinite(c)) and c[0] >= 0 and np.all(np.diff(c) >= 0) and c[-1] == 1.0)
        counts('choice:float-level-premises-' + ('hold' if ok else 'FAIL'))
    if isinstance(impl, str) and impl.startswith('EXC:'):
        return None if m == 'ERR' else 'implementation raised %s, model returns %s' % (impl[4:], m[:200])
    if isinstance(impl, str) and impl.startswith('REJ:'):
        return 'implementation rejected the probabilities (%s)' % impl[4:]
    if m == 'ERR':
        return 'model raises, implementation returns %r' % (impl[:10].tolist(),)
    want = _item_values((ispec or {}).get('kind', 'arange'), [int(t) for t in m.split(',')] if m != '-' else [])
    if not _arr_same(impl, want):
        if impl.shape != want.shape or impl.dtype != want.dtype:
            return 'implementation returns shape %r dtype %s, expected items of shape %r dtype %s' % (impl.shape, impl.dtype, want.shape, want.dtype)
        k = [i for i in range(len(want)) if impl[i:i + 1].tobytes() != want[i:i + 1].tobytes()][0]
        return 'returned item %d is %r, the model returns item %r' % (k, impl[k].tolist(), want[k].tolist())
    return None


def _pyval(x):
    x = x.tolist() if hasattr(x, 'tolist') else x
    return tuple(x) if isinstance(x, (list, tuple)) else x


def o_choice(ctx, case):
    """returned ITEMS: every one is an item of strictly positive probability whose cumulative bracket
    contains the deviate (exact fractions for n <= 4000, float prefix sums above), one per requested draw"""
    p = make_ps(case['ps'])
    us = case['us']
    ispec = case.get('items')
    from skyllh.core.random import RandomChoice
    codes, items = make_items(ispec, len(p))
    items0 = items.copy()
    try:
        rc = RandomChoice(items=items, probabilities=p)
    except Exception as e:  # noqa
        return 'RandomChoice rejected a valid probability vector %s: %s: %s' % (case['ps'], type(e).__name__, e)
    try:
        res = rc(rss=_StubRSS(us), size=len(us))
    except MachineryError:
        raise
    except Exception as e:  # noqa
        # find the single deviate that does it
        for u in us:
            try:
                rc(rss=_StubRSS([u]), size=1)
            except Exception as e2:  # noqa
                return 'RandomChoice(%s)(size=1) with uniform deviate %r raised %s: %s' % (case['ps'], u, type(e2).__name__, e2)
        return 'RandomChoice(%s)(size=%d) raised %s: %s' % (case['ps'], len(us), type(e).__name__, e)
    res = np.asarray(res)
    if res.shape != (len(us),):
        return 'RandomChoice returned shape %r for size=%d' % (res.shape, len(us))
    if res.dtype != items.dtype:
        return 'RandomChoice returned dtype %s for items of dtype %s' % (res.dtype, items.dtype)
    p64 = np.asarray(p, dtype=np.float64)
    n = len(p64)
    where = {}
    for i in range(n):
        where.setdefault(_pyval(items0[i]), []).append(i)
    pos = np.flatnonzero(p64 > 0)
    exact = n <= 4000
    if exact:
        pref = [Fraction(0)]
        for x in p64:
            pref.append(pref[-1] + Fraction(float(x)))
        T = pref[-1]
        tol = T * Fraction(1, 10 ** 12) * max(1, n)
    else:
        pref = np.concatenate([[0.0], np.cumsum(p64)])
        T = float(pref[-1])
        tol = T * 1e-9
    fpref = np.concatenate([[0.0], np.cumsum(p64)])
    for k, u in enumerate(us):
        v = _pyval(res[k])
        idxs = where.get(v)
        if idxs is None:
            return ('RandomChoice(%s, items %s) returned %r for uniform deviate %r, which is not one of the items'
                    % (case['ps'], ispec, v, u))
        if not any(p64[i] > 0 for i in idxs):
            return ('RandomChoice(%s, items %s) returned item %r (index %r) of probability 0.0 for uniform deviate %r'
                    % (case['ps'], ispec, v, idxs[:3], u))
        # indices of positive weight around the insertion point of u*T
        j = int(np.searchsorted(pos, np.searchsorted(fpref[1:], u * float(fpref[-1]), side='right')))
        cand = [int(pos[t]) for t in range(max(0, j - 2), min(len(pos), j + 3))]
        x = (Fraction(float(u)) * T) if exact else float(u) * T
        good = [i for i in cand if pref[i] - tol <= x <= pref[i + 1] + tol]
        if not any(i in good for i in idxs):
            return ('RandomChoice(%s, items %s): deviate %r gives item %r (index %r); the items whose cumulative bracket contains u*sum=%r '
                    'are at index %r (items %r)' % (case['ps'], ispec, u, v, idxs[:3], float(x), good, [_pyval(items0[i]) for i in good]))
    # one deviate at a time gives the same items (no dependence on the other draws / on the sorting)
    if len(us) <= 64:
        for k in (0, len(us) - 1, len(us) // 2):
            one = np.asarray(rc(rss=_StubRSS([us[k]]), size=1))
            if _pyval(one[0]) != _pyval(res[k]):
                return ('RandomChoice(%s): deviate %r gives item %r alone but item %r as draw %d of %d'
                        % (case['ps'], us[k], _pyval(one[0]), _pyval(res[k]), k, len(us)))
    if not _arr_same(items, items0):
        return 'RandomChoice changed the item array it was given'
    return None


def o_choice_stream(ctx, case):
    """with a real RandomStateService: same seed -> same items (also after unrelated use of another object
    and service); how many deviates a call consumes is a diagnostic only (the property does not fix it)"""
    from skyllh.core.random import RandomChoice, RandomStateService
    p = make_ps(case['ps'])
    seed, size = case['seed'], case['size']
    codes, items = make_items(case.get('items'), len(p))
    rc = RandomChoice(items=items, probabilities=p)
    rss = RandomStateService(seed)
    a = np.asarray(rc(rss=rss, size=size))
    nxt = rss.random.random_sample()
    ref = np.random.RandomState(seed).random_sample(size + 1)
    ctx.count('diag:choice-consumes-exactly-size-deviates=%s' % (nxt == ref[size]))
    other = RandomStateService((seed + 1) % 2 ** 32)
    other.random.random_sample(7)
    rc2 = RandomChoice(items=make_items(case.get('items'), len(p))[1], probabilities=make_ps(case['ps']))
    rc2(rss=other, size=3)
    b = np.asarray(rc2(rss=RandomStateService(seed), size=size))
    if not _arr_same(a, b):
        return 'RandomChoice with seed %d, size %d returned different items in two runs' % (seed, size)
    if a.shape != (size,):
        return 'RandomChoice returned shape %r for size=%d' % (a.shape, size)
    return None


# ------------------------------------------------------------------------------------------
# unused-seed search

class _SeedAna:
    """stub analysis: `do_trials` labels every row with the seed of the service and one draw"""
    def do_trials(self, rss, n, **kwargs):
        rec = np.empty((n,), dtype=[('seed', np.int64), ('mean_n_sig', np.float64), ('mean_n_sig_0', np.float64), ('ts', np.float64)])
        rec['seed'] = rss.seed
        rec['mean_n_sig'] = kwargs.get('mean_n_sig', 0)
        rec['mean_n_sig_0'] = kwargs.get('mean_n_sig_0', 0)
        rec['ts'] = rss.random.random_sample(n)
        return rec


def _file(seeds):
    rec = np.zeros((len(seeds),), dtype=[('seed', np.int64), ('mean_n_sig', np.float64), ('mean_n_sig_0', np.float64), ('ts', np.float64)])
    rec['seed'] = seeds
    rec['ts'] = np.arange(len(seeds)) * 0.5
    return rec


SEED_FORMS = ['int', 'np64', 'npu32', 'str', 'float']


def _seedform(v, form):
    """the same seed handed over as int / numpy integer / digit string / integral float (int_cast accepts all)"""
    return {'int': int, 'np64': np.int64, 'npu32': np.uint32, 'str': str, 'float': float}[form or 'int'](v)


def _extend(used, cur, rows, glue=None):
    """glue: {'td': 'nd'|'rec', 'n': 'int'|'np'|'float', 'seed': one of SEED_FORMS} — forms of the arguments"""
    from skyllh.core.random import RandomStateService
    from skyllh.core.utils.analysis import extend_trial_data_file
    glue = glue or {}
    rss = RandomStateService(_seedform(cur, glue.get('seed')))
    td = _file(used)
    if glue.get('td') == 'rec':
        td = td.view(np.recarray)
    n = {'int': int, 'np': np.int64, 'float': float}[glue.get('n', 'int')](rows)
    out = extend_trial_data_file(_SeedAna(), rss, n, td)
    return rss, td, out


def _impl_seed(used, cur, glue=None):
    try:
        rss, td, out = _extend(used, cur, 1, glue)
    except Exception as e:  # noqa
        return 'EXC:' + type(e).__name__
    return str(int(out['seed'][-1]))


def o_seed(ctx, case):
    used, cur, rows = case['used'], case['cur'], case.get('rows', 2)
    try:
        rss, td, out = _extend(used, cur, rows, case.get('glue'))
    except Exception as e:  # noqa
        return 'extend_trial_data_file with file seeds %r, rss.seed=%r raised %s: %s' % (used, cur, type(e).__name__, e)
    if len(out) != len(used) + rows:
        return 'extend_trial_data_file returned %d rows, expected %d' % (len(out), len(used) + rows)
    if list(out['seed'][:len(used)]) != list(used) or list(out['ts'][:len(used)]) != list(td['ts']):
        return 'extend_trial_data_file changed the existing rows'
    new = sorted(set(int(s) for s in out['seed'][len(used):]))
    if len(new) != 1:
        return 'new rows carry several seeds %r' % new
    s = new[0]
    if s in set(used):
        return ('extend_trial_data_file: file seeds %r, rss.seed=%d -> the new rows are generated with seed %d, which already occurs in the file'
                % (sorted(set(used)), cur, s))
    if cur not in set(used) and s != cur:
        return 'extend_trial_data_file: rss.seed=%d does not occur in %r but the new rows use seed %d' % (cur, sorted(set(used)), s)
    if rss.seed != s:
        return 'after the extension rss.seed=%r but the new rows are labelled %d' % (rss.seed, s)
    ref = np.random.RandomState(s).random_sample(rows)
    if not np.array_equal(np.asarray(out['ts'][len(used):]), ref):
        return 'the new rows labelled with seed %d were not generated from the stream of seed %d (file seeds %r, rss.seed=%d)' % (s, s, used, cur)
    return None


def _impl_hist(file, curs, rows):
    from skyllh.core.random import RandomStateService
    from skyllh.core.utils.analysis import extend_trial_data_file
    td = _file(file)
    chosen = []
    for cur, k in zip(curs, rows):
        rss = RandomStateService(cur)
        td = extend_trial_data_file(_SeedAna(), rss, k, td)
        chosen.append(int(td['seed'][-1]))
    return chosen


def _impl_hist_shared(file, cur, pre, rows):
    """ONE service object (already used: `pre` deviates drawn) through all extensions"""
    from skyllh.core.utils.analysis import extend_trial_data_file
    td = _file(file)
    rss = _svc(cur, pre)
    chosen = []
    for k in rows:
        n0 = len(td)
        td = extend_trial_data_file(_SeedAna(), rss, k, td)
        new = sorted(set(int(x) for x in td['seed'][n0:]))
        chosen.append(new[0] if len(new) == 1 else -1)
        if rss.seed != chosen[-1]:
            chosen[-1] = -2
    return chosen


def o_seed_shared(ctx, case):
    """one RandomStateService object through k successive extensions: every extension runs with a seed that is
    not in the file yet, labels all its rows with it and leaves that seed in the caller's service"""
    file, cur, rows = case['file'], case['cur'], case['rows']
    try:
        chosen = _impl_hist_shared(file, cur, case.get('pre', 0), rows)
    except MachineryError:
        raise
    except Exception as e:  # noqa
        return 'extensions with one service object raised %s: %s' % (type(e).__name__, e)
    if -1 in chosen or -2 in chosen:
        return ('extending file %r %d times with ONE service (initial seed %d): new rows carry several seeds or rss.seed is not the '
                'seed of the new rows (%r)' % (file, len(rows), cur, chosen))
    if len(set(chosen)) != len(chosen) or set(chosen) & set(file):
        return ('extending a file with seeds %r %d times with ONE service object (initial seed %d) ran with seeds %r: not pairwise '
                'distinct and new' % (file, len(rows), cur, chosen))
    return None


def o_extend_real(ctx, case):
    """extend_trial_data_file -> create_trial_data_file -> the real Analysis.do_trials (synthetic analysis), with a
    grid of mean_n_sig values: row count n*|grid|, every new row labelled with one seed that is new and is the
    seed left in the service; rows of the first grid point = do_trials of a new service of that seed"""
    from skyllh.core.utils.analysis import create_trial_data_file, extend_trial_data_file
    c, seed, n, grid = case['cfg'], case['seed'], case['n'], case['grid']
    ana = _mk_ana(c)
    try:
        with _Watchdog(120):
            (s0, _, _, td) = create_trial_data_file(ana, _svc(seed, 0), n, mean_n_sig=grid, ncpu=1)
            rss = _svc(seed, case.get('pre', 0))
            chosen = []
            for _ in range(case['k']):
                n0 = len(td)
                td = extend_trial_data_file(ana, rss, n, td, mean_n_sig=grid, ncpu=1)
                new = td[n0:]
                if len(new) != n * (int(grid[1]) - int(grid[0]) + 1):
                    return 'extension added %d rows, expected n*|grid| = %d' % (len(new), n * (int(grid[1]) - int(grid[0]) + 1))
                labels = sorted(set(int(x) for x in new['seed']))
                if len(labels) != 1 or labels[0] in set(int(x) for x in td['seed'][:n0]) or rss.seed != labels[0]:
                    return ('extension %d of a file created with seed %d (service seed %d): new rows are labelled %r, file seeds before %r, '
                            'rss.seed after %r' % (len(chosen), seed, seed, labels, sorted(set(int(x) for x in td['seed'][:n0])), rss.seed))
                chosen.append(labels[0])
                ref, _, _ = _run_trials(c, labels[0], 0, n, 1, int(grid[0]), None)
                if ref['data'].tobytes() != np.asarray(new['data'][:n]).tobytes():
                    return 'rows labelled with seed %d were not generated from the stream of seed %d' % (labels[0], labels[0])
    except MachineryError:
        raise
    except Exception as e:  # noqa
        return 'extend_trial_data_file on the synthetic analysis raised %s: %s' % (type(e).__name__, e)
    return None


def o_seed_history(ctx, case):
    file, curs, rows = case['file'], case['curs'], case['rows']
    try:
        chosen = _impl_hist(file, curs, rows)
    except Exception as e:  # noqa
        return 'history of extensions raised %s: %s' % (type(e).__name__, e)
    if len(set(chosen)) != len(chosen) or set(chosen) & set(file):
        return ('extending a file with seeds %r successively with rss seeds %r ran with seeds %r: not pairwise distinct and new'
                % (file, curs, chosen))
    return None


# ------------------------------------------------------------------------------------------
# streams: a synthetic analysis around the real do_trial / do_trials / parallelize / Minimizer

_ANA = {}
_E = 16      # number of distinct event ids the stub PDF ratio knows


def _mk_ana(c):
    """c = dict(maxev, thr, maxrep, npar, lo, hi).  A *real* LLHRatioAnalysis built through its public
    constructor / add_dataset / setters (harness.llh_fixtures supplies source hypotheses, parameter mapper,
    trial data manager, stub PDF ratio, the real ZeroSigH0SingleDatasetTCLLHRatio):
      * do_trial, generate_pseudo_data, lazy construct_background_generator / construct_signal_generator,
        do_trials, parallelize, LLHRatioAnalysis.do_trial_with_given_pseudo_data -> initialize_trial ->
        llhratio.maximize(rss=minimizer_rss) -> Minimizer.minimize -> generate_random_floating_param_initials
        are the repository's code;
      * stubs: the background / signal generator classes (draw from rss.random), the MinimizerImpl (needs a
        data-dependent number of restarts and returns the initials it is given).
    The analysis object is cached on purpose: the oracles exercise *used* objects.  A failure to build the
    fixture is a machinery error."""
    key = (c['maxev'], c['thr'], c['maxrep'], c['npar'], c['lo'], c['hi'], c.get('need_mod'), c.get('norep'), c.get('delta'))
    if key in _ANA:
        return _ANA[key]
    try:
        ana = _build_ana(c)
    except Exception as e:  # noqa
        raise MachineryError('C08: cannot build the synthetic analysis fixture: %s: %s' % (type(e).__name__, e))
    _ANA[key] = ana
    return ana


def _build_ana(c):
    from harness import llh_fixtures as L
    from skyllh.core.analysis import LLHRatioAnalysis
    from skyllh.core.background_generator import BackgroundGenerator
    from skyllh.core.dataset import Dataset, DatasetData
    from skyllh.core.minimizer import Minimizer, MinimizerImpl
    from skyllh.core.signal_generator import SignalGenerator
    from skyllh.core.storage import DataFieldRecordArray
    from skyllh.core.test_statistic import WilksTestStatistic

    E = _E
    cfg = L.make_cfg()
    mid = 0.5 * (c['lo'] + c['hi'])
    sources = L.make_sources(1)
    shg_mgr = L.make_shg_mgr(cfg, sources)
    params = [L.make_param('q%d' % i, mid, c['lo'], c['hi']) for i in range(1, c['npar'])]
    pmm = L.make_pmm(sources, params=params, ns_init=mid, ns_max=c['hi'], ns_min=c['lo'])
    tdm = L.make_tdm(shg_mgr, pmm, L.make_events(E), n_events=E)
    pdfratio = L.StubPDFRatio(cfg, np.linspace(0.5, 2.0, E).reshape(1, E))
    llh = L.make_single_llhratio(cfg, pmm, shg_mgr, tdm, pdfratio)
    paramset = pmm.global_paramset
    if paramset.n_floating_params != c['npar']:
        raise MachineryError('C08 fixture: %d floating parameters, wanted %d' % (paramset.n_floating_params, c['npar']))
    first = np.array(paramset.floating_param_initials, dtype=np.float64)

    class Impl(MinimizerImpl):
        def __init__(self):
            super().__init__(cfg=cfg)
            self.calls = 0
            self.needed = 0

        def minimize(self, initials, bounds, func, func_args=None, **kw):
            if np.array_equal(initials, first):
                # first attempt of a new trial: how many restarts this trial's data asks for
                x = np.asarray(tdm.get_data('x'))
                self.calls = 0
                self.needed = int(np.count_nonzero(x < c['thr'])) % (c.get('need_mod') or (c['maxrep'] + 1))
            self.calls += 1
            return (np.array(initials, dtype=np.float64) + (c.get('delta') or 0.0), 0.0, {'calls': self.calls})

        def get_niter(self, status):
            return status['calls']

        def has_converged(self, status):
            return status['calls'] > self.needed

        def is_repeatable(self, status):
            # scripted: not repeatable from attempt number `norep` on (0/None = always repeatable)
            return not c.get('norep') or status['calls'] < c['norep']

    def events(x):
        return DataFieldRecordArray({'eid': np.minimum((x * E).astype(np.int64), E - 1), 'x': x}, copy=True)

    class Bkg(BackgroundGenerator):
        def __init__(self, cfg, **kw):
            super().__init__(cfg=cfg)

        def generate_background_events(self, rss, mean_n_bkg_list=None, tl=None, **kw):
            u0 = rss.random.random()
            n = 1 + int(u0 * c['maxev'])
            return ([n], [events(rss.random.random(n))])

    class Sig(SignalGenerator):
        def __init__(self, cfg, shg_mgr, **kw):
            super().__init__(shg_mgr=shg_mgr, cfg=cfg)

        def change_shg_mgr(self, m):
            pass

        def generate_signal_events(self, rss, mean, **kw):
            k = int(mean)
            return (k, {0: events(rss.random.random(k))})

    K = c['maxev'] + 8
    names = list(paramset.floating_params_name_list)

    class Syn(LLHRatioAnalysis):
        def construct_llhratio(self, *a, **k):
            raise NotImplementedError

        def do_trial_with_given_pseudo_data(self, *args, **kwargs):
            # the real method does the work; this wrapper only adds the pseudo data and the number of
            # restarts to the result row so that they can be compared
            x = np.array(kwargs['events_list'][0]['x'], dtype=np.float64)
            st = kwargs.get('minimizer_status_dict')
            if not isinstance(st, dict):
                st = kwargs['minimizer_status_dict'] = {}
            rec = super().do_trial_with_given_pseudo_data(*args, **kwargs)
            out = np.zeros((1,), dtype=[('seed', np.int64), ('n_ev', np.int64), ('data', np.float64, (K,)),
                                        ('n_reps', np.int64), ('fit', np.float64, (c['npar'],)),
                                        ('xmin', np.float64, (c['npar'],))])
            out['seed'] = rec['seed']
            out['n_ev'] = len(x)
            d = np.zeros(K)
            d[:len(x)] = x[:K]
            out['data'][0] = d
            reps = st['skyllh_minimizer_n_reps']
            out['n_reps'] = reps
            out['xmin'][0] = [rec[nm][0] for nm in names]
            if reps > 0:
                out['fit'][0] = out['xmin'][0]
            return out

    ana = Syn(shg_mgr=shg_mgr, pmm=pmm, test_statistic=WilksTestStatistic(), bkg_generator_cls=Bkg,
              sig_generator_cls=Sig, cfg=cfg)
    ds = Dataset(cfg=cfg, name='ds', exp_pathfilenames=None, mc_pathfilenames=None, livetime=None,
                 default_sub_path_fmt='', version=1)
    ana.add_dataset(ds, DatasetData(data_exp=L.make_events(E), data_mc=None, livetime=1.0), pdfratio=pdfratio, tdm=tdm)
    llh.minimizer = Minimizer(Impl(), max_repetitions=c['maxrep'])
    ana.llhratio = llh
    return ana


class _Watchdog:
    """a hang of the harness itself (real processes for ncpu > 1) is a machinery error, not a verdict"""
    def __init__(self, secs):
        self.secs = secs

    def __enter__(self):
        def h(sig, frm):
            raise MachineryError('C08: do_trials with real processes did not return within %d s' % self.secs)
        self.old = signal.signal(signal.SIGALRM, h)
        signal.alarm(self.secs)

    def __exit__(self, *a):
        signal.alarm(0)
        signal.signal(signal.SIGALRM, self.old)


def _svc(seed, pre):
    from skyllh.core.random import RandomStateService
    rss = RandomStateService(seed)
    if pre:
        rss.random.random_sample(pre)
    return rss


_LAST = {}


def _run_trials(c, seed, pre, n, ncpu, nsig, mini, kwargs=None):
    """mini: None | {'seed', 'pre'} (a separate minimiser service) | 'same' (the data service itself is passed)"""
    ana = _mk_ana(c)
    rss = _svc(seed, pre)
    _LAST['rss'] = rss          # inspected after a raise
    mrss = rss if mini == 'same' else _svc(mini['seed'], mini['pre']) if mini else None
    with _Watchdog(120):
        rec = ana.do_trials(rss, n, ncpu=ncpu, mean_n_sig=nsig, minimizer_rss=mrss, **(kwargs or {}))
    return rec, rss, (None if mini == 'same' else mrss)


def _rows(rec):
    out = []
    for r in rec:
        ne, reps = int(r['n_ev']), int(r['n_reps'])
        out.append('%d;%d;%s;%d;%s' % (int(r['seed']), ne, flist(r['data'][:ne]), reps,
                                        flist(r['fit']) if reps > 0 else '-'))
    return '|'.join(out) if out else '-'


def _words(seed, n):
    return np.random.RandomState(seed).randint(0, 2 ** 32, size=n, dtype=np.uint32).astype(np.uint64)


def _state_at(seed, pos):
    r = np.random.RandomState(seed)
    if pos:
        r.bytes(4 * pos)
    return r.get_state()


def _same_state(a, b):
    """full legacy RandomState state: algorithm, key, position, has_gauss, cached_gaussian"""
    return (a[0] == b[0] and np.array_equal(a[1], b[1]) and a[2] == b[2] and a[3] == b[3]
            and (a[3] == 0 or a[4] == b[4]))


def _trials_req(case):
    c = case['cfg']
    seed, pre, n, ncpu, nsig, mini = case['seed'], case['pre'], case['n'], case['ncpu'], case['nsig'], case.get('mini')
    if mini is None and not _gen()['minimizerRssForwarded']:
        mini = 'same'      # the source forwards the data service to the minimiser: modelled as the aliased call
    B = 2 * pre + ncpu + 2 * n * (1 + c['maxev'] + nsig) + 8
    if mini == 'same':
        B += 2 * n * c['npar'] * c['maxrep']
    elif mini:
        B = max(B, 2 * mini['pre'] + 2 * n * c['npar'] * c['maxrep'] + 8)
    B = max(B, 2 * c['npar'] * c['maxrep'] + 8)
    seeds = [seed]
    if ncpu > 1:
        w = _words(seed, 2 * pre + ncpu)
        seeds += [int(x) for x in w[2 * pre: 2 * pre + ncpu - 1]]
    if mini and mini != 'same':
        seeds.append(mini['seed'])
    tabs = ';'.join('%d=%s' % (s, ','.join(str(int(x)) for x in _words(s, B))) for s in dict.fromkeys(seeds))
    return 'trials %d %d %d %d %s %d %d %s %d %d %s %s %s' % (
        n, ncpu, seed, 2 * pre, 'same' if mini == 'same' else ('%d:%d' % (mini['seed'], 2 * mini['pre'])) if mini else '-',
        c['maxev'], nsig, f2b(c['thr']), c['maxrep'], c['npar'], f2b(c['lo']), f2b(c['hi']), tabs)


def _trials_impl(case):
    try:
        rec, rss, mrss = _run_trials(case['cfg'], case['seed'], case['pre'], case['n'], case['ncpu'], case['nsig'], case.get('mini'))
    except MachineryError:
        raise
    except Exception as e:  # noqa
        return 'EXC:%s:%s' % (type(e).__name__, e), _LAST.get('rss'), None
    return _rows(rec), rss, mrss


def _trials_compare(case, impl, rss, mrss, model):
    if model.startswith('ERR:'):
        # do_trials raises (ncpu < 1, n = 0): only *that* it raises is compared, not the exception class — and the
        # state it leaves the caller's service in
        if not impl.startswith('EXC:'):
            return 'model: do_trials raises (%s), the implementation returned %s' % (model, impl[:200])
        sd, p = model.split(' ')[1].split(':')[1:]
        if rss is not None and not _same_state(rss.random.get_state(), _state_at(int(sd), int(p))):
            return 'data service after the raising do_trials(n=%d, ncpu=%d): model says word %s, the implementation is elsewhere' % (case['n'], case['ncpu'], p)
        return None
    if impl.startswith('EXC:'):
        return 'implementation raised %s' % impl[4:]
    parts = dict(x.split(':', 1) for x in model.split(' '))
    if impl != parts['rows']:
        a, b = impl.split('|'), parts['rows'].split('|')
        for k, (x, y) in enumerate(itertools.zip_longest(a, b)):
            if x != y:
                return 'trial %d: implementation row (seed;n_ev;data;n_reps;fit) %s, model %s' % (k, str(x)[:300], str(y)[:300])
    s, p = parts['rss'].split(':')
    if rss.seed != int(s) or not _same_state(rss.random.get_state(), _state_at(int(s), int(p))):
        return 'data service after the trials: model says seed %s at word %s, the implementation is elsewhere' % (s, p)
    if mrss is not None:
        s, p = parts['m'].split(':')
        if not _same_state(mrss.random.get_state(), _state_at(int(s), int(p))):
            return 'minimiser service after the trials: model says seed %s at word %s, the implementation is elsewhere' % (s, p)
    return None


def _bytes_eq(a, b):
    return a.dtype == b.dtype and a.shape == b.shape and a.tobytes() == b.tobytes()


def o_repro(ctx, case):
    """same seed and configuration -> bit-identical rows, whatever happened to the objects before"""
    c, seed, n, ncpu, nsig = case['cfg'], case['seed'], case['n'], case['ncpu'], case['nsig']
    from skyllh.core.random import RandomStateService
    try:
        skw = {'tag': 1}      # one dict object handed to several calls (generate_signal_events updates it)
        a, ra, _ = _run_trials(c, seed, 0, n, ncpu, nsig, None, kwargs={'sig_kwargs': skw})
        # unrelated earlier use of the analysis object and of other services: sequential runs, a run with
        # several processes, a run with an explicit minimiser service, an aliased run; draws of several kinds
        for (s2, n2, nsig2) in case.get('prior', []):
            _run_trials(c, s2, 1, n2, 1, nsig2, None, kwargs={'sig_kwargs': skw})
        if case.get('prior_par'):
            _run_trials(c, case['prior_par'], 0, 3, 2, 1, {'seed': 5, 'pre': 1})
            _run_trials(c, case['prior_par'], 2, 2, 1, 0, 'same')
        other = RandomStateService(seed)
        other.random.random_sample(5)
        other.random.normal(size=3)
        other.random.poisson(2.5, size=2)
        b, _, _ = _run_trials(c, seed, 0, n, ncpu, nsig, None, kwargs={'sig_kwargs': skw})
        # a service that was used (an odd number of normal() calls leaves a cached Gaussian) and is then
        # reseeded behaves like a new one
        rss = RandomStateService(case.get('other_seed', (seed + 17) % 2 ** 32))
        rss.random.random_sample(3)
        rss.random.normal()
        rss.reseed(seed)
        with _Watchdog(120):
            d = _mk_ana(c).do_trials(rss, n, ncpu=ncpu, mean_n_sig=nsig)
    except MachineryError:
        raise
    except Exception as e:  # noqa
        return 'do_trials(seed=%d, n=%d, ncpu=%d) raised %s: %s' % (seed, n, ncpu, type(e).__name__, e)
    if list(a['seed'][:1]) != [seed]:
        return 'the first trial of do_trials(seed=%d) records seed %r' % (seed, a['seed'][:1])
    if not _bytes_eq(a, b):
        k = [i for i in range(len(a)) if a[i:i + 1].tobytes() != b[i:i + 1].tobytes()][0]
        return ('do_trials(seed=%d, n=%d, ncpu=%d, mean_n_sig=%d, cfg=%r) is not reproducible: trial %d differs between two runs '
                'with the same seed (run 1: %s, run 2 after unrelated use of the objects: %s)' % (
                    seed, n, ncpu, nsig, c, k, _rows(a[k:k + 1]), _rows(b[k:k + 1])))
    if rss.seed != seed or not _bytes_eq(a, d):
        return ('do_trials on a service reseeded with %d differs from a new RandomStateService(%d) (n=%d, ncpu=%d, cfg=%r)'
                % (seed, seed, n, ncpu, c))
    if not _same_state(rss.random.get_state(), ra.random.get_state()):
        return ('a service reseeded with %d after normal() draws is left in a different generator state (position / cached Gaussian) '
                'than a new RandomStateService(%d) by the same do_trials call' % (seed, seed))
    return None


def o_nonint(ctx, case):
    """minimiser draws never shift the data-generation stream"""
    c, seed, n, ncpu, nsig = case['cfg'], case['seed'], case['n'], case['ncpu'], case['nsig']
    c2 = dict(c)
    c2.update(case['cfg2'])
    try:
        a, ra, _ = _run_trials(c, seed, case.get('pre', 0), n, ncpu, nsig, None)
        b, rb, _ = _run_trials(c2, seed, case.get('pre', 0), n, ncpu, nsig, case.get('mini2'))
    except MachineryError:
        raise
    except Exception as e:  # noqa
        return 'do_trials(seed=%d, n=%d, ncpu=%d) raised %s: %s' % (seed, n, ncpu, type(e).__name__, e)
    for k in range(n):
        if (a['seed'][k], a['n_ev'][k]) != (b['seed'][k], b['n_ev'][k]) or a['data'][k].tobytes() != b['data'][k].tobytes():
            return ('do_trials(seed=%d, n=%d, ncpu=%d, mean_n_sig=%d): the pseudo data of trial %d depends on the minimiser: with minimiser '
                    'settings %r (restarts so far %r) the data is %s, with %r / minimizer_rss=%r (restarts %r) it is %s' % (
                        seed, n, ncpu, nsig, k, {x: c[x] for x in case['cfg2']}, list(a['n_reps'][:k]),
                        flist(a['data'][k][:a['n_ev'][k]]), case['cfg2'], case.get('mini2'), list(b['n_reps'][:k]),
                        flist(b['data'][k][:b['n_ev'][k]])))
    if not _same_state(ra.random.get_state(), rb.random.get_state()):
        return 'do_trials(seed=%d): the data service is left at a position that depends on the minimiser settings' % seed
    return None


def o_fresh_min(ctx, case):
    """default minimizer_rss: the restarts of every trial read the stream of the recorded seed from its start"""
    c, seed, n, ncpu, nsig = case['cfg'], case['seed'], case['n'], case['ncpu'], case['nsig']
    try:
        a, _, _ = _run_trials(c, seed, case.get('pre', 0), n, ncpu, nsig, None)
    except MachineryError:
        raise
    except Exception as e:  # noqa
        return 'do_trials(seed=%d, n=%d, ncpu=%d) raised %s: %s' % (seed, n, ncpu, type(e).__name__, e)
    for k in range(n):
        reps = int(a['n_reps'][k])
        x = a['data'][k][:a['n_ev'][k]]
        want = int(np.count_nonzero(x < c['thr'])) % (c['maxrep'] + 1)
        if reps != want:
            return 'trial %d: %d minimiser repetitions, the stub minimiser needs %d' % (k, reps, want)
        if reps == 0:
            continue
        u = np.random.RandomState(int(a['seed'][k])).random_sample(reps * c['npar'])[-c['npar']:]
        fit = c['lo'] + u * (c['hi'] - c['lo'])
        if fit.tobytes() != np.asarray(a['fit'][k]).tobytes():
            return ('do_trials(seed=%d, n=%d, ncpu=%d): the restart initials of trial %d (seed %d, %d restarts) are %r, a new service of '
                    'that seed gives %r — the minimiser stream is not fresh/seeded from rss.seed' % (
                        seed, n, ncpu, k, int(a['seed'][k]), reps, [float(x) for x in a['fit'][k]], [float(x) for x in fit]))
    return None


def o_workers(ctx, case):
    """per-worker services: their seeds are the same in two runs from the same parent state, do not depend on
    the tasks or the configuration, are valid seeds, differ from the parent seed and from each other (else
    processes repeat each other's trials).  That they are the next raw words of the parent stream is what the
    model says for `randint(0, 2**32)`; it is checked by the `trials` correspondence, here it is a diagnostic."""
    c, seed, ncpu, nsig = case['cfg'], case['seed'], case['ncpu'], case['nsig']
    pre = case.get('pre', 0)
    try:
        a, ra, _ = _run_trials(c, seed, pre, ncpu * 2, ncpu, nsig, None)
        a2, _, _ = _run_trials(c, seed, pre, ncpu * 2, ncpu, nsig, None)
        c2 = dict(c)
        c2['thr'] = 1.0 - c['thr']
        b, rb, _ = _run_trials(c2, seed, pre, ncpu * 3, ncpu, 0, None)
    except MachineryError:
        raise
    except Exception as e:  # noqa
        return 'do_trials(seed=%d, ncpu=%d) raised %s: %s' % (seed, ncpu, type(e).__name__, e)
    sa = list(dict.fromkeys(int(s) for s in a['seed']))
    sa2 = list(dict.fromkeys(int(s) for s in a2['seed']))
    sb = list(dict.fromkeys(int(s) for s in b['seed']))
    if sa != sa2:
        return 'worker seeds with seed=%d, ncpu=%d differ between two runs from the same parent state: %r vs %r' % (seed, ncpu, sa, sa2)
    if sa != sb:
        return 'worker seeds with seed=%d, ncpu=%d depend on the tasks/configuration: %r vs %r' % (seed, ncpu, sa, sb)
    if len(sa) != ncpu or sa[0] != seed:
        return ('do_trials(seed=%d, ncpu=%d): rows carry the seeds %r, expected the parent seed and %d worker seeds different from it '
                'and from each other' % (seed, ncpu, sa, ncpu - 1))
    if any(not (0 <= s < 2 ** 32) for s in sa):
        return 'worker seed outside [0, 2**32)'
    w = _words(seed, 2 * pre + ncpu)
    ctx.count('diag:worker-seeds-are-next-words=%s' % (sa == [seed] + [int(x) for x in w[2 * pre: 2 * pre + ncpu - 1]]))
    return None


def o_times(ctx, case):
    """Livetime.draw_ontimes / TimeGenerator: same seed -> same times, exactly `size` deviates consumed"""
    from skyllh.core.livetime import Livetime
    from skyllh.core.random import RandomStateService
    from skyllh.core.times import LivetimeTimeGenerationMethod, TimeGenerator
    ivs, seed, size = case['ivs'], case['seed'], case['size']
    lt = Livetime(np.array(ivs, dtype=np.float64).reshape((-1, 2)))
    gen = TimeGenerator(LivetimeTimeGenerationMethod(lt))
    rss = RandomStateService(seed)
    a = gen.generate_times(rss, size)
    nxt = rss.random.random_sample()
    ctx.count('diag:generate_times-consumes-exactly-size-deviates=%s' % (nxt == np.random.RandomState(seed).random_sample(size + 1)[size]))
    other = RandomStateService((seed + 5) % 2 ** 32)
    gen.generate_times(other, 3)
    b = lt.draw_ontimes(RandomStateService(seed), size)
    if np.asarray(a).tobytes() != np.asarray(b).tobytes():
        return 'draw_ontimes with seed %d, size %d on %r gives different times in two runs' % (seed, size, ivs)
    return None


def _ivs_array(ivs, layout=None):
    """the (N,2) interval array in different memory layouts: C, Fortran order, a strided view, read-only"""
    a = np.array(ivs, dtype=np.float64).reshape((-1, 2))
    if layout == 'F':
        a = np.asfortranarray(a)
    elif layout == 'strided':
        big = np.zeros((2 * len(a), 4))
        big[::2, 1:3] = a
        a = big[::2, 1:3]
    elif layout == 'readonly':
        a.setflags(write=False)
    return a


def _mk_time_objs(ivs, layout=None):
    from skyllh.core.livetime import Livetime
    from skyllh.core.times import LivetimeTimeGenerationMethod, TimeGenerator
    lt = Livetime(_ivs_array(ivs, layout))
    return lt, TimeGenerator(LivetimeTimeGenerationMethod(lt))


def o_time_history(ctx, case):
    """histories of draws on ONE Livetime and ONE TimeGenerator (windowed / plain / different windows /
    new intervals assigned / interleaved services): every draw equals, bit for bit, the draw of untouched
    objects with a service in the same stream state"""
    from skyllh.core.random import RandomStateService
    ivs = case['ivs']
    lay = case.get('layout')
    lt, tg = _mk_time_objs(ivs, lay)
    svcs, used = {}, {}
    for k, st in enumerate(case['steps']):
        if 'set_ivs' in st:
            ivs = st['set_ivs']
            lt.uptime_mjd_intervals_arr = _ivs_array(ivs, lay)
            continue
        seed, size, win, name = st['seed'], st['size'], st.get('win'), st.get('svc')
        kw = {} if win is None else {'t_min': win[0], 't_max': win[1]}
        szf = np.int64(size) if st.get('size_form') == 'np' else size
        if name is None:
            rss, ref_rss = RandomStateService(seed), RandomStateService(seed)
        else:
            # a named service lives through the history; the reference service is brought to the same state
            if name not in svcs:
                svcs[name], used[name] = RandomStateService(seed), 0
            rss = svcs[name]
            ref_rss = RandomStateService(rss.seed)
            if used[name]:
                ref_rss.random.random_sample(used[name])
            used[name] += size
        flt, ftg = _mk_time_objs(ivs)
        try:
            if st.get('via') == 'lt':
                got = lt.draw_ontimes(rss=rss, size=szf, **kw)
                want = flt.draw_ontimes(rss=ref_rss, size=size, **kw)
            else:
                got = tg.generate_times(rss=rss, size=szf, **kw)
                want = ftg.generate_times(rss=ref_rss, size=size, **kw)
        except Exception as e:  # noqa
            return 'step %d of the history %r on intervals %r raised %s: %s' % (k, case['steps'], case['ivs'], type(e).__name__, e)
        got, want = np.asarray(got, dtype=np.float64), np.asarray(want, dtype=np.float64)
        if got.shape != (size,):
            return 'step %d: %d times requested, shape %r returned' % (k, size, got.shape)
        if got.tobytes() != want.tobytes():
            j = int(np.flatnonzero(got != want)[0]) if got.shape == want.shape and (got != want).any() else 0
            return ('times depend on earlier use of the Livetime/TimeGenerator object: intervals %r, history %r — step %d (%s, window %r, '
                    'seed %d, size %d) returns %r at position %d on the used object but %r on untouched objects with the same seed' % (
                        case['ivs'], case['steps'][:k], k, st.get('via', 'tg'), win, seed, size, float(got[j]), j, float(want[j])))
        if not _same_state(rss.random.get_state(), ref_rss.random.get_state()):
            return 'step %d: the service is left in a different state by the used and by the untouched object' % k
    return None


def o_choice_history(ctx, case):
    """ONE RandomChoice object called repeatedly (different sizes, different services, prescribed and real
    deviates; the returned array is overwritten by the caller before the next call): every call equals the
    call on a new RandomChoice object"""
    from skyllh.core.random import RandomChoice, RandomStateService
    p = make_ps(case['ps'])
    codes, items = make_items(case.get('items'), len(p))
    rc = RandomChoice(items=items, probabilities=p)
    p0, items0 = np.array(p, copy=True), items.copy()
    for k, st in enumerate(case['steps']):
        fresh = RandomChoice(items=make_items(case.get('items'), len(p))[1], probabilities=make_ps(case['ps']))
        try:
            if 'us' in st:
                got = rc(rss=_StubRSS(st['us']), size=len(st['us']))
                want = fresh(rss=_StubRSS(st['us']), size=len(st['us']))
                n = len(st['us'])
            else:
                got = rc(rss=RandomStateService(st['seed']), size=st['size'])
                want = fresh(rss=RandomStateService(st['seed']), size=st['size'])
                n = st['size']
        except MachineryError:
            raise
        except Exception as e:  # noqa
            return 'call %d of %r on one RandomChoice(%s) raised %s: %s' % (k, case['steps'], case['ps'], type(e).__name__, e)
        got, want = np.asarray(got), np.asarray(want)
        if got.shape != (n,) or not _arr_same(got, want):
            return ('RandomChoice(%s, items %s) depends on its earlier calls: after %r, call %d (%r) returns %r, a new object returns %r'
                    % (case['ps'], case.get('items'), case['steps'][:k], k, st, got.tolist()[:20], want.tolist()[:20]))
        if got.dtype != items0.dtype:
            return 'RandomChoice(items of dtype %s) returned an array of dtype %s' % (items0.dtype, got.dtype)
        # the caller owns the returned array: overwriting it must not reach the object
        if len(got) and got.flags.writeable:
            got[...] = got[::-1].copy()
            got[:1] = items0[:1]
        if not _arr_same(np.asarray(rc.probabilities), p0) or not _arr_same(np.asarray(rc.items), items0):
            return 'RandomChoice call %d (or overwriting its result) changed the stored items/probabilities' % k
    return None


def _rs_draw(r, kind, n):
    if kind == 'random':
        return r.random(n)
    if kind == 'uniform':
        return r.uniform(-2.0, 5.0, n)
    if kind == 'randint':
        return r.randint(0, 2 ** 32, n)
    if kind == 'poisson':
        return r.poisson(3.5, n)
    if kind == 'normal':
        return r.normal(0.0, 1.0, n)
    if kind == 'choice':
        return r.choice(7, n)
    raise ValueError(kind)


def o_rss_history(ctx, case):
    """ONE RandomStateService through a history of draws of several kinds and reseeds: after reseed(s) it
    reports seed s and behaves like RandomStateService(s); between reseeds it follows the stream of its seed"""
    from skyllh.core.random import RandomStateService
    forms = case.get('forms') or ['int']
    rss = RandomStateService(_seedform(case['seed'], forms[0]))
    if rss.seed != case['seed'] or type(rss.seed) is not int:
        return 'RandomStateService(%r) reports seed %r' % (_seedform(case['seed'], forms[0]), rss.seed)
    ref = np.random.RandomState(case['seed'])
    for k, st in enumerate(case['steps']):
        if 'reseed' in st:
            rss.reseed(_seedform(st['reseed'], forms[(k + 1) % len(forms)]))
            ref = RandomStateService(st['reseed']).random
            if rss.seed != st['reseed']:
                return 'after reseed(%d) the service reports seed %r' % (st['reseed'], rss.seed)
        else:
            a = np.asarray(_rs_draw(rss.random, st['kind'], st['n']))
            b = np.asarray(_rs_draw(ref, st['kind'], st['n']))
            if a.tobytes() != b.tobytes():
                return ('RandomStateService(%d) after the history %r: %d %s draws differ from those of a new service with the seed set last'
                        % (case['seed'], case['steps'][:k], st['n'], st['kind']))
    return None


# ------------------------------------------------------------------------------------------
# deepening round: trials that may raise, RandomChoice as an object (validation), get_ncpu, labels

def _rowsE(rec):
    out = []
    for r in rec:
        ne = int(r['n_ev'])
        out.append('%d;%d;%s;%d;%s' % (int(r['seed']), ne, flist(r['data'][:ne]), int(r['n_reps']), flist(r['xmin'])))
    return '|'.join(out) if out else '-'


def _cfgE(case):
    c = dict(case['cfg'])
    c.update(need_mod=case['need_mod'], norep=case['norep'], delta=case['delta'])
    return c


def _trialsE_req(case):
    c = case['cfg']
    seed, pre, n, nsig, mini = case['seed'], case['pre'], case['n'], case['nsig'], case.get('mini')
    B = 2 * pre + 2 * n * (1 + c['maxev'] + nsig) + 8
    per = 2 * n * c['npar'] * c['maxrep']
    if mini == 'same':
        B += per
    elif mini:
        B = max(B, 2 * mini['pre'] + per + 8)
    B = max(B, 2 * c['npar'] * c['maxrep'] + 8)
    seeds = [seed] + ([mini['seed']] if mini and mini != 'same' else [])
    tabs = ';'.join('%d=%s' % (sd, ','.join(str(int(x)) for x in _words(sd, B))) for sd in dict.fromkeys(seeds))
    return 'trialsE %d %d %d %s %d %d %s %d %d %s %s %d %d %s %s' % (
        n, seed, 2 * pre, 'same' if mini == 'same' else ('%d:%d' % (mini['seed'], 2 * mini['pre'])) if mini else '-',
        c['maxev'], nsig, f2b(c['thr']), c['maxrep'], c['npar'], f2b(c['lo']), f2b(c['hi']),
        case['need_mod'], case['norep'], f2b(case['delta']), tabs)


def _trialsE_impl(case):
    """(rows | 'RAISED', data service, minimiser service): the services are inspected also after a raise"""
    import warnings
    ana = _mk_ana(_cfgE(case))
    rss = _svc(case['seed'], case['pre'])
    mini = case.get('mini')
    mrss = rss if mini == 'same' else _svc(mini['seed'], mini['pre']) if mini else None
    try:
        with _Watchdog(120), warnings.catch_warnings():
            warnings.simplefilter('ignore')
            rec = ana.do_trials(rss, case['n'], ncpu=1, mean_n_sig=case['nsig'], minimizer_rss=mrss)
    except MachineryError:
        raise
    except Exception as e:  # noqa
        return 'RAISED:' + type(e).__name__, rss, (None if mini == 'same' else mrss)
    return _rowsE(rec), rss, (None if mini == 'same' else mrss)


def _trialsE_compare(case, impl, model, count=None):
    rows, rss, mrss = impl
    parts = dict(x.split(':', 1) for x in model.split(' '))
    if count:
        count('branch:trialsSeqE:' + ('raise' if parts['err'] == '1' else 'no-raise'))
        if parts['err'] == '1':
            count('branch:trialsSeqE:raise-at-' + ('first-trial' if parts['rows'] == '-' else 'later-trial'))
            count('branch:restartLoop:gives-up-' + ('maxrep-or-not-repeatable' if case['norep'] else 'maxrep'))
        for r in ([] if parts['rows'] == '-' else parts['rows'].split('|')):
            f = r.split(';')
            count('branch:restartLoop:converged-' + ('at-first-attempt' if f[3] == '0' else 'after-restarts'))
            xs = [b2f(t) for t in f[4].split(',')] if f[4] != '-' else []
            for x in xs:
                count('branch:clipOne:' + ('at-lower' if x == case['cfg']['lo'] else 'at-upper' if x == case['cfg']['hi'] else 'inside'))
    if parts['err'] == '1':
        if not rows.startswith('RAISED:'):
            return 'model: a trial raises (minimiser does not converge), the implementation returned rows %s' % rows[:200]
    else:
        if rows.startswith('RAISED:'):
            return 'implementation raised %s, model returns rows %s' % (rows[7:], parts['rows'][:200])
        if rows != parts['rows']:
            a, b = rows.split('|'), parts['rows'].split('|')
            for k, (x, y) in enumerate(itertools.zip_longest(a, b)):
                if x != y:
                    return 'trial %d: implementation row (seed;n_ev;data;n_reps;xmin) %s, model %s' % (k, str(x)[:300], str(y)[:300])
    sd, p = parts['rss'].split(':')
    if rss.seed != int(sd) or not _same_state(rss.random.get_state(), _state_at(int(sd), int(p))):
        return ('data service after %s: model says seed %s at word %s, the implementation is elsewhere'
                % ('the raise' if parts['err'] == '1' else 'the trials', sd, p))
    if mrss is not None:
        sd, p = parts['m'].split(':')
        if not _same_state(mrss.random.get_state(), _state_at(int(sd), int(p))):
            return ('minimiser service after %s: model says seed %s at word %s, the implementation is elsewhere'
                    % ('the raise' if parts['err'] == '1' else 'the trials', sd, p))
    return None


def o_error_poststate(ctx, case):
    """a raising trial: what it consumed stays consumed — a retry with the same data service continues the data
    stream (same data as the trial after the raising one would have got), other services are untouched, and the
    data of the trials completed before the raise is the data of a run whose minimiser never raises"""
    import warnings
    c = _cfgE(case)
    calm = dict(c, need_mod=c['maxrep'] + 1, norep=0, delta=0.0)
    n, seed, nsig = case['n'], case['seed'], case['nsig']
    try:
        ref, _, _ = _run_trials(calm, seed, case['pre'], n + 1, 1, nsig, None)
    except MachineryError:
        raise
    except Exception as e:  # noqa
        return 'reference run raised %s: %s' % (type(e).__name__, e)
    ana = _mk_ana(c)
    rss = _svc(seed, case['pre'])
    other = _svc(seed, 3)
    st_other = other.random.get_state()
    done = 0
    with warnings.catch_warnings():
        warnings.simplefilter('ignore')
        for k in range(n + 1):
            try:
                with _Watchdog(120):
                    r = ana.do_trial(rss, mean_n_sig=nsig)
            except MachineryError:
                raise
            except ValueError:
                r = None
            except Exception as e:  # noqa
                return 'do_trial raised %s: %s' % (type(e).__name__, e)
            if r is not None and (int(r['n_ev'][0]) != int(ref['n_ev'][k]) or r['data'][0].tobytes() != ref['data'][k].tobytes()):
                return ('do_trial number %d on one data service (seed %d), after %d earlier trials of which some raised in the minimiser, '
                        'generated other pseudo data than trial %d of a run whose minimiser never raises (cfg %r)' % (k, seed, k, k, c))
            done += 1
    if not _same_state(other.random.get_state(), st_other):
        return 'a service not passed to do_trial changed'
    return None


def o_kwargs_history(ctx, case):
    """ONE sig_kwargs dict, ONE bkg_kwargs dict and ONE mean_n_bkg_list handed to a sequence of do_trials / do_trial /
    generate_pseudo_data calls with different mean_n_sig: every call returns what the same call returns when it is
    given new containers with the original content (pseudo data is a function of seed and arguments, not of what
    the containers were used for before)"""
    import copy
    c = case['cfg']
    ana = _mk_ana(c)
    proto = {'sig_kwargs': case.get('sig_kwargs'), 'bkg_kwargs': case.get('bkg_kwargs'), 'mean_n_bkg_list': case.get('mean_n_bkg_list')}
    used = copy.deepcopy(proto)

    def call(st, cont):
        rss = _svc(st['seed'], 0)
        kw = {k: v for k, v in cont.items() if v is not None}
        with _Watchdog(120):
            if st['via'] == 'do_trials':
                r = ana.do_trials(rss, st['n'], ncpu=1, mean_n_sig=st['nsig'], **kw)
                return r['n_ev'].tobytes() + r['data'].tobytes() + r['xmin'].tobytes()
            if st['via'] == 'do_trial':
                r = ana.do_trial(rss, mean_n_sig=st['nsig'], **kw)
                return r['n_ev'].tobytes() + r['data'].tobytes() + r['xmin'].tobytes()
            (n_sig, n_list, ev_list) = ana.generate_pseudo_data(rss, mean_n_sig=st['nsig'], **kw)
            return repr((n_sig, n_list)).encode() + np.asarray(ev_list[0]['x']).tobytes()
    for k, st in enumerate(case['steps']):
        try:
            got = call(st, used)
            want = call(st, copy.deepcopy(proto))
        except MachineryError:
            raise
        except Exception as e:  # noqa
            return 'call %d of %r raised %s: %s' % (k, case['steps'], type(e).__name__, e)
        if got != want:
            return ('pseudo data depends on what the option containers were used for before: with ONE sig_kwargs=%r / bkg_kwargs=%r / '
                    'mean_n_bkg_list=%r object handed to the calls %r, call %d (%s, seed %d, mean_n_sig=%r) returns other data than the '
                    'same call with new containers of the same content (cfg %r)' % (
                        proto['sig_kwargs'], proto['bkg_kwargs'], proto['mean_n_bkg_list'], case['steps'][:k], k, st['via'], st['seed'],
                        st['nsig'], c))
    if used['mean_n_bkg_list'] != proto['mean_n_bkg_list'] or used['bkg_kwargs'] != proto['bkg_kwargs']:
        return 'the mean_n_bkg_list / bkg_kwargs handed in were modified: %r' % (used,)
    return None


def _atol(dtype):
    return float(max(np.sqrt(np.finfo(np.float64).eps), np.sqrt(np.finfo(dtype).eps)))


def _cobj_args(case):
    """(items argument, probabilities argument, codes, items_form, p_ndim) from the JSON-able case"""
    p = np.array([unj(x) for x in case['p']], dtype=np.float64).astype(case.get('dtype', 'float64'))
    codes = np.array(case['codes'], dtype=np.int64)
    items = _item_values(case.get('ikind', 'offset'), codes)
    lay = case.get('layout', 'plain')
    if lay == 'strided':           # non-contiguous views of larger arrays
        bp = np.zeros(2 * len(p) + 1, dtype=p.dtype)
        bp[1::2] = p
        p = bp[1::2]
        bi = np.zeros(2 * len(items) + 1, dtype=items.dtype)
        bi[::2][:len(items)] = items
        items = bi[::2][:len(items)]
    elif lay == 'readonly':
        p.setflags(write=False)
        items.setflags(write=False)
    elif lay == 'reversed':
        p = p[::-1][::-1]
        items = items[::-1][::-1]
    form, pnd = case.get('form', 1), case.get('pndim', 1)
    if form == 'na':
        items = items.tolist()
    elif form == 2:
        items = items.reshape((1, -1))
    elif form == 0:
        items = np.array(7)
    if pnd == 2:
        p = p.reshape((1, -1))
    return items, p, codes, form, pnd


def unj(x):
    return float('nan') if x == 'nan' else float('inf') if x == 'inf' else float('-inf') if x == '-inf' else float(x)


def _cobj_req(case):
    items, p, codes, form, pnd = _cobj_args(case)
    with np.errstate(all='ignore'):
        s = float(np.sum(p))
    return 'cobj %d %d %s %s %d %s %s %s %s' % (
        1 if _gen()['sideRight'] else 0, 1 if _gen()['probSumTestRejectsNaN'] else 0, f2b(_atol(p.dtype)),
        'na' if form == 'na' else str(form), pnd, f2b(s), ilist(codes), flist(np.asarray(p, dtype=np.float64).ravel()),
        flist(case['us']))


def _cobj_impl(case):
    import warnings
    from skyllh.core.random import RandomChoice
    items, p, codes, form, pnd = _cobj_args(case)
    with warnings.catch_warnings(), np.errstate(all='ignore'):
        warnings.simplefilter('ignore')
        try:
            rc = RandomChoice(items=items, probabilities=p)
        except Exception as e:  # noqa
            return 'REJ:' + type(e).__name__
        size = case.get('size_form', 'int')
        n = len(case['us'])
        size = np.int64(n) if size == 'np' else n
        try:
            res = rc(rss=_StubRSS(case['us']), size=size)
        except MachineryError:
            raise
        except Exception as e:  # noqa
            return 'EXC:' + type(e).__name__
    return np.asarray(res)


def _cobj_compare(case, impl, model, count=None):
    if count:
        count('branch:construct:' + (model if model.startswith('REJ') else 'accepted'))
    if model.startswith('REJ:'):
        if isinstance(impl, str) and impl.startswith('REJ:'):
            if count:
                count('diag:rejection-class-%s' % ('as-modelled' if impl[4:].lower().startswith(model[4:]) else 'other'))
            return None
        return 'model: the constructor rejects (%s), the implementation accepted the arguments' % model
    if isinstance(impl, str) and impl.startswith('REJ:'):
        return 'implementation rejected the arguments (%s), the model accepts them' % impl[4:]
    m = model[3:]
    if isinstance(impl, str):
        return None if m == 'ERR' else 'implementation raised %s in the call, model returns %s' % (impl[4:], m[:100])
    if m == 'ERR':
        return 'model: the call raises, implementation returned %r' % (impl[:8].tolist(),)
    want = _item_values(case.get('ikind', 'offset'), [int(t) for t in m.split(',')] if m != '-' else [])
    if not _arr_same(impl, want):
        return 'implementation returns %r, the model %r' % (impl[:8].tolist(), want[:8].tolist())
    return None


def o_choice_nan(ctx, case):
    """probabilities containing NaN / inf: either the constructor refuses them, or every returned item has a
    strictly positive probability"""
    import warnings
    from skyllh.core.random import RandomChoice
    p = np.array([unj(x) for x in case['p']], dtype=case.get('dtype', 'float64'))
    with warnings.catch_warnings(), np.errstate(all='ignore'):
        warnings.simplefilter('ignore')
        try:
            rc = RandomChoice(items=np.arange(len(p)) + 17, probabilities=p)
        except Exception:  # noqa
            return None
        try:
            res = np.asarray(rc(rss=_StubRSS(case['us']), size=len(case['us'])))
        except MachineryError:
            raise
        except Exception as e:  # noqa
            return 'RandomChoice accepted the probabilities %r and the call raised %s: %s' % (case['p'], type(e).__name__, e)
    for u, it in zip(case['us'], res):
        i = int(it) - 17
        if not (0 <= i < len(p)) or not p[i] > 0:
            return ('RandomChoice accepted the probabilities %r (not a probability vector) and returns item %d of probability %r for the '
                    'uniform deviate %r' % (case['p'], i, float(p[i]) if 0 <= i < len(p) else None, u))
    return None


def _ncpu_impl(case):
    from skyllh.core.config import Config
    from skyllh.core.multiproc import get_ncpu
    cfg = Config()
    cfg['multiproc']['ncpu'] = case['cfg']
    try:
        return 'ok:%d' % get_ncpu(cfg, case['loc'])
    except Exception:  # noqa
        return 'ERR'


def _ncpu_req(case):
    o = lambda v: '-' if v is None else str(v)   # noqa
    return 'ncpu %s %s' % (o(case['cfg']), o(case['loc']))


def _ncpu_compare(case, impl, model, count=None):
    if count:
        count('branch:getNcpu:' + ('raises' if model.startswith('ERR') else 'local' if case['loc'] is not None else
                                   'config' if case['cfg'] is not None else 'default'))
    if (model.startswith('ERR')) != (impl == 'ERR') or (not model.startswith('ERR') and impl != model):
        return 'get_ncpu(cfg ncpu=%r, local_ncpu=%r): implementation %s, model %s' % (case['cfg'], case['loc'], impl, model)
    return None


def _labels_run(case):
    """labels of the rows an extension appends (file seeds, service seed, prior draws, ncpu) with the synthetic analysis"""
    from skyllh.core.utils.analysis import extend_trial_data_file
    c = case['cfg']
    ana = _mk_ana(c)
    rec0, _, _ = _run_trials(c, 0, 0, 1, 1, 0, None)
    td = np.zeros(len(case['file']), dtype=rec0.dtype)
    td['seed'] = case['file']
    rss = _svc(case['cur'], case['pre'])
    with _Watchdog(120):
        out = extend_trial_data_file(ana, rss, case['n'], td, ncpu=case['ncpu'])
    return list(dict.fromkeys(int(x) for x in out['seed'][len(td):])), rss


def _labels_req(case):
    cand = sorted(set(range(_gen()['seedStart'], _gen()['seedStart'] + len(case['file']) + 2)) | {case['cur']})
    tabs = ';'.join('%d=%s' % (sd, ','.join(str(int(x)) for x in _words(sd, 2 * case['pre'] + case['ncpu'] + 2))) for sd in cand)
    return 'labels %d %s %d %d %d %d %s' % (_gen()['seedStart'], ilist(case['file']), case['cur'], 2 * case['pre'], case['n'], case['ncpu'], tabs)


def _labels_impl(case):
    try:
        return ilist(_labels_run(case)[0])
    except MachineryError:
        raise
    except Exception as e:  # noqa
        return 'EXC:' + type(e).__name__


def _labels_compare(case, impl, model, count=None):
    if count:
        count('branch:extendLabels:' + ('reseeded' if case['cur'] in case['file'] else 'continues-at-position'))
        count('branch:extendLabels:' + ('one-process' if case['ncpu'] <= 1 else 'several-processes'))
    if impl != model:
        return ('extension of a file with seeds %r by service seed %d (%d prior draws), ncpu=%d: the new rows carry the seeds %s, model %s'
                % (case['file'], case['cur'], case['pre'], case['ncpu'], impl, model))
    return None


def o_extend_labels(ctx, case):
    """every seed label of the appended rows is new to the file (the property read literally, several processes)"""
    try:
        labels, rss = _labels_run(case)
    except MachineryError:
        raise
    except Exception as e:  # noqa
        return 'extend_trial_data_file raised %s: %s' % (type(e).__name__, e)
    bad = [x for x in labels if x in set(case['file'])]
    if bad:
        return ('extend_trial_data_file(ncpu=%d): file seeds %r, service seed %d -> the appended rows carry the seeds %r; %r already occur in '
                'the file (worker seeds are drawn from the new seed\'s stream and never compared with the file)'
                % (case['ncpu'], case['file'], case['cur'], labels, bad))
    return None


# every branch of the modelled functions that the driver can take; a branch never hit in a run is an untied branch
_BRANCHES = [
    'search:side-right', 'chooseCoded:returns', 'extendSeed:seed-in-file', 'extendSeed:seed-not-in-file',
    'firstUnused:first-candidate-free', 'firstUnused:later-candidate', 'doTrial:no-minimiser-service',
    'doTrial:explicit-minimiser-service', 'doTrial:aliased-minimiser-service', 'parTrials:sequential',
    'parTrials:several-processes', 'parTrials:empty-worker-chunk', 'doTrials:returns', 'doTrials:raises-ncpu',
    'doTrials:raises-no-trials', 'trialsSeqE:raise', 'trialsSeqE:no-raise', 'trialsSeqE:raise-at-first-trial',
    'trialsSeqE:raise-at-later-trial', 'restartLoop:converged-at-first-attempt', 'restartLoop:converged-after-restarts',
    'restartLoop:gives-up-maxrep', 'restartLoop:gives-up-maxrep-or-not-repeatable', 'clipOne:at-lower', 'clipOne:at-upper',
    'clipOne:inside', 'construct:REJ:type', 'construct:REJ:value', 'construct:accepted', 'getNcpu:local', 'getNcpu:config',
    'getNcpu:default', 'getNcpu:raises', 'extendFile:returns', 'extendFile:raises-index', 'extendFile:raises-runtime',
    'extendFile:reseeds', 'extendFile:keeps-seed', 'tstep:set-intervals', 'tstep:draw-long-lived-service', 'tstep:draw-new-service',
    'drawWin:no-window', 'drawWin:window', 'drawWin:one-sided-window', 'sigMean:no-dict', 'sigMean:dict-without-mean',
    'sigMean:dict-with-mean', 'gridOf:scalar', 'gridOf:r2', 'gridOf:r3', 'gridOf:array', 'extendLabels:reseeded', 'extendLabels:continues-at-position',
    'extendLabels:one-process', 'extendLabels:several-processes', 'extendMany:history', 'extendShared:history',
    'mk:ok-seeded', 'mk:ok-entropy', 'mk:raises-type', 'mk:raises-value', 'reseed:returns-seeded', 'reseed:returns-entropy',
    'reseed:raises-type', 'reseed:raises-value', 'rssDraw:advances', 'setRandom:assigned', 'setRandom:raises-type',
    'generateSignalEvents:raises-value', 'generateSignalEvents:raises-index', 'generateSignalEvents:zero-mean',
    'generateSignalEvents:injects', 'generatePseudoData:returns', 'generatePseudoData:raises', 'mergeEv:onto-background',
    'mergeEv:into-empty-slot', 'injectAll:several-datasets',
]
# branches of the model that no valid input reaches, with the theorem that says so
_UNREACHABLE = {
    'cdf:empty-array (IndexError)': 'c08_construct_never_index_error',
    'construct:REJ:index': 'c08_construct_never_index_error',
    'chooseCoded:raises (IndexError in items[idxs])': 'c08_choice_in_range / c08_choice_object_correct',
    'firstUnused:fuel-exhausted': 'C08.exists_unused (pigeonhole) in c08_next_seed_fresh',
    'search:side-left': 'c08_choice_side_for_current_source (source constant)',
}


def _branches_old(count, c, m):
    k = c['kind']
    if k == 'choice':
        count('branch:search:side-' + ('right' if _gen()['sideRight'] else 'left'))
        count('branch:chooseCoded:' + ('raises' if ' spec:ERR' in m else 'returns'))
    elif k == 'seed':
        inf = c['cur'] in c['used']
        count('branch:extendSeed:seed-' + ('in-file' if inf else 'not-in-file'))
        if inf:
            new = dict(x.split(':') for x in m.split(' '))['new']
            count('branch:firstUnused:' + ('first-candidate-free' if int(new) == _gen()['seedStart'] else 'later-candidate'))
    elif k == 'hist':
        count('branch:extendMany:history')
    elif k == 'histshared':
        count('branch:extendShared:history')
    elif k == 'trials':
        if m.startswith('ERR:'):
            count('branch:doTrials:raises-' + ('ncpu' if m.startswith('ERR:value') else 'no-trials'))
            return
        count('branch:doTrials:returns')
        count('branch:doTrial:' + ('aliased' if c.get('mini') == 'same' else 'explicit' if c.get('mini') else 'no') + '-minimiser-service')
        count('branch:parTrials:' + ('several-processes' if c['ncpu'] > 1 else 'sequential'))
        if c['ncpu'] > 1 and c['n'] < c['ncpu']:
            count('branch:parTrials:empty-worker-chunk')


def _grid_py(g):
    """JSON grid description -> the argument as the caller would write it"""
    k, v = g['form'], g['v']
    if k == 'scalar':
        return {'float': float, 'int': int, 'np': np.float64}[g.get('num', 'float')](v)
    if k in ('r2', 'r3'):
        return tuple(v) if g.get('seq', 'tuple') == 'tuple' else list(v)
    return np.array(v, dtype=np.float64)


def _grid_tok(g):
    k, v = g['form'], g['v']
    if k == 'scalar':
        return 's:' + f2b(v)
    if k in ('r2', 'r3'):
        return k + ':' + flist(v)
    return 'a:' + flist(v)


def _grid_len(g):
    k, v = g['form'], g['v']
    if k == 'scalar':
        return 1
    if k == 'array':
        return len(v)
    return len(np.arange(v[0], v[1] + 1, v[2] if k == 'r3' else 1))


def _extfile_req(case):
    c = case['cfg']
    n, pre, file = case['n'], case['pre'], case['file']
    npts = max(1, _grid_len(case['g1']) * _grid_len(case['g2']))
    B = 2 * pre + 2 * n * npts * (1 + c['maxev'] + 6) + 2 * c['npar'] * c['maxrep'] + 8
    cand = sorted(set(range(_gen()['seedStart'], _gen()['seedStart'] + len(file) + 2)) | {case['cur']})
    tabs = ';'.join('%d=%s' % (sd, ','.join(str(int(x)) for x in _words(sd, B))) for sd in cand)
    mini = case.get('mini')
    if mini:
        cand = sorted(set(cand) | {mini['seed']})
        B = max(B, 2 * mini['pre'] + 2 * n * npts * c['npar'] * c['maxrep'] + 8)
        tabs = ';'.join('%d=%s' % (sd, ','.join(str(int(x)) for x in _words(sd, B))) for sd in cand)
    kw = case.get('sigkw')
    kwt = '-' if kw is None else 'e' if kw == 'e' else 'm:' + f2b(kw['mean'])
    return 'extfile %d %d %d %d %d %s %d %s %s %s %s %d %s %d %d %s %s %s' % (
        _gen()['seedStart'], n, case.get('ncpu', 1), case['cur'], 2 * pre, ('%d:%d' % (mini['seed'], 2 * mini['pre'])) if mini else '-',
        1 if _gen()['sigKwargsOverwritesMean'] else 0, kwt, ilist(file), _grid_tok(case['g1']), _grid_tok(case['g2']),
        c['maxev'], f2b(c['thr']), c['maxrep'], c['npar'], f2b(c['lo']), f2b(c['hi']), tabs)


def _extfile_impl(case):
    from skyllh.core.utils.analysis import extend_trial_data_file
    c = case['cfg']
    ana = _mk_ana(c)
    rec0, _, _ = _run_trials(c, 0, 0, 1, 1, 0, None)
    td = np.zeros(len(case['file']), dtype=rec0.dtype)
    td['seed'] = case['file']
    td0 = td.copy()
    rss = _svc(case['cur'], case['pre'])
    mini = case.get('mini')
    mrss = _svc(mini['seed'], mini['pre']) if mini else None
    kw = {'minimizer_rss': mrss} if mini else {}
    skw = case.get('sigkw')
    if skw is not None:
        # ONE dict object of the caller, handed by create_trial_data_file to do_trials for every grid point
        kw['sig_kwargs'] = {'tag': 1} if skw == 'e' else {'tag': 1, 'mean': skw['mean']}
        kw['bkg_kwargs'] = {'tag': 2}
    try:
        with _Watchdog(120):
            out = extend_trial_data_file(ana, rss, case['n'], td, mean_n_sig=_grid_py(case['g1']), mean_n_sig_null=_grid_py(case['g2']),
                                         ncpu=case.get('ncpu', 1), **kw)
    except MachineryError:
        raise
    except Exception as e:  # noqa
        return 'RAISED:' + type(e).__name__, (rss, mrss)
    if td.tobytes() != td0.tobytes() or out[:len(td)].tobytes() != td0.tobytes():
        return 'CHANGED-OLD-ROWS', (rss, mrss)
    return (_rows(out[len(td):]), ilist(out['seed'])), (rss, mrss)


def _extfile_compare(case, impl, model, count=None):
    res, (rss, mrss) = impl
    parts = dict(x.split(':', 1) for x in model.split(' '))
    if count:
        count('branch:extendFile:' + ('raises-' + parts['ERR'] if 'ERR' in parts else 'returns'))
        count('branch:extendFile:' + ('reseeds' if case['cur'] in case['file'] else 'keeps-seed'))
        count('branch:gridOf:%s' % case['g1']['form'])
        count('branch:gridOf:%s' % case['g2']['form'])
        skw = case.get('sigkw')
        count('branch:sigMean:' + ('no-dict' if skw is None else 'dict-without-mean' if skw == 'e' else 'dict-with-mean'))
    if 'ERR' in parts:
        if not (isinstance(res, str) and res.startswith('RAISED:')):
            return 'model: extend_trial_data_file raises (%s), the implementation returned' % parts['ERR']
    else:
        if isinstance(res, str):
            return 'implementation: %s; the model returns %d new rows' % (res, parts['rows'].count('|') + 1)
        if res[0] != parts['rows']:
            a, b = res[0].split('|'), parts['rows'].split('|')
            if len(a) != len(b):
                return 'extension appended %d rows, model %d' % (len(a), len(b))
            k = [i for i in range(len(a)) if a[i] != b[i]][0]
            return 'appended row %d: implementation %s, model %s' % (k, a[k][:200], b[k][:200])
        if res[1] != parts['file']:
            return 'seed column of the new file %s, model %s' % (res[1][:200], parts['file'][:200])
    sd, p = parts['rss'].split(':')
    if case.get('ncpu', 1) == 1 and (rss.seed != int(sd) or not _same_state(rss.random.get_state(), _state_at(int(sd), int(p)))):
        return 'caller\'s service after extend_trial_data_file: model says seed %s at word %s, the implementation is elsewhere' % (sd, p)
    if mrss is not None:
        sd, p = parts['m'].split(':')
        if not _same_state(mrss.random.get_state(), _state_at(int(sd), int(p))):
            return 'minimiser service after extend_trial_data_file: model says seed %s at word %s, the implementation is elsewhere' % (sd, p)
    return None


def _th_plan(case):
    """model steps for a time history: long-lived services are refs 0..k-1, every per-step service is the scratch
    ref k reseeded just before its draw (= a new RandomStateService(seed))"""
    names = sorted({st['svc'] for st in case['steps'] if st.get('svc')})
    first = {}
    for st in case['steps']:
        if st.get('svc') and st['svc'] not in first:
            first[st['svc']] = st['seed']
    ref = {nm: i for i, nm in enumerate(names)}
    scratch = len(names)
    ops, consumed = [], {}
    for st in case['steps']:
        if 'set_ivs' in st:
            ops.append('s,' + ';'.join(f2b(x) for iv in st['set_ivs'] for x in iv))
            continue
        win = st.get('win')
        a = 'n' if not win or win[0] is None else f2b(win[0])
        b = 'n' if not win or win[1] is None else f2b(win[1])
        if st.get('svc'):
            r = ref[st['svc']]
            consumed[first[st['svc']]] = consumed.get(first[st['svc']], 0) + st['size']
        else:
            r = scratch
            ops.append('r,%d,%d' % (scratch, st['seed']))
            consumed[st['seed']] = max(consumed.get(st['seed'], 0), st['size'])
        ops.append('d,%d,%s,%s,%d' % (r, a, b, st['size']))
    svcs = ','.join('%d:0' % first[nm] for nm in names) + (',' if names else '') + '0:0'
    tabs = ';'.join('%d=%s' % (sd, ','.join(str(int(x)) for x in _words(sd, 2 * k + 4))) for sd, k in consumed.items())
    return names, first, ops, svcs, tabs


def _timehist_req(case):
    names, first, ops, svcs, tabs = _th_plan(case)
    return 'timehist %s %s %s %s' % (flist([x for iv in case['ivs'] for x in iv]), svcs, '/'.join(ops), tabs or '-')


def _timehist_impl(case):
    """the history on ONE Livetime + ONE TimeGenerator with real services; times of every draw step"""
    from skyllh.core.random import RandomStateService
    lay = case.get('layout')
    lt, tg = _mk_time_objs(case['ivs'], lay)
    svcs, out = {}, []
    for st in case['steps']:
        if 'set_ivs' in st:
            lt.uptime_mjd_intervals_arr = _ivs_array(st['set_ivs'], lay)
            continue
        win = st.get('win')
        kw = {} if win is None else {'t_min': win[0], 't_max': win[1]}
        if st.get('svc'):
            rss = svcs.setdefault(st['svc'], RandomStateService(st['seed']))
        else:
            rss = RandomStateService(st['seed'])
        try:
            t = (lt.draw_ontimes if st.get('via') == 'lt' else tg.generate_times)(rss=rss, size=st['size'], **kw)
            out.append(flist(np.asarray(t, dtype=np.float64)))
        except MachineryError:
            raise
        except Exception:  # noqa
            out.append('ERR')
    return '/'.join(out), svcs


def _timehist_compare(case, impl, model, count=None):
    times, svcs = impl
    parts = dict(x.split(':', 1) for x in model.split(' '))
    if count:
        for st in case['steps']:
            if 'set_ivs' in st:
                count('branch:tstep:set-intervals')
            else:
                w = st.get('win')
                count('branch:drawWin:' + ('no-window' if w is None else 'window' if None not in w else 'one-sided-window'))
                count('branch:tstep:draw-' + ('long-lived-service' if st.get('svc') else 'new-service'))
    if count:
        count('diag:timehist-bit-identical=%s' % (times == parts['times']))
    if times != parts['times']:
        # verdict relation: same number of times per draw, each within a rounding-sized tolerance (a re-ordered
        # float expression in draw_ontimes moves the last bits; another interval set or deviate moves the times by
        # far more); bit identity is a diagnostic only
        edges = [x for iv in case['ivs'] for x in iv] + [x for st in case['steps'] if 'set_ivs' in st for iv in st['set_ivs'] for x in iv]
        tol = 1e-9 * max(1.0, max(edges) - min(edges)) + 1e-12 * max(abs(x) for x in edges)
        a, b = times.split('/'), parts['times'].split('/')
        for k in range(max(len(a), len(b))):
            x, y = (a[k:k + 1] or ['-'])[0], (b[k:k + 1] or ['-'])[0]
            if x == y:
                continue
            bad = x in ('ERR', '-') or y in ('ERR', '-')
            if not bad:
                fx, fy = parse_flist(x), parse_flist(y)
                bad = len(fx) != len(fy) or any(not abs(p - q) <= tol for p, q in zip(fx, fy))
            if bad:
                return ('draw number %d of the history %r on one Livetime/TimeGenerator (intervals %r): implementation %s, model %s'
                        % (k, case['steps'], case['ivs'], x[:120], y[:120]))
    names, first, _, _, _ = _th_plan(case)
    fin = parts['svcs'].split(',')
    for i, nm in enumerate(names):
        sd, p = fin[i].split(':')
        if not _same_state(svcs[nm].random.get_state(), _state_at(int(sd), int(p))):
            return 'service %s after the history: model says seed %s at word %s, the implementation is elsewhere' % (nm, sd, p)
    return None


# ------------------------------------------------------------------------------------------
# round 7: RandomStateService as an object (argument forms, refused seeds, label vs generator)

_BAD_SEEDS = {'word': 'x', 'list': [1, 2], 'obj': object, 'cplx': 1j, 'empty': ''}


def _rss_arg(a, form):
    """a = None | 'bad' | int; form chooses how it is handed over (only forms that hold the value exactly)"""
    if a is None:
        return None
    if a == 'bad':
        v = _BAD_SEEDS[form if form in _BAD_SEEDS else 'word']
        return v() if v is object else v
    if form == 'npu32' and not 0 <= a < 2 ** 32:
        form = 'np64'
    return _seedform(a, form if form in SEED_FORMS else 'int')


def _rss_draw_words(r, w, via):
    """consume exactly w 32-bit words (numpy's bytes(0) would consume one)"""
    if w % 2 == 0 and (via == 'random' or w == 0):
        r.random_sample(w // 2)
    else:
        r.bytes(4 * w)


def _rss_tok(a):
    return 'n' if a is None else 'b' if a == 'bad' else 'i:%d' % a


def _rssobj_req(case):
    st = '/'.join(('r,' + _rss_tok(x['reseed'])) if 'reseed' in x else
                  ('x,b' if x['setrandom'] == 'bad' else 'x,%d,%d' % tuple(x['setrandom'])) if 'setrandom' in x else
                  'd,%d' % x['draw'] for x in case['steps']) or '-'
    return 'rssobj %d %d %s %s' % (1 if _gen()['reseedAssignsAfterSeeding'] else 0, 2 ** 32, _rss_tok(case['seed']), st)


def _rss_exc(e):
    return 'ERR:type' if isinstance(e, TypeError) else 'ERR:value' if isinstance(e, ValueError) else 'ERR:' + type(e).__name__


def _rss_label(v):
    return 'n' if v is None else str(v) if type(v) is int else 'non-int:%r' % (v,)


def _rssobj_impl(case):
    """-> (answer in the driver's format without gen, the service or None)"""
    from skyllh.core.random import RandomStateService
    forms = case.get('forms') or ['int']
    try:
        rss = RandomStateService(_rss_arg(case['seed'], forms[0]))
    except Exception as e:  # noqa
        return 'ctor:%s steps:- seed:-' % _rss_exc(e), None
    outs = []
    for k, x in enumerate(case['steps']):
        if 'reseed' in x:
            try:
                rss.reseed(_rss_arg(x['reseed'], forms[(k + 1) % len(forms)]))
                o = 'ok'
            except Exception as e:  # noqa
                o = _rss_exc(e)
        elif 'setrandom' in x:
            try:
                if x['setrandom'] == 'bad':
                    rss.random = [np.random.default_rng(1), None, object(), np.random][k % 4]
                else:
                    g = np.random.RandomState(x['setrandom'][0])
                    _rss_draw_words(g, x['setrandom'][1], 'bytes')
                    rss.random = g
                o = 'ok'
            except Exception as e:  # noqa
                o = _rss_exc(e)
        else:
            _rss_draw_words(rss.random, x['draw'], x.get('via'))
            o = 'ok'
        outs.append('%s=%s' % (o, _rss_label(rss.seed)))
    return 'ctor:ok steps:%s seed:%s' % (','.join(outs) or '-', _rss_label(rss.seed)), rss


def _rssobj_compare(case, impl, model, count=None):
    ans, rss = impl
    head, gen = model.rsplit(' gen:', 1)
    if count:
        count('branch:mk:' + ('ok-entropy' if case['seed'] is None and head.startswith('ctor:ok') else
                              'ok-seeded' if head.startswith('ctor:ok') else 'raises-' + head.split(' ')[0][9:]))
        for x, o in zip(case['steps'], head.split(' ')[1][6:].split(',') if head.startswith('ctor:ok') else []):
            if 'setrandom' in x:
                count('branch:setRandom:' + ('assigned' if o.startswith('ok') else 'raises-type'))
            elif 'reseed' in x:
                count('branch:reseed:' + ('returns-entropy' if o.startswith('ok') and x['reseed'] is None else
                                          'returns-seeded' if o.startswith('ok') else 'raises-' + o.split('=')[0][4:]))
            else:
                count('branch:rssDraw:advances')
    if ans != head:
        return 'RandomStateService history %r: implementation %s, model %s' % (case, ans, head)
    if rss is not None and gen.startswith('s:'):
        _, sd, pos = gen.split(':')
        if not _same_state(rss.random.get_state(), _state_at(int(sd), int(pos))):
            return ('RandomStateService history %r: the generator is not on the stream of seed %s at word %s as the model says'
                    % (case, sd, pos))
    return None


def o_rss_label(ctx, case):
    """after EVERY step of a history on one service (draws, reseeds incl. refused seeds / forms) the label describes the
    generator: rss.seed is None or a seed a new service accepts, and that new service, advanced by the words drawn since the
    last accepted (re)seeding, is in the same state; a reseed that raised changed nothing"""
    from skyllh.core.random import RandomStateService
    forms = case.get('forms') or ['int']
    try:
        rss = RandomStateService(_rss_arg(case['seed'], forms[0]))
    except (TypeError, ValueError):
        return None
    since = 0
    for k, x in enumerate(case['steps']):
        before = (rss.seed, rss.random.get_state())
        raised = None
        if 'reseed' in x:
            try:
                rss.reseed(_rss_arg(x['reseed'], forms[(k + 1) % len(forms)]))
                since = 0
            except (TypeError, ValueError) as e:
                raised = e
        else:
            _rss_draw_words(rss.random, x['draw'], x.get('via'))
            since += x['draw']
        hist = [case['seed']] + case['steps'][:k + 1]
        if raised is not None and (rss.seed != before[0] or not _same_state(rss.random.get_state(), before[1])):
            return ('RandomStateService history %r: the last reseed raised %s but the service changed: seed %r -> %r'
                    % (hist, type(raised).__name__, before[0], rss.seed))
        if rss.seed is None:
            continue
        try:
            ref = RandomStateService(rss.seed)
        except Exception as e:  # noqa
            return ('RandomStateService history %r: the service reports seed %r, which no service can be created with (%s)'
                    % (hist, rss.seed, type(e).__name__))
        _rss_draw_words(ref.random, since, 'bytes')
        if not _same_state(rss.random.get_state(), ref.random.get_state()):
            return ('RandomStateService history %r: the service reports seed %r but its generator is not on that stream'
                    % (hist, rss.seed))
    return None


# round 7: per-dataset merge of generate_pseudo_data / generate_signal_events (multi-dataset fixture c08_r7_fixtures)

def _pseudo_req(case):
    nw = 2 * case['pre'] + case['nds'] * (2 + 2 * case['maxev']) + 8 * len(case['keys']) + 16
    return 'pseudo %s %d %d %d %s %d %d %d=%s' % (case['mode'], case['nds'], case['mean'], case['maxev'], ilist(case['keys']),
                                                 case['seed'], 2 * case['pre'], case['seed'],
                                                 ','.join(str(int(x)) for x in _words(case['seed'], nw)))


def _pseudo_call(case, rss, ana=None):
    from harness import c08_r7_fixtures as X
    ana = ana or X.pseudo_ana(case['nds'])
    mean = {'int': int, 'float': float, 'np': np.float64}[case.get('mform', 'int')](case['mean'])
    skw = {'keys': tuple(case['keys'])}
    mode = case['mode']
    if mode == 'p':
        return ana.generate_pseudo_data(rss, mean_n_sig=mean, sig_kwargs=skw, bkg_kwargs={'maxev': case['maxev']})
    if mode == 's':
        return ana.generate_signal_events(rss, mean, sig_kwargs=skw)
    if mode.startswith('l:'):
        return ana.generate_signal_events(rss, mean, sig_kwargs=skw, n_events_list=[0] * int(mode[2:]))
    return ana.generate_signal_events(rss, mean, sig_kwargs=skw, events_list=[None] * int(mode[2:]))


def _pseudo_fmt(res):
    ns, nl, el = res
    evs = ['N' if e is None else 'E' if len(e) == 0 else flist(np.asarray(e['x'], dtype=np.float64)) for e in el]
    return 'nsig:%d nev:%s ev:%s' % (int(ns), ilist([int(x) for x in nl]), '/'.join(evs))


def _pseudo_impl(case):
    rss = _svc(case['seed'], case['pre'])
    try:
        return _pseudo_fmt(_pseudo_call(case, rss)), rss
    except ValueError:
        return 'ERR:value', rss
    except IndexError:
        return 'ERR:index', rss


def _pseudo_compare(case, impl, model, count=None):
    ans, rss = impl
    if count:
        count('branch:generateSignalEvents:' + ('raises-value' if model == 'ERR:value' else 'raises-index' if model == 'ERR:index' else
                                                'zero-mean' if case['mean'] == 0 else 'injects'))
        if case['mode'] == 'p':
            count('branch:generatePseudoData:' + ('raises' if model.startswith('ERR') else 'returns'))
        if not model.startswith('ERR') and case['mean'] != 0:
            count('branch:mergeEv:' + ('onto-background' if case['mode'] == 'p' else 'into-empty-slot'))
            if len(case['keys']) > 1:
                count('branch:injectAll:several-datasets')
    if model.startswith('ERR'):
        return None if ans == model else 'pseudo data %r: implementation %s, model %s' % (case, ans[:200], model)
    head, words = model.rsplit(' words:', 1)
    if ans != head:
        return 'pseudo data %r: implementation %s, model %s' % (case, ans[:300], head[:300])
    if not _same_state(rss.random.get_state(), _state_at(case['seed'], 2 * case['pre'] + int(words))):
        return 'pseudo data %r: the service is not at word %d as the model says' % (case, 2 * case['pre'] + int(words))
    return None


def o_pseudo_repro(ctx, case):
    """generate_pseudo_data / generate_signal_events on a multi-dataset analysis: the same seed gives the same result on a
    new service after unrelated calls on the SAME analysis object (other strengths, other datasets, other services), the
    counts describe the events, and with mean 0 the data is the background part of every dataset"""
    from harness import c08_r7_fixtures as X
    ana = X.pseudo_ana(case['nds'])
    try:
        a = _pseudo_call(case, _svc(case['seed'], case['pre']), ana)
    except (ValueError, IndexError):
        return None
    a_fmt = _pseudo_fmt(a)
    other = dict(case, mode='p', mean=case['mean'] + 1, keys=list(range(case['nds'])))
    _pseudo_call(other, _svc(case['seed'] + 1 if case['seed'] < 2 ** 32 - 1 else 0, 1), ana)
    r2 = _svc(case['seed'], case['pre'])
    b = _pseudo_call(case, r2, ana)
    if _pseudo_fmt(b) != a_fmt:
        return 'generate_%s (%r): a second run with the same seed after an unrelated call on the analysis differs' % (
            'pseudo_data' if case['mode'] == 'p' else 'signal_events', case)
    for d, (n, e) in enumerate(zip(a[1], a[2])):
        if (0 if e is None else len(e)) != n:
            return 'generate_pseudo_data (%r): n_events_list[%d] = %d but the dataset holds %d events' % (case, d, n, 0 if e is None else len(e))
    if case['mode'] == 'p' and case['mean'] != 0:
        z = _pseudo_call(dict(case, mean=0), _svc(case['seed'], case['pre']), ana)
        for d, (e0, e1) in enumerate(zip(z[2], a[2])):
            x0, x1 = np.asarray(e0['x']), np.asarray(e1['x'])
            if len(x1) < len(x0) or x1[:len(x0)].tobytes() != x0.tobytes():
                return ('generate_pseudo_data (%r): the background events of dataset %d change with the signal strength '
                        '(same seed, mean 0 vs %d)' % (case, d, case['mean']))
    return None


_NEW = {
    'pseudo': (_pseudo_req, _pseudo_impl, _pseudo_compare),
    'rssobj': (_rssobj_req, _rssobj_impl, _rssobj_compare),
    'timehist': (_timehist_req, _timehist_impl, _timehist_compare),
    'extfile': (_extfile_req, _extfile_impl, _extfile_compare),
    'trialsE': (_trialsE_req, _trialsE_impl, _trialsE_compare),
    'cobj': (_cobj_req, _cobj_impl, _cobj_compare),
    'ncpu': (_ncpu_req, _ncpu_impl, _ncpu_compare),
    'labels': (_labels_req, _labels_impl, _labels_compare),
}


# ------------------------------------------------------------------------------------------
# correspondence as a replayable oracle

def o_corr(ctx, case):
    k = case['kind']
    if k == 'choice':
        p = make_ps(case['ps'])
        return _choice_compare(_impl_choice(p, case['us'], case.get('items')),
                               ctx.driver('C08', [_choice_req(p, case['us'], case.get('items'))])[0], case.get('items'))
    if k == 'seed':
        m = dict(x.split(':') for x in ctx.driver('C08', [_seed_req(case)])[0].split(' '))
        return _seed_compare(case, _impl_seed(case['used'], case['cur'], case.get('glue')), m)
    if k == 'hist':
        return _hist_compare(case, ctx.driver('C08', [_hist_req(case)])[0])
    if k == 'histshared':
        return _hist_compare(case, ctx.driver('C08', [_hist_req(case)])[0])
    if k == 'trials':
        impl, rss, mrss = _trials_impl(case)
        return _trials_compare(case, impl, rss, mrss, ctx.driver('C08', [_trials_req(case)])[0])
    if k in _NEW:
        req, impl, cmp = _NEW[k]
        return cmp(case, impl(case), ctx.driver('C08', [req(case)])[0])
    raise ValueError(k)


def _seed_req(case):
    return 'seed %d %d %s' % (_gen()['seedStart'], case['cur'], ilist(case['used']))


def _seed_compare(case, impl, m):
    want = m['new'] if _gen()['seedSearchRepaired'] else m['old']
    if impl != want:
        return 'file seeds %r, rss.seed=%d: implementation continues with seed %s, model %s' % (case['used'], case['cur'], impl, want)
    return None


def _hist_req(case):
    if case['kind'] == 'histshared':
        return 'histshared %d %s %d %s' % (_gen()['seedStart'], ilist(case['file']), case['cur'], ilist(case['rows']))
    return 'hist %d %s %s %s' % (_gen()['seedStart'], ilist(case['file']), ilist(case['curs']), ilist(case['rows']))


def _hist_compare(case, model):
    try:
        if case['kind'] == 'histshared':
            impl = ilist(_impl_hist_shared(case['file'], case['cur'], case.get('pre', 0), case['rows']))
        else:
            impl = ilist(_impl_hist(case['file'], case['curs'], case['rows']))
    except MachineryError:
        raise
    except Exception as e:  # noqa
        impl = 'EXC:' + type(e).__name__
    if impl != model and case['kind'] == 'histshared':
        return 'extensions %r of file %r with one service (initial seed %d): implementation ran with seeds %s, model %s' % (
            case['rows'], case['file'], case['cur'], impl, model)
    if impl != model:
        return 'history of extensions %r on file %r: implementation ran with seeds %s, model %s' % (
            list(zip(case['curs'], case['rows'])), case['file'], impl, model)
    return None


ORACLES = {
    'choice': o_choice, 'choice_stream': o_choice_stream, 'seed': o_seed, 'seed_history': o_seed_history,
    'repro': o_repro, 'nonint': o_nonint, 'fresh_min': o_fresh_min, 'workers': o_workers, 'times': o_times,
    'time_history': o_time_history, 'choice_history': o_choice_history, 'rss_history': o_rss_history,
    'seed_shared': o_seed_shared, 'extend_real': o_extend_real,
    'error_poststate': o_error_poststate, 'choice_nan': o_choice_nan, 'extend_labels': o_extend_labels,
    'kwargs_history': o_kwargs_history, 'rss_label': o_rss_label, 'pseudo_repro': o_pseudo_repro,
    'corr': o_corr,
}

_SIG = {
    'choice': 'C08/RandomChoice.__call__/', 'choice_stream': 'C08/RandomChoice.__call__/stream-',
    'seed': 'C08/extend_trial_data_file/', 'seed_history': 'C08/extend_trial_data_file/history-',
    'repro': 'C08/do_trials/', 'nonint': 'C08/do_trial/', 'fresh_min': 'C08/do_trial/minimizer-stream-',
    'workers': 'C08/parallelize/worker-seeds-', 'times': 'C08/draw_ontimes/',
    'time_history': 'C08/draw_ontimes/history-', 'choice_history': 'C08/RandomChoice.__call__/history-',
    'rss_history': 'C08/RandomStateService/history-', 'rss_label': 'C08/RandomStateService.reseed/', 'pseudo_repro': 'C08/generate_pseudo_data/multi-dataset-',
    'error_poststate': 'C08/do_trial/raise-poststate-', 'choice_nan': 'C08/RandomChoice.__init__/accepts-',
    'extend_labels': 'C08/extend_trial_data_file/worker-label-',
    'kwargs_history': 'C08/generate_pseudo_data/reused-option-containers-',
    'seed_shared': 'C08/extend_trial_data_file/shared-service-', 'extend_real': 'C08/extend_trial_data_file/real-analysis-',
}


def _mode(name, res):
    import re
    m = re.search(r'raised (\w+)', res)
    if m:
        return 'raises-' + m.group(1)
    if name == 'choice':
        if 'of probability' in res:
            return 'zero-probability-item'
        if 'bracket' in res:
            return 'wrong-item'
        if 'rejected' in res:
            return 'rejects-valid'
        return 'draw-dependence'
    if name == 'seed':
        return 'seed-reused' if 'already occurs' in res else ('stream-not-reseeded' if 'not generated from' in res else 'wrong-seed')
    if name == 'repro':
        return 'reseed-differs' if 'reseeded' in res else 'not-reproducible'
    if name == 'nonint':
        return 'minimizer-shifts-data-stream'
    if name == 'choice_nan':
        return 'non-finite-probabilities'
    if name == 'extend_labels':
        return 'in-file'
    if name == 'error_poststate':
        return 'data-shifted'
    if name == 'rss_label':
        return 'label-without-stream'
    return 'fails'


def _report(ctx, name, oc, res, **kw):
    ctx.violation(name, oc, res, signature=_SIG[name] + _mode(name, res), **kw)


# ------------------------------------------------------------------------------------------

def _gen_ivs(rng):
    t, ivs = rng.choice([0.0, 55000.0, -3.0]), []
    for _ in range(rng.randrange(2, 7)):
        a = t + rng.choice([0.0, 0.5, 1.0, 2.0])
        b = a + rng.choice([0.25, 1.0, 1.0, 3.0])
        ivs.append([a, b])
        t = b
    return ivs


def _gen_window(rng, ivs):
    """window with positive on-time inside; borders inside up-time intervals, in gaps or outside"""
    i = rng.randrange(len(ivs))
    j = rng.randrange(i, len(ivs))
    t0 = rng.choice([ivs[i][0], ivs[i][0] + 0.25 * (ivs[i][1] - ivs[i][0]), 0.5 * (ivs[i][0] + ivs[i][1]), ivs[i][0] - 0.125])
    t1 = rng.choice([ivs[j][1], ivs[j][1] - 0.25 * (ivs[j][1] - ivs[j][0]), ivs[j][1] + 0.125])
    if i == j and not t0 < t1:
        t0, t1 = ivs[i][0], ivs[i][1]
    r = rng.random()
    return [None, t1] if r < 0.1 else [t0, None] if r < 0.2 else [t0, t1]


def _gen_time_steps(rng, ivs, forced):
    seeds = [0, 1, 2, 7, 42, 12345, 2 ** 32 - 1]

    def draw(win, svc=None):
        return {'seed': rng.choice(seeds), 'size': rng.choice([1, 2, 5, 40]), 'win': win, 'via': rng.choice(['lt', 'tg', 'tg']),
                'svc': svc}
    W = lambda: _gen_window(rng, ivs)   # noqa
    if forced == 0:
        return [draw(W()), draw(None)]
    if forced == 1:
        return [draw(None), draw(W()), draw(None)]
    if forced == 2:
        return [draw(W()), draw(W()), draw(None), draw(W())]
    steps = []
    for _ in range(rng.randrange(2, 8)):
        r = rng.random()
        if r < 0.12:
            ivs = _gen_ivs(rng)
            steps.append({'set_ivs': ivs})
        else:
            steps.append(draw(_gen_window(rng, ivs) if rng.random() < 0.5 else None,
                              svc=rng.choice([None, None, 'a', 'b'])))
    return steps


def _gen_cfg(rng):
    lo, hi = rng.choice([(0.0, 1.0), (0.0, 1.0), (-1.0, 3.0), (2.5, 10.0), (1.0, 4.0), (-180.0, 180.0)])
    return dict(maxev=rng.choice([1, 2, 4, 6]), thr=rng.choice([0.25, 0.5, 0.5, 0.75]), maxrep=rng.choice([1, 2, 3]),
                npar=rng.choice([1, 2, 3]), lo=lo, hi=hi)


def run(ctx):  # noqa: C901
    rng = ctx.rng
    ctx.rule = ('choice: probability vectors of 1..1e5 items (dense, with leading/trailing/scattered zeros, one-hot, exact binary '
                'fractions, tiny weights, sums 1±5e-9, float32) probed with deviates 0, 1-2^-53, at/next to cdf entries, random, ties; '
                'item arrays: identity, permuted, offset, repeated ints, floats, strings, structured rows (returned ITEMS compared); '
                'seeds: every subset of {0..6} x every current seed 0..7 (exhaustive) plus random files with duplicates, histories of '
                'extensions with new and with ONE reused service, extension through the real do_trials with mean_n_sig grids; streams: a real '
                'LLHRatioAnalysis (stub generators + restart-stub MinimizerImpl) on the real do_trial/do_trials/parallelize/'
                'do_trial_with_given_pseudo_data/llhratio.maximize/Minimizer, seeds incl. 0, prior draws on the services, n 0..6, ncpu 0..3 '
                '(real processes), no / explicit / aliased minimiser service; fresh-vs-used histories on one Livetime+TimeGenerator, one '
                'RandomChoice, one RandomStateService; distinct by full input')
    ctx.trusted_base += ['correspondence harness harness/props/c08.py (exact comparison of indices, seeds, rows)',
                         'numpy.random.RandomState (MT19937): handed to the model as word tables; its determinism is numpy\'s',
                         'numpy cumsum/searchsorted/argsort semantics re-implemented in Model/Rng.lean',
                         'IEEE rounding is outside the theorems (ordered-field statements about the choice)']
    ctx.assumptions += ['probabilities satisfy RandomChoice._assert_probabilities (non-negative, sum 1 within tolerance, no NaN)',
                        'non-interference needs a minimiser service that is not the data service itself (hypothesis of c08_noninterference; '
                        'the aliased call is modelled, compared and shown to interfere: c08_aliased_service_interferes)',
                        'choice oracle: the cumulative bracket is checked up to sum*1e-12*n (exact fractions, n <= 4000) or sum*1e-9 (float '
                        'prefix sums, n > 4000): a one-off index error between two items lighter than that is not seen',
                        'how many deviates a call consumes and that worker seeds are the raw next words are diagnostics, not verdicts',
                        'hypotheses left in the theorems that the code does not establish: uniform deviates lie in [0,1) (numpy contract of '
                        'random()/uniform()); an explicitly passed minimiser service is another object than the data service; parameter bounds '
                        'satisfy lo <= hi; grid steps are positive; a trial file has fewer than 2^32 rows; services are seeded (rss.seed is an '
                        'int: with seed=None do_trial raises TypeError when it records the seed); one process for the statement that all '
                        'appended labels are new (false for several: open finding)',
                        'hypotheses discharged by theorems about the code-shaped model: non-negative weights / positive sum / matching lengths '
                        '(c08_validate_establishes_guard, c08_choice_object_correct), at least one row per extension (c08_extend_file_fresh), '
                        'transparent cache of the time service (c08_time_code_transparent)',
                        'the error paths of several processes (a worker that raises) belong to C09 and are not modelled here',
                        'trial-file seeds are the seeds of the generating services (non-negative integers)']
    cases, oracle_cases = [], []
    seeds0 = [0, 1, 2, 3, 7, 42, 12345, 2 ** 31, 2 ** 32 - 1]

    # ---- RandomChoice
    sizes = [1, 1, 2, 2, 3, 5, 8, 10, 33, 100, 1000, 3000, 10000, 100000]
    n_ch = ctx.n(70, 1500)
    for j in range(n_ch):
        n = sizes[j % len(sizes)] if j < (2 if ctx.thorough else 1) * len(sizes) else rng.choice(sizes[:11])
        mode = rng.choice(['dense', 'zeros', 'zeros', 'zeros', 'onehot', 'dyadic', 'dyadic', 'tiny'])
        spec = {'n': n, 'mode': mode, 'seed': rng.randrange(2 ** 31)}
        if mode == 'zeros':
            spec.update(zfrac=rng.choice([0.2, 0.5, 0.9]), lead=rng.choice([0, 1, 2]) if n > 2 else 0,
                        trail=rng.choice([0, 1, 3]) if n > 3 else 0)
        if mode == 'onehot':
            spec['at'] = rng.randrange(n)
        if mode not in ('dyadic',) and rng.random() < 0.3:
            spec['scale'] = rng.choice([1.0 - 5e-9, 1.0 + 5e-9, 1.0 - 1e-12])
        if rng.random() < 0.3:
            spec['dtype'] = 'float32'
        p = make_ps(spec)
        us = _probe_us(rng, p, 4 if n <= 1000 else 2)
        ctx.count('choice:mode=%s' % mode)
        ctx.count('choice:dtype=%s' % spec.get('dtype', 'float64'))
        ctx.count('choice:n=%s' % ('1' if n == 1 else '2-10' if n <= 10 else '11-1000' if n <= 1000 else '>1000'))
        ispec = {'kind': ITEM_KINDS[j % len(ITEM_KINDS)] if j < 3 * len(ITEM_KINDS) else rng.choice(ITEM_KINDS), 'seed': rng.randrange(2 ** 31)}
        ctx.count('choice:items=%s' % ispec['kind'])
        c = {'kind': 'choice', 'ps': spec, 'us': us, 'items': ispec}
        cases.append(c)
        oracle_cases.append(('choice', {'ps': spec, 'us': us, 'items': ispec}))
        if j % 5 == 0:
            oracle_cases.append(('choice_stream', {'ps': spec, 'items': ispec, 'seed': rng.choice([0, 1, 2, 7, 12345, 2 ** 32 - 1]), 'size': rng.choice([1, 2, 5, 50])}))
    # small explicit vectors: zero in front, in the middle, at the end
    for ps in ([0.0, 1.0], [1.0, 0.0], [0.5, 0.0, 0.5], [0.0, 0.25, 0.0, 0.0, 0.75, 0.0], [1.0], [0.25, 0.25, 0.25, 0.25]):
        spec = {'explicit': ps}
        us = [0.0, 0.25, 0.5, 0.75, float(np.nextafter(1.0, 0.0)), float(np.nextafter(0.5, 0.0)), 0.5]
        ispec = {'kind': rng.choice(ITEM_KINDS[1:]), 'seed': rng.randrange(2 ** 31)}
        cases.append({'kind': 'choice', 'ps': spec, 'us': us, 'items': ispec})
        oracle_cases.append(('choice', {'ps': spec, 'us': us, 'items': ispec}))

    # ---- unused-seed search: all subsets of {0..6} x all current seeds 0..7
    for r in range(0, 8):
        for sub in itertools.combinations(range(7), r):
            for cur in range(8):
                if not sub and cur > 1:
                    continue
                used = list(sub)
                gl = {'td': ['nd', 'rec'][len(cases) % 2], 'n': ['int', 'np', 'float'][len(cases) % 3], 'seed': SEED_FORMS[len(cases) % 5]}
                cases.append({'kind': 'seed', 'used': used, 'cur': cur, 'glue': gl})
                oracle_cases.append(('seed', {'used': used, 'cur': cur, 'rows': 1, 'glue': gl}))
                ctx.count('seed:cur_in_file' if cur in sub else 'seed:cur_new')
    ctx.extra['seed_subsets_of_0_6_exhaustive'] = True
    for _ in range(ctx.n(40, 3000)):
        m = rng.choice([1, 2, 3, 5, 9, 20])
        top = rng.choice([3, 6, 12, 30])
        used = [rng.randrange(top) for _ in range(m)]
        if rng.random() < 0.2:
            used.append(rng.choice([2 ** 31, 2 ** 32 - 1, 10 ** 6]))
        cur = rng.choice(used) if rng.random() < 0.7 else rng.randrange(top + 2)
        gl = {'td': rng.choice(['nd', 'rec']), 'n': rng.choice(['int', 'np', 'float']), 'seed': rng.choice(SEED_FORMS)}
        cases.append({'kind': 'seed', 'used': used, 'cur': cur, 'glue': gl})
        oracle_cases.append(('seed', {'used': used, 'cur': cur, 'rows': rng.choice([1, 2, 4]), 'glue': gl}))
        ctx.count('seed:random-file')
    for _ in range(ctx.n(25, 1500)):
        file = [rng.randrange(4) for _ in range(rng.randrange(0, 5))]
        k = rng.randrange(1, 7)
        curs = [rng.randrange(5) for _ in range(k)]
        rows = [rng.choice([1, 1, 2, 3]) for _ in range(k)]
        cases.append({'kind': 'hist', 'file': file, 'curs': curs, 'rows': rows})
        oracle_cases.append(('seed_history', {'file': file, 'curs': curs, 'rows': rows}))
        ctx.count('seed:history-len=%d' % k)

    for _ in range(ctx.n(25, 800)):
        file = [rng.randrange(5) for _ in range(rng.randrange(0, 6))]
        cur = rng.choice(file) if file and rng.random() < 0.7 else rng.randrange(6)
        rows = [rng.choice([1, 1, 2, 3]) for _ in range(rng.randrange(2, 7))]
        hc = {'kind': 'histshared', 'file': file, 'cur': cur, 'pre': rng.choice([0, 0, 3]), 'rows': rows}
        cases.append(hc)
        oracle_cases.append(('seed_shared', {k: v for k, v in hc.items() if k != 'kind'}))
        ctx.count('seed:shared-service-history-len=%d' % len(rows))

    # ---- streams
    seeds = [0, 1, 2, 3, 7, 42, 12345, 2 ** 31, 2 ** 32 - 1]
    for _ in range(ctx.n(4, 40)):
        oracle_cases.append(('extend_real', {'cfg': _gen_cfg(rng), 'seed': rng.choice([0, 1, 2, 7]), 'n': rng.choice([1, 2, 3]),
                                             'grid': rng.choice([[0, 0], [0, 1], [1, 2]]), 'k': rng.choice([1, 2, 3]), 'pre': rng.choice([0, 2])}))
    one_word = (_gen()['workerSeedLow'], _gen()['workerSeedHigh']) == (0, 2 ** 32)
    if not one_word:
        ctx.note('C08: worker seeds are drawn with randint(%d, %d): exact model comparison of multi-process runs skipped, '
                 'property oracles only' % (_gen()['workerSeedLow'], _gen()['workerSeedHigh']))
    n_tr = ctx.n(45, 1500)
    n_par = ctx.n(8, 150)
    for j in range(n_tr):
        c = _gen_cfg(rng)
        par = j < n_par
        case = {'kind': 'trials', 'cfg': c, 'seed': seeds[j % len(seeds)] if j < 2 * len(seeds) else rng.choice(seeds + [rng.randrange(2 ** 32)]),
                'pre': rng.choice([0, 0, 1, 3, 10]), 'n': rng.randrange(1, 7), 'ncpu': rng.choice([2, 3]) if par else 1,
                'nsig': rng.choice([0, 0, 1, 3]),
                'mini': {'seed': rng.choice(seeds), 'pre': rng.choice([0, 2, 5])} if rng.random() < 0.4 else None}
        if j % 9 == 4:
            case['mini'] = 'same'       # minimizer_rss is rss: the one call in which restarts do shift the data stream
        if j % 23 == 11:
            case['n'] = 0               # error paths of do_trials: only "raises" is compared
        if j % 23 == 17:
            case['ncpu'] = 0
        cases.append(case)
        ctx.count('trials:ncpu=%d' % case['ncpu'])
        ctx.count('trials:n=%s' % ('0' if case['n'] == 0 else '>=1'))
        ctx.count('trials:minimizer_rss=%s' % ('aliased' if case['mini'] == 'same' else 'given' if case['mini'] else 'None'))
        if case['n'] == 0 or case['ncpu'] == 0:
            continue
        if case['ncpu'] > 1 and not one_word:
            cases.pop()         # the driver's one-word model of randint(0, 2**32) does not apply: oracles only
        ctx.count('trials:prior-draws=%s' % ('yes' if case['pre'] else 'no'))
        base = {'cfg': c, 'seed': case['seed'], 'n': case['n'], 'ncpu': case['ncpu'], 'nsig': case['nsig']}
        if j % 3 == 0 or par:
            oc = dict(base)
            oc['prior'] = [[rng.choice(seeds), rng.randrange(1, 4), rng.choice([0, 2])] for _ in range(rng.randrange(0, 3))]
            oc['other_seed'] = rng.choice(seeds)
            if par:
                oc['prior_par'] = rng.choice(seeds)
            oracle_cases.append(('repro', oc))
        if j % 3 == 1 or par:
            oc = dict(base)
            oc['pre'] = case['pre']
            oc['cfg2'] = {'thr': rng.choice([x for x in (0.0, 0.25, 0.5, 0.75, 1.0) if x != c['thr']]),
                          'npar': rng.choice([1, 2, 3, 4]), 'maxrep': rng.choice([1, 2, 3, 5])}
            oc['mini2'] = {'seed': rng.choice(seeds), 'pre': rng.choice([0, 1])} if rng.random() < 0.3 else None
            oracle_cases.append(('nonint', oc))
        if j % 3 == 2 or par:
            oc = dict(base)
            oc['pre'] = case['pre']
            oracle_cases.append(('fresh_min', oc))
    cases.append({'kind': 'trials', 'cfg': _gen_cfg(rng), 'seed': rng.choice(seeds), 'pre': 0, 'n': 1, 'ncpu': 3, 'nsig': 1, 'mini': None})
    for j in range(ctx.n(3, 20)):
        oracle_cases.append(('workers', {'cfg': _gen_cfg(rng), 'seed': rng.choice(seeds), 'ncpu': rng.choice([2, 3, 4]),
                                         'nsig': rng.choice([0, 2]), 'pre': rng.choice([0, 1, 4])}))
    for j in range(ctx.n(6, 60)):
        t, ivs = rng.choice([0.0, 55000.0]), []
        for _ in range(rng.randrange(1, 6)):
            a = t + rng.choice([0.0, 0.5, 2.0])
            b = a + rng.choice([0.25, 1.0, 3.0])
            ivs.append([a, b])
            t = b
        oracle_cases.append(('times', {'ivs': ivs, 'seed': rng.choice(seeds), 'size': rng.choice([1, 2, 10, 100])}))

    # ---- deepening round: trials that may raise (sequential), RandomChoice as an object, get_ncpu, labels
    for j in range(ctx.n(36, 600)):
        c = _gen_cfg(rng)
        case = {'kind': 'trialsE', 'cfg': c, 'seed': rng.choice(seeds0), 'pre': rng.choice([0, 0, 2, 5]), 'n': rng.randrange(1, 6),
                'nsig': rng.choice([0, 1, 2]),
                'mini': [None, None, {'seed': rng.choice(seeds0), 'pre': rng.choice([0, 3])}, 'same'][j % 4],
                'need_mod': c['maxrep'] + [1, 2, 4][j % 3], 'norep': [0, 0, 1, 2, 3][j % 5],
                'delta': [0.0, 0.0, 1e6, -1e6][(j // 2) % 4]}
        cases.append(case)
        if j % 4 < 2:
            oracle_cases.append(('error_poststate', {k: v for k, v in case.items() if k not in ('kind', 'mini')}))
    nan, inf = 'nan', 'inf'
    bad_vectors = [[0.0, nan], [nan, 1.0], [0.5, nan, 0.5], [0.0, 0.0, nan, 1.0], [nan], [inf], [0.5, inf], [0.0, '-inf', 1.0],
                   [nan, nan], [1.0, nan, 0.0]]
    for j, pv in enumerate(bad_vectors):
        us = [0.0, 0.5, float(np.nextafter(1.0, 0.0)), rng.random()]
        dt = ['float64', 'float32'][j % 2]
        cases.append({'kind': 'cobj', 'p': pv, 'dtype': dt, 'codes': [17 + i for i in range(len(pv))], 'us': us})
        oracle_cases.append(('choice_nan', {'p': pv, 'dtype': dt, 'us': us}))
        ctx.count('cobj:non-finite')
    for j in range(ctx.n(60, 900)):
        n = rng.choice([0, 1, 2, 3, 5, 9])
        dt = rng.choice(['float64', 'float64', 'float32', 'float16'])
        cls = ['valid', 'valid', 'negative', 'sum-off', 'sum-edge', 'size-mismatch', 'items-not-array', 'items-2d', 'items-0d', 'p-2d',
               'empty'][j % 11]
        if cls == 'empty':
            n = 0
        elif n == 0:
            n = 2
        raw = np.array([rng.choice([0.0, rng.random(), rng.random()]) for _ in range(n)])
        if n and not raw.any():
            raw[rng.randrange(n)] = 1.0
        pv = (raw / raw.sum()) if n else raw
        at = _atol(np.dtype(dt))
        if cls == 'negative':
            k = rng.randrange(n)
            pv[k] = -rng.choice([1e-300, 1e-12, 0.25])
        elif cls == 'sum-off':
            pv = pv * rng.choice([0.5, 2.0, 1.0 + 10 * at, 1.0 - 10 * at])
        elif cls == 'sum-edge':
            pv = pv * (1.0 + rng.choice([-1, 1]) * at * rng.choice([0.9, 1.1]))
        pv = pv.astype(dt)
        with np.errstate(all='ignore'):
            sm = float(np.sum(pv)) if n else 0.0
        if n and abs(abs(sm - 1.0) - at) < 0.03 * at:
            ctx.count('cobj:skipped-too-close-to-the-tolerance')
            continue
        codes = [17 + rng.randrange(0, 3 * max(n, 1)) for _ in range(n + (1 if cls == 'size-mismatch' else 0))]
        case = {'kind': 'cobj', 'p': [float(x) for x in pv.astype(np.float64)], 'dtype': dt, 'codes': codes,
                'ikind': rng.choice(['offset', 'float', 'str', 'struct']), 'layout': rng.choice(['plain', 'strided', 'readonly', 'reversed']),
                'size_form': rng.choice(['int', 'np']),
                'us': [rng.choice([0.0, 0.5, float(np.nextafter(1.0, 0.0)), rng.random()]) for _ in range(rng.choice([0, 1, 4]))]}
        if cls == 'items-not-array':
            case['form'] = 'na'
        elif cls == 'items-2d':
            case['form'] = 2
        elif cls == 'items-0d':
            case['form'] = 0
        elif cls == 'p-2d':
            case['pndim'] = 2
        cases.append(case)
        ctx.count('cobj:class=%s' % cls)
        ctx.count('cobj:dtype=%s' % dt)
        ctx.count('cobj:layout=%s' % case['layout'])
    def gen_grid(small):
        if small:
            # the null-hypothesis strength: the fixture's ZeroSigH0 ratio only accepts 0, in any form (incl. two points, no point)
            return rng.choice([{'form': 'scalar', 'v': 0.0, 'num': rng.choice(['float', 'int', 'np'])},
                               {'form': 'r2', 'v': [0.0, 0.0], 'seq': rng.choice(['tuple', 'list'])},
                               {'form': 'r3', 'v': [0.0, 0.0, 1.0], 'seq': 'tuple'}, {'form': 'array', 'v': [0.0]},
                               {'form': 'array', 'v': [0.0, 0.0]}, {'form': 'array', 'v': []}, {'form': 'r2', 'v': [0.0, -1.0]}])
        f = rng.choice(['scalar', 'scalar', 'r2', 'r2', 'r3', 'array'])
        if f == 'scalar':
            return {'form': f, 'v': rng.choice([0.0, 1.0, 2.0] if small else [0.0, 1.0, 2.0, 2.5, 3.0]), 'num': rng.choice(['float', 'int', 'np'])}
        if f == 'r2':
            return {'form': f, 'v': rng.choice([[0.0, 1.0], [1.0, 1.0], [0.0, 0.0], [2.0, 0.0], [1.0, 2.0]]), 'seq': rng.choice(['tuple', 'list'])}
        if f == 'r3':
            return {'form': f, 'v': rng.choice([[0.0, 2.0, 2.0], [0.0, 1.0, 0.5], [1.0, 3.0, 1.0], [3.0, 1.0, 1.0]]), 'seq': rng.choice(['tuple', 'list'])}
        return {'form': f, 'v': rng.choice([[0.0, 2.0], [1.0], [], [3.0, 0.0, 1.0]])}
    for j in range(ctx.n(24, 300)):
        file = sorted(set(rng.randrange(0, 5) for _ in range(rng.randrange(0, 5))))
        g1 = gen_grid(False)
        if g1['form'] == 'scalar' and g1.get('num') == 'int':
            g1['v'] = float(int(g1['v']))
        g2 = gen_grid(True)
        if g2['form'] == 'scalar' and g2.get('num') == 'int':
            g2['v'] = float(int(g2['v']))
        cases.append({'kind': 'extfile', 'cfg': _gen_cfg(rng), 'file': file, 'cur': rng.choice(file) if file and j % 3 else rng.randrange(0, 7),
                      'pre': rng.choice([0, 0, 3]), 'n': 0 if j % 11 == 5 else rng.choice([1, 2, 3]), 'g1': g1, 'g2': g2,
                      'mini': {'seed': rng.choice(seeds0), 'pre': rng.choice([0, 2])} if j % 4 == 1 else None,
                      'sigkw': [None, 'e', 'e', {'mean': rng.choice([1.0, 4.0])}][j % 4]})
    z = {'form': 'scalar', 'v': 0.0, 'num': 'float'}
    cases.append({'kind': 'extfile', 'cfg': _gen_cfg(rng), 'file': [0, 1], 'cur': 1, 'pre': 0, 'n': 0, 'g1': dict(z, v=1.0), 'g2': z, 'mini': None})
    cases.append({'kind': 'extfile', 'cfg': _gen_cfg(rng), 'file': [0, 1], 'cur': 5, 'pre': 2, 'n': 2, 'g1': {'form': 'array', 'v': []}, 'g2': z, 'mini': None})
    cases.append({'kind': 'extfile', 'cfg': _gen_cfg(rng), 'file': [0, 1], 'cur': 0, 'pre': 0, 'n': 1, 'g1': {'form': 'r3', 'v': [0.0, 2.0, 2.0], 'seq': 'list'},
                  'g2': z, 'mini': None})
    for j in range(ctx.n(14, 200)):
        steps = [{'via': rng.choice(['do_trials', 'do_trial', 'generate_pseudo_data']), 'seed': rng.choice(seeds0), 'n': rng.choice([1, 2]),
                  'nsig': rng.choice([0, 1, 2, 3, 2.5])} for _ in range(rng.randrange(2, 6))]
        if j % 2 == 0:      # two different non-zero strengths in a row
            steps[0]['nsig'], steps[1]['nsig'] = rng.choice([[1, 3], [3, 1], [2, 1]])
        oracle_cases.append(('kwargs_history', {
            'cfg': _gen_cfg(rng), 'steps': steps,
            'sig_kwargs': [{'tag': 1}, {}, {'tag': 1, 'mean': 2}, None][j % 4],
            'bkg_kwargs': [{'tag': 2}, None][j % 2], 'mean_n_bkg_list': [[3.0], None][(j // 2) % 2]}))
    # round 7: pseudo data of an analysis with several datasets (background per dataset, signal injected through the dict)
    for j in range(ctx.n(36, 300)):
        nds = [1, 2, 3, 4][j % 4]
        keys = rng.sample(range(nds), rng.randrange(1, nds + 1))
        mode = ['p', 'p', 's', 'p', 'l:%d' % nds, 'e:%d' % nds][j % 6]
        if j % 12 == 7:
            keys = keys[:-1] + [nds + rng.randrange(0, 2)]                 # a dataset the analysis does not have
        if j % 12 == 10:
            mode = rng.choice(['l:%d', 'e:%d']) % (nds + rng.choice([-1, 1]))    # a list of the wrong length
        c = {'kind': 'pseudo', 'mode': mode, 'nds': nds, 'mean': 0 if j % 9 == 4 else rng.randrange(1, 6), 'maxev': rng.choice([1, 3, 5]),
             'keys': keys, 'seed': rng.choice(seeds), 'pre': rng.choice([0, 0, 1, 5]), 'mform': ['int', 'float', 'np'][j % 3]}
        cases.append(c)
        oracle_cases.append(('pseudo_repro', {x: v for x, v in c.items() if x != 'kind'}))
    # round 7: RandomStateService as an object — constructor / reseed with every argument form, refused seeds, draws
    def _rss_seedval(j):
        return [rng.choice(seeds), 0, 2 ** 32 - 1, -1, 2 ** 32, -rng.randrange(1, 2 ** 40), 2 ** 32 + rng.randrange(0, 2 ** 20),
                None, 'bad', rng.randrange(0, 2 ** 32)][j % 10]
    bad_forms = sorted(_BAD_SEEDS)
    for j in range(ctx.n(40, 400)):
        steps = []
        for _ in range(rng.randrange(0, 7)):
            if rng.random() < 0.55:
                steps.append({'reseed': _rss_seedval(rng.randrange(0, 10))})
            else:
                steps.append({'draw': rng.choice([0, 1, 2, 3, 8]), 'via': rng.choice(['bytes', 'random'])})
        if j % 4 == 0:      # a refused seed after draws, then use of the service
            steps += [{'draw': 2, 'via': 'bytes'}, {'reseed': [-1, 2 ** 32, 'bad'][(j // 4) % 3]}, {'draw': 3, 'via': 'bytes'}]
        c = {'kind': 'rssobj', 'seed': _rss_seedval(j) if j % 3 else rng.choice(seeds), 'steps': steps,
             'forms': [rng.choice(SEED_FORMS + bad_forms) for _ in range(3)]}
        cases.append(c)
        oracle_cases.append(('rss_label', {x: v for x, v in c.items() if x != 'kind'}))
        if j % 5 == 0:      # the same history with generators assigned through the public `random` setter (correspondence only)
            st2 = list(steps)
            st2.insert(rng.randrange(0, len(st2) + 1), {'setrandom': [rng.choice(seeds), rng.choice([0, 1, 4])]})
            st2.insert(rng.randrange(0, len(st2) + 1), {'setrandom': 'bad'})
            st2.append({'draw': 2, 'via': 'bytes'})
            cases.append(dict(c, steps=st2))
    for cv in (None, -1, 0, 1, 3):
        for lv in (None, -2, 0, 1, 2, 5):
            cases.append({'kind': 'ncpu', 'cfg': cv, 'loc': lv})
    for j in range(ctx.n(6, 60)):
        file = sorted(set(rng.randrange(0, 6) for _ in range(rng.randrange(1, 5))))
        cases.append({'kind': 'labels', 'cfg': _gen_cfg(rng), 'file': file, 'cur': rng.choice(file) if j % 3 else rng.randrange(6, 9),
                      'pre': rng.choice([0, 2]), 'n': rng.choice([1, 2, 3]), 'ncpu': [1, 2, 2, 3][j % 4]})

    # ---- fresh-vs-used histories on one object
    for j in range(ctx.n(40, 600)):
        ivs = _gen_ivs(rng)
        steps = _gen_time_steps(rng, ivs, forced=j % 6)
        for st in steps:
            if 'size' in st and rng.random() < 0.3:
                st['size_form'] = 'np'
        lay = [None, 'F', 'strided', 'readonly'][j % 4]
        ctx.count('time_history:layout=%s' % lay)
        oracle_cases.append(('time_history', {'ivs': ivs, 'steps': steps, 'layout': lay}))
        cases.append({'kind': 'timehist', 'ivs': ivs, 'steps': steps, 'layout': lay})
        ctx.count('time_history:len=%d' % len(steps))
    for j in range(ctx.n(20, 300)):
        n = rng.choice([1, 2, 3, 5, 10, 100, 1000])
        spec = {'n': n, 'mode': rng.choice(['dense', 'zeros', 'dyadic', 'tiny']), 'seed': rng.randrange(2 ** 31)}
        if rng.random() < 0.3:
            spec['dtype'] = 'float32'
        steps = []
        for _ in range(rng.randrange(2, 6)):
            if rng.random() < 0.5:
                steps.append({'seed': rng.choice(seeds), 'size': rng.choice([0, 1, 2, 7, 50, 300])})
            else:
                steps.append({'us': [rng.choice([0.0, 0.5, float(np.nextafter(1.0, 0.0)), rng.random()]) for _ in range(rng.randrange(1, 9))]})
        oracle_cases.append(('choice_history', {'ps': spec, 'steps': steps, 'items': {'kind': rng.choice(ITEM_KINDS), 'seed': rng.randrange(2 ** 31)}}))
    for j in range(ctx.n(20, 300)):
        steps = []
        for _ in range(rng.randrange(2, 8)):
            if rng.random() < 0.35:
                steps.append({'reseed': rng.choice(seeds)})
            else:
                steps.append({'kind': rng.choice(['random', 'uniform', 'randint', 'poisson', 'normal', 'choice']), 'n': rng.choice([1, 1, 2, 3, 10])})
        if j % 3 == 0:
            steps.append({'kind': 'normal', 'n': rng.choice([1, 3])})     # leaves a cached Gaussian behind
        steps.append({'reseed': rng.choice(seeds)})
        steps.append({'kind': 'normal' if j % 3 == 0 else rng.choice(['random', 'normal', 'randint']), 'n': 5})
        oracle_cases.append(('rss_history', {'seed': rng.choice(seeds), 'steps': steps,
                                             'forms': [rng.choice(SEED_FORMS) for _ in range(3)]}))

    # ---- correspondence (one driver process for all requests)
    reqs, impls = [], []
    for c in cases:
        k = c['kind']
        if k == 'choice':
            p = make_ps(c['ps'])
            reqs.append(_choice_req(p, c['us'], c.get('items')))
            impls.append((_impl_choice(p, c['us'], c.get('items')),))
        elif k == 'seed':
            reqs.append(_seed_req(c))
            impls.append((_impl_seed(c['used'], c['cur'], c.get('glue')),))
        elif k in ('hist', 'histshared'):
            reqs.append(_hist_req(c))
            impls.append((None,))
        elif k in _NEW:
            reqs.append(_NEW[k][0](c))
            impls.append((_NEW[k][1](c),))
        else:
            reqs.append(_trials_req(c))
            impls.append(_trials_impl(c))
    models = ctx.driver('C08', reqs)
    suspicious = []
    for c, i, m in zip(cases, impls, models):
        k = c['kind']
        ctx.case(nontrivial=True, key=c, desc=c if ctx.evaluations % 211 == 0 and k != 'choice' or ctx.evaluations == 3 else None)
        ctx.count('corr:' + k)
        _branches_old(ctx.count, c, m)
        if k == 'choice':
            d = _choice_compare(i[0], m, c.get('items'), ctx.count)
        elif k == 'seed':
            d = _seed_compare(c, i[0], dict(x.split(':') for x in m.split(' ')))
        elif k in ('hist', 'histshared'):
            d = _hist_compare(c, m)
        elif k in _NEW:
            d = _NEW[k][2](c, i[0], m, ctx.count)
        else:
            d = _trials_compare(c, i[0], i[1], i[2], m)
        if d:
            suspicious.append((c, i[0], m, d))

    # ---- property oracles on the implementation
    for name, oc in oracle_cases:
        ctx.case(nontrivial=True, key=(name, oc), desc={'oracle': name, 'case': oc} if ctx.evaluations % 307 == 0 else None)
        ctx.count('oracle:' + name)
        res = ORACLES[name](ctx, oc)
        if res:
            if name == 'choice':
                oc = _explicit(_shrink_choice(ctx, oc) or oc)
                res = ORACLES[name](ctx, oc) or res
            _report(ctx, name, oc, res)

    # ---- disagreements model / implementation: look for a failing input, else report the relation
    seen = set()
    for c, i, m, d in suspicious:
        k = c['kind']
        if k in seen:
            continue
        seen.add(k)
        hit = False
        for name, oc in _oracle_cases_for(c):
            res = ORACLES[name](ctx, oc)
            if res:
                _report(ctx, name, oc, res, impl_output=i, model_output=m[:2000])
                hit = True
                break
        if not hit:
            ctx.violation('corr', c, 'model and implementation disagree (%s) but no property oracle fails on this input' % d,
                          kind='correspondence', relation='exact ' + k, impl_output=i, model_output=m[:2000],
                          signature='C08/corr/' + k, no_failing_input=True)
    ctx.extra['correspondence_disagreements'] = len(suspicious)
    hit = {b: ctx.counters.get('branch:' + b, 0) for b in _BRANCHES}
    ctx.extra['counts'] = {'branches': hit, 'zero_hit_branches': sorted(b for b, v in hit.items() if not v),
                           'unreachable_by_theorem': _UNREACHABLE}
    if ctx.extra['counts']['zero_hit_branches']:
        ctx.note('C08: model branches not exercised in this run: %s' % ', '.join(ctx.extra['counts']['zero_hit_branches']))
    ctx.extra['constants_from_source'] = dict(_gen())


def _explicit(oc):
    """small probability vectors are written out in the replay file"""
    p = make_ps(oc['ps'])
    if len(p) > 64:
        return oc
    return dict(oc, ps={'explicit': [float(x) for x in p], 'dtype': oc['ps'].get('dtype', 'float64')})


def _shrink_choice(ctx, oc):
    """smallest failing set of deviates (one, if a single deviate already fails)"""
    for u in oc['us']:
        c = dict(oc, us=[u])
        if o_choice(ctx, c):
            return c
    return None


def _oracle_cases_for(c):
    k = c['kind']
    if k == 'choice':
        return [('choice', _explicit({'ps': c['ps'], 'us': c['us'], 'items': c.get('items')}))]
    if k == 'seed':
        return [('seed', {'used': c['used'], 'cur': c['cur'], 'rows': 1, 'glue': c.get('glue')})]
    if k == 'trialsE':
        return [('error_poststate', {x: v for x, v in c.items() if x not in ('kind', 'mini')})]
    if k == 'cobj':
        return [('choice_nan', {'p': c['p'], 'dtype': c.get('dtype', 'float64'), 'us': c['us'] or [0.0]})]
    if k == 'labels':
        return [('extend_labels', {x: v for x, v in c.items() if x != 'kind'})]
    if k == 'extfile':
        g = np.arange(1, 4) if c.get('sigkw') is not None else []
        return [('kwargs_history', {'cfg': c['cfg'], 'sig_kwargs': {'tag': 1}, 'bkg_kwargs': {'tag': 2}, 'mean_n_bkg_list': None,
                                    'steps': [{'via': 'do_trials', 'seed': c['cur'], 'n': max(1, c['n']), 'nsig': int(m)} for m in g]})] if len(g) else []
    if k == 'ncpu':
        return []
    if k == 'pseudo':
        return [('pseudo_repro', {x: v for x, v in c.items() if x != 'kind'})]
    if k == 'rssobj':
        if any('setrandom' in x for x in c['steps']):
            return []        # the public setter may detach the label from the generator by design
        return [('rss_label', {x: v for x, v in c.items() if x != 'kind'})]
    if k == 'timehist':
        return [('time_history', {x: v for x, v in c.items() if x != 'kind'})]
    if k == 'hist':
        return [('seed_history', {'file': c['file'], 'curs': c['curs'], 'rows': c['rows']})]
    if k == 'histshared':
        return [('seed_shared', {x: v for x, v in c.items() if x != 'kind'})]
    if c['n'] == 0 or c['ncpu'] == 0:
        return []
    base = {'cfg': c['cfg'], 'seed': c['seed'], 'n': c['n'], 'ncpu': c['ncpu'], 'nsig': c['nsig']}
    cfg2 = {'thr': 1.0 if c['cfg']['thr'] < 0.6 else 0.0, 'npar': c['cfg']['npar'] + 1, 'maxrep': c['cfg']['maxrep'] + 2}
    res = [('repro', dict(base, prior=[[(c['seed'] + 1) % 2 ** 32, 2, 1]])), ('nonint', dict(base, pre=c['pre'], cfg2=cfg2, mini2=None)),
           ('fresh_min', dict(base, pre=c['pre']))]
    if c['ncpu'] > 1:
        res.append(('workers', {'cfg': c['cfg'], 'seed': c['seed'], 'ncpu': c['ncpu'], 'nsig': c['nsig'], 'pre': c['pre']}))
    return res


MANIFEST = dict(
    text=('Lean theorems (96, no sorry) on a model of skyllh\'s random handling in which services are references into a store: '
          'non-interference of the minimiser with the data side of do_trials for master and workers (with the aliasing counterexample), '
          'fresh default minimiser stream, independence of rows from earlier histories, do_trials/get_ncpu error paths; Minimizer.minimize as '
          'coded (restart loop, stopping reasons, ValueError, words read also when it raises, clipping, restart initials in bounds) and trials '
          'that may raise with their post-state: the data of the completed trials is an initial segment of the pure data trace whatever the '
          'minimiser does; RandomChoice as an object: the validation establishes the guard (non-negative, positive sum, lengths), so a '
          'constructed object never raises, returns the requested number of ITEMS and never one of zero probability (ordered fields; '
          'order-level version for floats; NaN: counterexample for the pinned sum test, theorem for the repaired one); unused-seed search, '
          'histories of extensions with new or one reused service, create/extend_trial_data_file with grids of signal strengths as the '
          'code builds the file (row count, labels, errors), labels with several processes (statement false: counterexample + partial); '
          'Livetime/TimeGenerator draws code-shaped (C14\'s drawWin) with an unconditional used-object = fresh-object theorem; '
          'RandomStateService as an object (argument forms, refused seeds, label vs generator: after every history incl. failing reseeds the '
          'seed property names the stream the generator runs on; counterexample for the pinned assignment order in reseed); the per-dataset '
          'merge of generate_signal_events / generate_pseudo_data for several datasets (background ++ signal per dataset, counts, disjoint '
          'consecutive stream segments, error branches). Every '
          'definition is executed by the driver and compared exactly with the real code on every run (RandomChoice incl. argument forms, '
          'dtypes, memory layouts; extend_trial_data_file on all subsets of {0..6}; a real LLHRatioAnalysis through do_trial/do_trials/'
          'parallelize/llhratio.maximize/Minimizer incl. raising trials; time histories on one object); branch counters list untied branches.'),
    note=('numpy.random.RandomState is a parameter of the model (a function of seed and position; its Gaussian cache and seed=None are '
          'numpy\'s and not modelled): determinism and bit-identity enter through word tables and two-run comparisons of the full generator '
          'state. Background/signal generators are an arbitrary function of the stream (stubs in the harness). Choice theorems are about '
          'exact or order-level arithmetic; float64/float32/float16 behaviour is compared. Raising workers (several processes) are C09\'s. '
          'Open finding: with several processes the worker seeds written into an extended file are not compared with the file.'),
    design='DESIGN.md section 4 C08',
    technique='Lean 4 proof (induction over trial sequences, grids and operation histories on a store of references, loop invariants, prefix '
              'sums over ordered fields and linear orders, pigeonhole, a toy NaN arithmetic) + exact model/implementation correspondence with '
              'branch counters + fresh-vs-used and two-run oracles')
