"""C15 — grid rounding hits exact grid members; interpolation is exact and consistent.

Correspondence: real `ParameterGrid`, `IrregularParameterGrid`, `Linear1D…`/`Parabola1DGridManifoldInterpolationMethod`
and `TrialDataManager.broadcast_sources_array_to_values_array` vs. Model/Grid.lean (Driver/C15.lean).
The Float model performs the same IEEE operations in the same order (np.around = multiply, rint, divide), so the
comparison is bit-exact as a diagnostic; the verdict relation is: same grid index / exact equality for rounding
results and errors, 1e-9 * scale for interpolated values.
Property oracles (implementation only): exact `fractions` reference for the rounding, bitwise membership and
dictionary lookup through `make_dict_hash`, brute force for the irregular grid, polynomial exactness, finite
differences, per-source independence and fresh-vs-used object for the interpolation.
"""
import ast
import bisect
import math
import os
from fractions import Fraction

import numpy as np

from harness.core import f2b, b2f, flist, ilist, parse_flist, parse_ilist, REPO
from harness import c15_r7_fixtures as R7

MODEL_MODULES = ['SkyllhModel.Model.Grid', 'SkyllhModel.Model.GridObj', 'SkyllhModel.Model.GridR7', 'SkyllhModel.Generated.C15']

# which Python callables have an executable Lean counterpart that the c15_* theorems are about AND that run(ctx) compares with the
# real callable on every run (harness/core.py::model_map_report checks the keys against the current source)
_P, _I = 'skyllh/core/parameters.py::', 'skyllh/core/interpolate.py::'
MODEL_MAP = {
    _P + 'ParameterGrid.__init__': ['Grid.mkGrid', 'Grid.mkGridChecked', 'Grid.mkGridAuto', 'Grid.decimalsAuto', 'Grid.PGObj.new'],
    _P + 'ParameterGrid.from_range': ['Grid.fromRangeArr', 'Grid.arange', 'Grid.arangeLen'],
    _P + 'ParameterGrid._calc_floatD_and_intD': ['Grid.floatD', 'Grid.intD'],
    _P + 'ParameterGrid.round_to_nearest_grid_point': ['Grid.roundNearest', 'Grid.kNearest'],
    _P + 'ParameterGrid.round_to_lower_grid_point': ['Grid.roundLower', 'Grid.kLower'],
    _P + 'ParameterGrid.round_to_upper_grid_point': ['Grid.roundUpper', 'Grid.kUpper'],
    _P + 'ParameterGrid.grid': ['Grid.buildGrid'],
    _P + 'ParameterGrid.lower_bound': ['Grid.PGObj.step'],
    _P + 'ParameterGrid.add_extra_lower_and_upper_bin': ['Grid.addExtra', 'Grid.PGObj.step'],
    _P + 'ParameterGrid.copy': ['Grid.PGObj.step'],
    _P + 'IrregularParameterGrid.__init__': ['Grid.mkIrr'],
    _P + 'IrregularParameterGrid.grid': ['Grid.mkIrr', 'Grid.strictlyIncreasing', 'Grid.IGObj.step'],
    _P + 'IrregularParameterGrid.add_extra_lower_and_upper_bin': ['Grid.irrAddExtra'],
    _P + 'IrregularParameterGrid.copy': ['Grid.IGObj.step'],
    _P + 'IrregularParameterGrid.round_to_nearest_grid_point': ['Grid.irrNearest', 'Grid.irrNearestArr', 'Grid.irrNearestP', 'Grid.irrMids'],
    _P + 'IrregularParameterGrid.round_to_lower_grid_point': ['Grid.irrLowerC', 'Grid.irrLowerArr', 'Grid.irrLowerP'],
    _P + 'IrregularParameterGrid.round_to_upper_grid_point': ['Grid.irrUpper', 'Grid.irrUpperArr', 'Grid.irrUpperP'],
    _P + 'ParameterGridSet.parameter_permutation_dict_list': ['Grid.gridProduct', 'Grid.permutationDicts'],
    _P + 'ParameterGridSet.add_extra_lower_and_upper_bin': ['Grid.gridSetExtra', 'Grid.irrSetExtra'],
    _P + 'make_linear_parameter_grid_1d': ['Grid.fromRangeArr'],
    _I + 'NullGridManifoldInterpolationMethod.__call__': ['Grid.nullSpec', 'Grid.nullGridParams'],
    _I + 'Linear1DGridManifoldInterpolationMethod.__call__': ['Grid.linCall', 'Grid.linCompute', 'Grid.linEval', 'Grid.linRun', 'Grid.linCallIrr',
                                                               'Grid.linComputeIrr', 'Grid.linLine', 'Grid.linRunIrr'],
    _I + 'Linear1DGridManifoldInterpolationMethod._is_cached': ['Grid.linCall', 'Grid.linCallIrr'],
    _I + 'Linear1DGridManifoldInterpolationMethod._create_cache': ['Grid.LinCache'],
    _I + 'Parabola1DGridManifoldInterpolationMethod.__call__': ['Grid.parCall', 'Grid.parCompute', 'Grid.parEval', 'Grid.parRun', 'Grid.parGradP'],
    _I + 'Parabola1DGridManifoldInterpolationMethod._is_cached': ['Grid.parCall', 'Grid.bcastEq'],
    _I + 'Parabola1DGridManifoldInterpolationMethod._create_cache': ['Grid.ParCache'],
    'skyllh/core/py.py::get_number_of_float_decimals': ['Grid.decimalsOf'],
    'skyllh/core/py.py::make_dict_hash': ['Grid.keyEq'],
    'skyllh/core/pdf.py::PDFSet.add_pdf': ['Grid.pdfAdd', 'Grid.pdfAddAll'],
    'skyllh/core/pdf.py::PDFSet.get_pdf': ['Grid.pdfGet'],
    'skyllh/core/trialdata.py::TrialDataManager.broadcast_sources_array_to_values_array': ['Grid.broadcast'],
}

FD_DEFAULT, MAXDEC_DEFAULT = 9, 16
SLACK = Fraction(6, 10 ** 10)         # slack of the rounding in units of delta: the proved 5e-10 (c15_lower_le_value,
                                      # c15_slack_for_current_source) + 1e-10 for the float error of (v-lb)/delta at
                                      # |v| <= ~3e5 spacings
TOL_LATTICE = Fraction(1, 10 ** 9)    # grid members / results vs. the exact lattice lb + k*delta (float error only)


# ------------------------------------------------------------------------------------------
# generated constants

def _extract_constants():
    with open(os.path.join(REPO, 'skyllh/core/parameters.py')) as f:
        tree = ast.parse(f.read())
    cls = [n for n in ast.walk(tree) if isinstance(n, ast.ClassDef) and n.name == 'ParameterGrid'][0]
    fd = maxdec = None
    for fn in cls.body:
        if isinstance(fn, ast.FunctionDef) and fn.name == '_calc_floatD_and_intD':
            for node in ast.walk(fn):
                if (isinstance(node, ast.Call) and isinstance(node.func, ast.Attribute) and node.func.attr in ('around', 'round')
                        and len(node.args) == 2 and isinstance(node.args[1], ast.Constant)
                        and isinstance(node.args[0], ast.Name) and node.args[0].id == 'floatD'):
                    fd = int(node.args[1].value)
        if isinstance(fn, ast.FunctionDef) and fn.name == '__init__':
            for node in ast.walk(fn):
                if (isinstance(node, ast.Compare) and isinstance(node.left, ast.Name) and node.left.id == 'decimals'
                        and len(node.ops) == 1 and isinstance(node.ops[0], ast.Gt)
                        and isinstance(node.comparators[0], ast.Constant)):
                    maxdec = int(node.comparators[0].value)
    return fd, maxdec


def generated(ctx):
    try:
        fd, maxdec = _extract_constants()
    except Exception as e:  # noqa
        fd = maxdec = None
        ctx.note('C15: constant extraction failed (%s: %s)' % (type(e).__name__, e))
    if fd is None:
        fd = FD_DEFAULT
        ctx.note('C15: floatD decimals not found in _calc_floatD_and_intD; using recorded value %d' % fd)
        ctx.proof['generated_fallbacks'].append('floatDDecimals')
    if maxdec is None:
        maxdec = MAXDEC_DEFAULT
        ctx.note('C15: maximal decimals not found in ParameterGrid.__init__; using recorded value %d' % maxdec)
        ctx.proof['generated_fallbacks'].append('maxDecimals')
    r7, r7notes = R7.extract(REPO)
    for name, why in r7notes:
        ctx.note('C15: %s not found in the current source (%s); using the recorded value' % (name, why))
        ctx.proof['generated_fallbacks'].append(name)
    return ('-- generated by harness/props/c15.py from the current skyllh source; do not edit\n'
            'namespace Gen.C15\n'
            '/-- `np.around(floatD, 9)` in `ParameterGrid._calc_floatD_and_intD` -/\n'
            'def floatDDecimals : Nat := %d\n'
            '/-- `if decimals > 16: raise ValueError` in `ParameterGrid.__init__` -/\n'
            'def maxDecimals : Nat := %d\n' % (fd, maxdec)
            + R7.lean_consts(r7) +
            'end Gen.C15\n')


# ------------------------------------------------------------------------------------------
# building real objects from JSON-able specifications

ARR_FORMS = ('ndarray', 'list', 'tuple', 'strided', 'readonly', 'fortran-slice', 'int-dtype', 'object-floats')


def as_form(values, form):
    """the same numbers in another container / memory layout (what callers really hand in).  Returns (object, effective form)."""
    vals = [float(v) for v in values]
    if form == 'list':
        return list(vals), form
    if form == 'tuple':
        return tuple(vals), form
    if form == 'strided':
        big = np.full((2 * len(vals) + 1,), 123456.789)
        big[1::2] = vals
        return big[1::2], form
    if form == 'readonly':
        a = np.array(vals, dtype=np.float64)
        a.setflags(write=False)
        return a, form
    if form == 'fortran-slice':
        big = np.asfortranarray(np.full((max(len(vals), 1), 3), -7.25))
        big[:len(vals), 1] = vals
        return big[:len(vals), 1], form
    if form == 'int-dtype' and vals and all(v == int(v) and abs(v) < 2 ** 52 for v in vals):
        return np.array([int(v) for v in vals], dtype=np.int64), form
    if form == 'object-floats':
        return [np.float64(v) for v in vals], form
    return np.array(vals, dtype=np.float64), 'ndarray'


VIA = ('copy', 'deepcopy', 'pickle', 'gridset-copy', 'gridset-pickle')


def derive(obj, how):
    """the same grid object obtained another way: its copy() method, copy.deepcopy, a pickle round trip, as the member of a
    copied / unpickled ParameterGridSet.  Where an object comes from is a generated dimension of every object-level check."""
    import copy as _copy
    import pickle
    from skyllh.core.parameters import ParameterGridSet
    if how == 'copy':
        return obj.copy()
    if how == 'deepcopy':
        return _copy.deepcopy(obj)
    if how == 'pickle':
        return pickle.loads(pickle.dumps(obj))
    if how == 'gridset-copy':
        return ParameterGridSet([obj]).copy()[0]
    if how == 'gridset-pickle':
        return pickle.loads(pickle.dumps(ParameterGridSet([obj])))[0]
    raise ValueError(how)


def mk_grid(spec):
    from skyllh.core.parameters import ParameterGrid
    arr, _ = as_form(spec['arr'], spec.get('arr_form', 'ndarray'))
    g = ParameterGrid('p', arr, delta=spec.get('delta'), decimals=spec.get('decimals'))
    for _ in range(spec.get('extra', 0)):
        g.add_extra_lower_and_upper_bin()
    for how in spec.get('via', ()):
        g = derive(g, how)
    return g


def mk_irr(spec):
    from skyllh.core.parameters import IrregularParameterGrid
    g = IrregularParameterGrid('p', np.array(spec['arr'], dtype=np.float64))
    for _ in range(spec.get('extra', 0)):
        g.add_extra_lower_and_upper_bin()
    for how in spec.get('via', ()):
        g = derive(g, how)
    return g


class StubTDM(object):
    """Stands in for a TrialDataManager: `ns[k]` values (selected events) for source k; the broadcast methods
    are the real ones of TrialDataManager."""

    def __init__(self, ns, sid=1):
        self.ns = list(ns)
        self.n_sources = len(ns)
        self.trial_data_state_id = sid
        self.src_evt_idxs = (np.repeat(np.arange(len(ns)), ns),
                             np.concatenate([np.arange(n) for n in ns]) if ns else np.array([], dtype=int))
        self.n_selected_events = max(ns) if ns else 0
        # the real TrialDataManager keeps these under private names, too; a behaviour-preserving rewrite of the broadcast
        # methods may read either spelling
        self._src_evt_idxs = self.src_evt_idxs
        self._n_sources = self.n_sources
        self._n_selected_events = self.n_selected_events
        self._trial_data_state_id = sid

    def get_n_values(self):
        return int(sum(self.ns))

    def broadcast_sources_array_to_values_array(self, arr):
        from skyllh.core.trialdata import TrialDataManager
        return TrialDataManager.broadcast_sources_array_to_values_array(self, arr)

    def broadcast_sources_arrays_to_values_arrays(self, arrays):
        from skyllh.core.trialdata import TrialDataManager
        return TrialDataManager.broadcast_sources_arrays_to_values_arrays(self, arrays)


def f_eval(fspec, u):
    """the manifold function in the local coordinate u = (g - G0)/delta, and its first three derivatives' bound"""
    k = fspec['kind']
    if k == 'poly':
        c = fspec['c']
        return c[0] + c[1] * u + c[2] * u * u
    if k == 'exp':
        return math.exp(fspec['a'] * u)
    if k == 'sin':
        return math.sin(fspec['a'] * u + fspec['b'])
    raise ValueError(k)


def f_deriv(fspec, u):
    k = fspec['kind']
    if k == 'poly':
        c = fspec['c']
        return c[1] + 2 * c[2] * u
    if k == 'exp':
        return fspec['a'] * math.exp(fspec['a'] * u)
    if k == 'sin':
        return fspec['a'] * math.cos(fspec['a'] * u + fspec['b'])


def f_bound(fspec, order, ulo, uhi):
    """max |f^(order)| on [ulo, uhi]"""
    k = fspec['kind']
    if k == 'poly':
        c = fspec['c']
        return {2: abs(2 * c[2]), 3: 0.0}[order]
    if k == 'exp':
        a = fspec['a']
        return abs(a) ** order * max(math.exp(a * ulo), math.exp(a * uhi))
    if k == 'sin':
        return abs(fspec['a']) ** order


def manifold_values(fspec, sid, gs, ns, g0, delta):
    """value array of the manifold for per-source grid values gs (len 1 = shared) in trial-data state sid"""
    gs = list(gs)
    out = []
    for k, n in enumerate(ns):
        # one shared value is used for all sources; a wrong number of values is not the manifold function's business (the
        # interpolation method has to reject it): cycle through what was given
        u = (float(gs[k % len(gs)]) - g0) / delta
        base = f_eval(fspec, u)
        for j in range(n):
            out.append(base * (1.0 + 0.25 * j) + 0.5 * ((sid or 0) % 7) * u)
    return np.array(out, dtype=np.float64)


class Manifold(object):
    """The stub manifold function.  It *owns* the arrays it hands out: with `persistent=True` it is a look-up table keyed by
    (trial-data state, grid values) that returns the stored array object itself on every request (as a PDF set with cached
    values does), otherwise it computes a fresh array per call.  Every array handed out is remembered together with a snapshot,
    so that `changed()` can tell whether the interpolation method wrote into memory that belongs to the manifold function."""

    def __init__(self, fspec, ns, g0, delta, record=None, persistent=False, bad_len=0):
        self.fspec, self.ns, self.g0, self.delta = fspec, list(ns), g0, delta
        self.bad_len = bad_len      # a manifold function that returns that many values too many (the methods have to raise)
        self.record = record
        self.table = {} if persistent else None
        self.handed = []            # (sid, grid values, array object, snapshot)

    def __call__(self, tdm, eventdata, gridparams_recarray, n_values, **kw):
        sid = tdm.trial_data_state_id
        gs = np.atleast_1d(gridparams_recarray['p']).tolist()
        if self.table is not None:
            key = (sid, tuple(f2b(x) for x in gs))
            if key not in self.table:
                self.table[key] = manifold_values(self.fspec, sid, gs, self.ns, self.g0, self.delta)
                self.handed.append((sid, gs, self.table[key], self.table[key].copy()))
            vals = self.table[key]
        else:
            vals = manifold_values(self.fspec, sid, gs, self.ns, self.g0, self.delta)
            self.handed.append((sid, gs, vals, vals.copy()))
        if self.record is not None:
            self.record.append((sid, gs, vals.tolist()))
        if len(vals) != n_values:
            from harness.core import MachineryError
            raise MachineryError('stub manifold function: %d values for n_values=%d' % (len(vals), n_values))
        if self.bad_len:
            return np.concatenate([vals, np.ones(self.bad_len)])
        return vals

    def changed(self):
        """None, or a description of the first handed-out array that no longer has its content"""
        for sid, gs, arr, snap in self.handed:
            if arr.shape != snap.shape or arr.tobytes() != snap.tobytes():
                return 'the array the manifold function returned for grid values %r (trial-data state %r) was changed in place: %r -> %r' % (
                    gs, sid, snap.tolist()[:4], arr.tolist()[:4])
        return None


def mk_func(fspec, ns, g0, delta, record=None, persistent=False, bad_len=0):
    return Manifold(fspec, ns, g0, delta, record, persistent, bad_len)


def mk_method(method, g, fspec, ns, record=None, persistent=False, bad_len=0):
    from skyllh.core import interpolate as ip
    cls = {'linear': ip.Linear1DGridManifoldInterpolationMethod,
           'parabola': ip.Parabola1DGridManifoldInterpolationMethod,
           'null': ip.NullGridManifoldInterpolationMethod}[method]
    g0, delta = float(g.grid[0]), float(g.delta)
    m = cls(func=mk_func(fspec, ns, g0, delta, record, persistent, bad_len), param_grid_set=g)
    return m


def manifold_of(m):
    """the stub manifold function of an interpolation object built by mk_method (kept by the harness, not read from the
    object's private attributes)"""
    return m.func


class InputChanged(Exception):
    """the interpolation call wrote into an array that belongs to the caller"""


PR_FORMS = ('plain', 'extra-field', 'strided', 'readonly', 'recarray')


def mk_params(xs, form='plain'):
    """the params_recarray in the layouts callers hand in: own array, with another field next to the interpolated parameter,
    a strided view into a larger array, read-only, numpy.recarray"""
    n = len(xs)
    if form == 'extra-field':
        pr = np.empty((n,), dtype=[('ns', np.float64), ('p', np.float64), ('gamma2', np.float64)])
        pr['ns'], pr['gamma2'] = 17.5, -3.25
    elif form == 'strided':
        big = np.empty((2 * n + 1,), dtype=[('p', np.float64)])
        big['p'] = 987.125
        pr = big[1::2]
    elif form == 'recarray':
        pr = np.recarray((n,), dtype=[('p', np.float64)])
    else:
        pr = np.empty((n,), dtype=[('p', np.float64)])
    pr['p'] = xs
    if form == 'readonly':
        pr.setflags(write=False)
    return pr


def call_method(m, ns, sid, xs, pr_form='plain', tdm=None):
    tdm = tdm if tdm is not None else StubTDM(ns, sid)
    pr = mk_params(xs, pr_form)
    ev = np.zeros((1, tdm.n_selected_events), dtype=np.float64)
    ev.setflags(write=False)
    (values, grads) = m(tdm=tdm, eventdata=ev, params_recarray=pr)
    if pr['p'].tolist() != [float(x) for x in xs] or np.any(ev != 0):
        raise InputChanged('the call changed the caller\'s params_recarray / eventdata in place: %r -> %r' % (list(xs), pr['p'].tolist()))
    return np.asarray(values, dtype=np.float64), np.asarray(grads, dtype=np.float64)


def _exc(e):
    return 'EXC:' + type(e).__name__


# ------------------------------------------------------------------------------------------
# oracles: (ctx, case) -> None | failure text     (implementation only)

def _fr(x):
    return Fraction(float(x))


_STUB_PDF = []


def _stub_pdf_cls():
    if not _STUB_PDF:
        from skyllh.core.pdf import PDF

        class _StubPDF(PDF):
            def __init__(self, cfg, tag):
                super().__init__(cfg=cfg)
                self.tag = tag

            def assert_is_valid_for_trial_data(self, *a, **k):
                pass

            def get_pd(self, *a, **k):
                pass

            def initialize_for_new_trial(self, *a, **k):
                pass
        _STUB_PDF.append(_StubPDF)
    return _STUB_PDF[0]


def _pdfset_lookup(g, ext, spec, zeros):
    """PDFSet.__contains__ / get_pdf / [] / make_key with a rounded zero find the PDF registered under the zero member"""
    from skyllh.core.config import Config
    from skyllh.core.pdf import PDFSet
    cfg = Config()
    cls = _stub_pdf_cls()
    variants = [('the members of .grid', g, [x for x in g.grid]),
                ('the members of the extended copy\'s .grid', ext, [x for x in ext.grid]),
                ('the literal grid values', g, [float(x) + 0.0 for x in g.grid])]
    for nm, grid_obj, keys in variants:
        s = PDFSet(cfg=cfg, param_grid_set=grid_obj.copy())
        try:
            for y in keys:
                s.add_pdf(cls(cfg, float(y)), {'p': y})
        except KeyError as e:
            return 'PDFSet.add_pdf over %s of %s raised KeyError: %s' % (nm, _short(spec), e)
        if not any(y == 0.0 for y in keys):
            continue
        for what, v, x in zeros:
            for form in (x, float(x)):
                gp_ = {'p': form}
                try:
                    ok = (gp_ in s) and s.get_pdf(gp_).tag == 0.0 and s[gp_].tag == 0.0 and s.make_key(gp_) in s.pdf_keys
                except KeyError:
                    ok = False
                if not ok:
                    return ('PDFSet lookup (in / get_pdf / [] / make_key) with %s(%r) = %r does not find the PDF registered under '
                            'the zero member of %s on %s' % (what, v, form, nm, _short(spec)))
    return None


def _pdfset_members(g, spec, samples):
    """a real PDFSet over the grid: every sampled in-range rounding result finds the PDF of its member, through the
    dictionary key and through the integer key"""
    from skyllh.core.config import Config
    from skyllh.core.pdf import PDFSet
    cfg = Config()
    cls = _stub_pdf_cls()
    s = PDFSet(cfg=cfg, param_grid_set=g.copy())
    try:
        for j, gp_ in enumerate(s.gridparams_list):
            s.add_pdf(cls(cfg, j), gp_)
    except KeyError as e:
        return 'PDFSet.add_pdf over the members of .grid of %s raised KeyError: %s' % (_short(spec), e)
    for what, v, x, j in samples:
        for form in (x, float(x)):
            gp_ = {'p': form}
            try:
                key = s.make_key(gp_)
                ok = gp_ in s and key in s and s.get_pdf(gp_).tag == j and s[gp_].tag == j and s.get_pdf(key).tag == j
            except KeyError:
                ok = False
            if not ok:
                return 'PDFSet lookup (in / get_pdf / [] / integer key) with %s(%r) = %r does not find the PDF of grid[%d] on %s' % (
                    what, v, form, j, _short(spec))
    return None


def o_round(ctx, case):
    """exact-fraction reference + bitwise membership + dictionary lookup for the three rounding functions"""
    from skyllh.core.py import make_dict_hash
    spec, vs = case['grid'], [float(v) for v in case['vs']]
    # ambiguous input (outside the generator, see assumptions): explicit decimals and a first value exactly half-way between two
    # multiples of 10^-decimals.  Every given value is then a tie of the nearest rounding and the stored grid may start one
    # spacing below the rounded lower bound; only that index shift is tolerated, every other clause is still checked.
    tie = spec.get('decimals') is not None and spec.get('decimals') >= 0 and \
        abs((Fraction(float(spec['arr'][0])) * 10 ** spec['decimals']) % 1 - Fraction(1, 2)) <= Fraction(1, 10 ** 6)
    try:
        g = mk_grid(spec)
    except Exception as e:  # noqa
        return 'constructing ParameterGrid(%s) raised %s: %s' % (_short(spec), type(e).__name__, e)
    G = [float(x) for x in g.grid]
    n = len(G)
    lb, d, dec = _fr(g.lower_bound), _fr(g.delta), g.decimals
    n_exp = len(spec['arr']) + 2 * spec.get('extra', 0)
    if n != n_exp:
        return 'grid of %s has %d points, expected %d' % (_short(spec), n, n_exp)
    if not d > 0:
        return 'delta %r of %s is not positive' % (float(g.delta), _short(spec))
    tol = SLACK * d                 # the slack of the clauses lower <= value, nearest within half
    tol_lat = TOL_LATTICE * d       # float error of a member / result against the exact lattice point
    sh = 0                          # grid[j] is lattice point j + sh
    if tie and abs(_fr(G[0]) - (lb - d)) <= tol_lat:
        sh = -1
        ctx.count('tie-of-the-explicit-decimals:grid-starts-one-spacing-below-lower-bound')
    for k in range(n):
        if abs(_fr(G[k]) - (lb + (k + sh) * d)) > tol_lat:
            return 'grid[%d] = %r of %s is not lower_bound + %d*delta = %r (grid %s…)' % (
                k, G[k], _short(spec), k, float(lb + k * d), G[:4])
        if k and not G[k - 1] < G[k]:
            return 'grid of %s is not strictly increasing at index %d: %r, %r' % (_short(spec), k, G[k - 1], G[k])
    # the grid represents the given values (to the number of decimals)
    ex = spec.get('extra', 0)
    tol_in = tol_lat if spec.get('decimals') is None else tol_lat + Fraction(1, 2 * 10 ** dec) * (1 + SLACK)
    for k, a in enumerate(spec['arr']):
        if abs(_fr(G[k + ex]) - _fr(a)) > tol_in:
            return 'grid[%d] = %r of %s does not represent the given value %r (decimals %d)' % (k + ex, G[k + ex], _short(spec), a, dec)
    lookup = {}
    for i, x in enumerate(g.grid):
        h = make_dict_hash({'p': x})
        if h in lookup:
            return 'distinct grid points %r and %r of %s get the same PDFSet key make_dict_hash({p: value})' % (G[lookup[h]], G[i], _short(spec))
        lookup[h] = i
    arr = np.array(vs, dtype=np.float64)
    try:
        lo = g.round_to_lower_grid_point(arr)
        up = g.round_to_upper_grid_point(arr)
        ne = g.round_to_nearest_grid_point(arr)
    except Exception as e:  # noqa
        return 'rounding %r on %s raised %s: %s' % (vs[:3], _short(spec), type(e).__name__, e)

    # every spelling under which a PDF for grid member k may have been registered: the member taken from `.grid`, the member
    # of the copy extended by add_extra_lower_and_upper_bin (its zero can carry the other sign), the literal input value, and
    # the plain Python zero; numerically equal values must give the same key (0.0 == -0.0 in every Python dict)
    try:
        ext = g.copy()
        ext.add_extra_lower_and_upper_bin()
        GE = ext.grid
    except Exception as e:  # noqa
        return 'add_extra_lower_and_upper_bin on a copy of %s raised %s: %s' % (_short(spec), type(e).__name__, e)
    spellings = {}

    def spell(k):
        if k not in spellings:
            ys = [('grid[%d]' % k, g.grid[k])]
            if k + 1 < len(GE) and GE[k + 1] == G[k]:
                ys.append(('extended grid[%d]' % (k + 1), GE[k + 1]))
            if 0 <= k - ex < len(spec['arr']) and spec['arr'][k - ex] == G[k]:
                ys.append(('given value', float(spec['arr'][k - ex])))
            if G[k] == 0.0:
                ys += [('0.0', 0.0), ('-0.0', -0.0), ('np.float64(0.0)', np.float64(0.0))]
            spellings[k] = [(nm, y, make_dict_hash({'p': y})) for nm, y in ys]
        return spellings[k]

    def member(x, k, what, v):
        """x must equal grid[k] (==) and be bit-identical to it (the sign of zero is recorded as a diagnostic only) when
        0 <= k < n, and every key a PDF of that member can be registered under must be found with x; outside the grid
        x = lb+k*delta up to the tolerance"""
        j = k - sh
        if 0 <= j < n:
            if not x == G[j]:
                return '%s(%r) = %r is not equal to grid[%d] = %r on %s' % (what, v, float(x), j, G[j], _short(spec))
            if f2b(x) != f2b(G[j]):
                if x == 0.0:
                    ctx.count('diag:zero-sign-differs-from-grid-member')
                else:
                    return '%s(%r) = %r is not bit-identical to grid[%d] = %r on %s' % (what, v, float(x), j, G[j], _short(spec))
            if x == 0.0:
                ctx.count('rounded-to-zero:%s' % ('-0.0' if math.copysign(1.0, x) < 0 else '+0.0'))
            hx = make_dict_hash({'p': x})
            if lookup.get(hx) != j:
                return 'dictionary lookup of %s(%r) = %r by make_dict_hash does not find grid[%d] on %s' % (
                    what, v, float(x), k, _short(spec))
            for nm, y, hy in spell(j):
                if hy != hx:
                    return ('dictionary lookup of %s(%r) = %r by make_dict_hash does not find the entry registered under %s = %r '
                            '(equal values, different keys) on %s' % (what, v, float(x), nm, y, _short(spec)))
        elif abs(_fr(x) - (lb + k * d)) > tol_lat:
            return '%s(%r) = %r is not lower_bound + %d*delta on %s' % (what, v, float(x), k, _short(spec))
        return None

    for i, v in enumerate(vs):
        q = (_fr(v) - lb) / d
        kx = math.floor(q)
        # admissible lower indices: the exact one, or the next one when v is within the slack below it
        cands = [kx] + ([kx + 1] if q >= kx + 1 - SLACK else [])
        l, u, nn = float(lo[i]), float(up[i]), float(ne[i])
        kl = None
        for k in cands:
            if abs(_fr(l) - (lb + k * d)) <= tol_lat:
                kl = k
        if kl is None:
            return 'round_to_lower_grid_point(%r) = %r on %s, expected grid index %s (lower_bound %r, delta %r)' % (
                v, l, _short(spec), cands, float(lb), float(d))
        r = member(l, kl, 'round_to_lower_grid_point', v) or member(u, kl + 1, 'round_to_upper_grid_point', v)
        if r:
            return r
        if not _fr(l) <= _fr(v) + tol:
            return 'round_to_lower_grid_point(%r) = %r is above the value on %s' % (v, l, _short(spec))
        if not v < u:
            return 'round_to_upper_grid_point(%r) = %r is not above the value on %s' % (v, u, _short(spec))
        if abs((_fr(u) - _fr(l)) - d) > tol_lat:
            return 'upper - lower = %r is not delta = %r for value %r on %s' % (u - l, float(d), v, _short(spec))
        kn = None
        for k in (kl - 1, kl, kl + 1):
            if abs(_fr(nn) - (lb + k * d)) <= tol_lat:
                kn = k
        if kn is None or abs(_fr(nn) - _fr(v)) > (Fraction(1, 2) + SLACK) * d + tol_lat * Fraction(1, 10):
            return 'round_to_nearest_grid_point(%r) = %r is more than half a spacing (%r) away on %s' % (
                v, nn, float(d), _short(spec))
        r = member(nn, kn, 'round_to_nearest_grid_point', v)
        if r:
            return r
        # a value that *is* a grid point stays put
        j = bisect.bisect_left(G, v)
        if j < n and f2b(G[j]) == f2b(v):
            if l != v or nn != v or (j + 1 < n and u != G[j + 1]):
                return 'grid point %r (index %d) of %s rounds to lower %r, nearest %r, upper %r' % (v, j, _short(spec), l, nn, u)
    # a real PDFSet: PDFs registered under the members of the (un-extended and extended) `.grid` and under the literal
    # values must be found with the rounded values that are zero (either sign)
    zeros = [(what, float(v), x) for what, res_ in (('round_to_lower_grid_point', lo), ('round_to_upper_grid_point', up),
                                                    ('round_to_nearest_grid_point', ne))
             for v, x in zip(vs, res_) if x == 0.0]
    if zeros and n <= 80:
        r = _pdfset_lookup(g, ext, spec, zeros)
        if r:
            return r
    if n <= 40 and vs:
        samples = []
        for i in (0, len(vs) // 2, len(vs) - 1):
            for what, res_ in (('round_to_lower_grid_point', lo), ('round_to_nearest_grid_point', ne)):
                jj = [j for j in range(n) if G[j] == res_[i]]
                if jj:
                    samples.append((what, vs[i], res_[i], jj[0]))
        r = _pdfset_members(g, spec, samples)
        if r:
            return r
        ctx.count('pdfset:real-lookups', len(samples))
    # scalar form agrees with the array form
    for i in (0, len(vs) // 2, len(vs) - 1):
        v = vs[i]
        s = (g.round_to_lower_grid_point(v), g.round_to_upper_grid_point(v), g.round_to_nearest_grid_point(v))
        if not all(isinstance(x, float) for x in s) or (f2b(s[0]), f2b(s[1]), f2b(s[2])) != (f2b(lo[i]), f2b(up[i]), f2b(ne[i])):
            return 'scalar and array form of the rounding differ for %r on %s: %r vs %r' % (
                v, _short(spec), s, (float(lo[i]), float(up[i]), float(ne[i])))
    return None


def o_irr(ctx, case):
    """brute-force reference for IrregularParameterGrid"""
    spec, vs = case['grid'], [float(v) for v in case['vs']]
    if any(not a < b for a, b in zip(spec['arr'], spec['arr'][1:])):
        # not strictly increasing: searchsorted has no meaning on it, the constructor has to refuse it
        try:
            g = mk_irr(dict(spec, extra=0))
        except Exception:  # noqa
            return None
        return 'IrregularParameterGrid accepts the grid %r, which is not strictly increasing (round_to_nearest_grid_point(%r) = %r)' % (
            spec['arr'], vs[0], g.round_to_nearest_grid_point(vs[0]))
    if len(spec['arr']) < 2 and spec.get('extra', 0):
        # nothing to mirror: the extension has to refuse (it must not invent bin edges)
        try:
            g = mk_irr(spec)
        except Exception:  # noqa
            return None
        return 'add_extra_lower_and_upper_bin on the %d-point irregular grid %r returned %r instead of raising' % (
            len(spec['arr']), spec['arr'], g.grid.tolist())
    try:
        g = mk_irr(spec)
    except Exception as e:  # noqa
        return 'IrregularParameterGrid(%s) raised %s: %s' % (_short(spec), type(e).__name__, e)
    # the grid object does not share memory with the caller's array
    from skyllh.core.parameters import IrregularParameterGrid
    mine = np.array(spec['arr'], dtype=np.float64)
    ga = IrregularParameterGrid('p', mine)
    before = ga.grid.tolist()
    mine[...] = mine + 1.0
    if ga.grid.tolist() != before:
        return 'IrregularParameterGrid: changing the array passed to the constructor afterwards changes the grid (%r -> %r)' % (
            before[:3], ga.grid.tolist()[:3])
    G = [float(x) for x in g.grid]
    base = [float(x) for x in spec['arr']]
    for _ in range(spec.get('extra', 0)):
        base = [base[0] - (base[1] - base[0])] + base + [base[-1] + (base[-1] - base[-2])]
    if len(G) != len(base) or any(abs(a - b) > 4 * np.spacing(max(abs(a), abs(b), abs(base[-1] - base[0]))) for a, b in zip(G, base)):
        return 'grid after %d extensions is %r…, expected %r… (mirrored first/last spacing)' % (spec.get('extra', 0), G[:3], base[:3])
    for v in vs:
        if v < G[0]:
            try:
                got = g.round_to_lower_grid_point(v)
            except Exception:  # noqa
                got = None
            if got is not None:
                return ('irregular round_to_lower_grid_point(%r) = %r although no grid point is <= the value (first grid point %r): the '
                        'negative index selects from the end of the grid' % (v, got, G[0]))
        if G[0] <= v:
            want = max(x for x in G if x <= v)
            try:
                got = g.round_to_lower_grid_point(v)
            except Exception as e:  # noqa
                return 'irregular round_to_lower_grid_point(%r) raised %s on %r…' % (v, type(e).__name__, G[:4])
            if f2b(got) != f2b(want):
                return 'irregular round_to_lower_grid_point(%r) = %r, greatest grid point <= value is %r' % (v, got, want)
        if v < G[-1]:
            want = min(x for x in G if x > v)
            try:
                got = g.round_to_upper_grid_point(v)
            except Exception as e:  # noqa
                return 'irregular round_to_upper_grid_point(%r) raised %s although the value is below the last grid point %r' % (
                    v, type(e).__name__, G[-1])
            if f2b(got) != f2b(want):
                return 'irregular round_to_upper_grid_point(%r) = %r, least grid point > value is %r' % (v, got, want)
        try:
            got = g.round_to_nearest_grid_point(v)
        except Exception as e:  # noqa
            return 'irregular round_to_nearest_grid_point(%r) raised %s' % (v, type(e).__name__)
        dist = [abs(_fr(x) - _fr(v)) for x in G]
        dmin = min(dist)
        if got not in G:
            return 'irregular round_to_nearest_grid_point(%r) = %r is not a grid member' % (v, got)
        dg = abs(_fr(got) - _fr(v))
        if dg > dmin + Fraction(4e-16) * (abs(_fr(v)) + abs(_fr(got))):
            return 'irregular round_to_nearest_grid_point(%r) = %r at distance %r, nearest member is at %r' % (
                v, got, float(dg), float(dmin))
        if dg == dmin and dist.count(dmin) == 2 and got != G[dist.index(dmin)]:
            j = dist.index(dmin)
            if _fr(G[j]) + _fr(G[j + 1]) == 2 * _fr(v) and (G[j] + G[j + 1]) / 2 == v:
                return 'irregular round_to_nearest_grid_point(%r): exact middle does not go to the lower point %r' % (v, G[j])
        arrres = g.round_to_nearest_grid_point(np.array([v]))
        if f2b(arrres[0]) != f2b(got):
            return 'irregular scalar/array forms differ for %r' % v
    return None


def _interp_tol(fspec, g, xs):
    U = max(abs((float(x) - float(g.grid[0])) / float(g.delta)) for x in xs) + 2.0
    if fspec['kind'] == 'poly':
        c = fspec['c']
        mag = abs(c[0]) + abs(c[1]) * U + abs(c[2]) * U * U
    elif fspec['kind'] == 'exp':
        mag = math.exp(abs(fspec['a']) * U)
    else:
        mag = 1.0
    return mag + 3.5 * U      # + the sid-dependent linear term


EPS = 2.220446049250313e-16


def _interpolant(method, rec_sorted, i, k, x, dx):
    """exact (Fraction) value and derivative at x of the line / parabola through the manifold values the implementation was
    given (recorded by the stub function), and a rounding-error bound for evaluating it in double precision"""
    gs = [r[1][k % len(r[1])] for r in rec_sorted]
    Ms = [r[2][i] for r in rec_sorted]
    Mmax = max(abs(m) for m in Ms) + 1e-300
    X = Fraction(float(x))
    if method == 'linear':
        x0, x1 = Fraction(gs[0]), Fraction(gs[1])
        M0, M1 = Fraction(Ms[0]), Fraction(Ms[1])
        m = (M1 - M0) / (x1 - x0)
        val, der = m * X + (M0 - m * x0), m
        D = float(abs(x1 - x0))
        tolv = 64 * EPS * (Mmax * (abs(float(x)) + abs(gs[0])) / D + Mmax)
        told = 32 * EPS * Mmax / D
    else:
        x1 = Fraction(gs[1])
        M0, M1, M2 = (Fraction(v) for v in Ms)
        DX = Fraction(float(dx))
        a = (M0 - 2 * M1 + M2) / (2 * DX * DX)
        b = (M2 - M0) / (2 * DX)
        t = X - x1
        val, der = a * t * t + b * t + M1, 2 * a * t + b
        tf, D = abs(float(t)), float(dx)
        tolv = 64 * EPS * Mmax * (tf * tf / (D * D) + tf / D + 1) + 4 * EPS * abs(float(x)) * Mmax * (4 * tf / (D * D) + 1 / D)
        told = 64 * EPS * Mmax * (tf / (D * D) + 1 / D) + 16 * EPS * abs(float(x)) * Mmax / (D * D)
    return val, der, tolv, told, gs


def o_interp(ctx, case):
    """fresh interpolation object: the reported value / gradient are the line / parabola through the manifold values at the
    grid points (exact rational reference, rounding-error bound), hence the manifold at grid points and exact for the degree;
    gradient = derivative of the reported value (central difference); per-source independence; shared value = equal values"""
    spec, method, fspec, ns, xs, sid = case['grid'], case['method'], case['func'], case['ns'], case['xs'], case.get('sid', 1)
    g = mk_grid(spec)
    G0, d = float(g.grid[0]), float(g.delta)
    if not d > 0:
        return 'delta %r of %s is not positive' % (d, _short(spec))
    nsrc = len(ns)
    rec = []
    mobj = mk_method(method, g, fspec, ns, rec, persistent=True)
    try:
        vals, grads = call_method(mobj, ns, sid, xs, case.get('pr_form', 'plain'))
    except InputChanged as e:
        return '%s interpolation of xs=%r on %s: %s' % (method, xs, _short(spec), e)
    except Exception as e:  # noqa
        return '%s interpolation of xs=%r on %s raised %s: %s' % (method, xs, _short(spec), type(e).__name__, e)
    ch = manifold_of(mobj).changed()
    if ch:
        # the arrays belong to the manifold function (a PDF set hands out its stored values): writing into them corrupts every
        # later evaluation that uses the same grid point
        return '%s interpolation of xs=%r on %s: %s' % (method, xs, _short(spec), ch)
    nv = sum(ns)
    if vals.shape != (nv,) or grads.shape != (1, nv):
        return '%s interpolation returns shapes %r, %r for %d values' % (method, vals.shape, grads.shape, nv)
    uniq = {}
    for r in rec:
        uniq.setdefault(tuple(f2b(x) for x in r[1]), r)
    rec_sorted = sorted(uniq.values(), key=lambda r: list(r[1]))
    want = {'linear': 2, 'parabola': 3, 'null': 1}[method]
    have_rec = len(rec_sorted) == want
    xk = list(xs) * nsrc if len(xs) == 1 else list(xs)
    off = np.concatenate([[0], np.cumsum(ns)]).astype(int)
    deg = {'linear': 1, 'parabola': 2, 'null': 0}[method]
    lin_term = 0.5 * ((sid or 0) % 7)
    tolvs = np.zeros(nv)
    for k in range(nsrc):
        x = float(xk[k])
        u = (x - G0) / d
        err_u = 4 * EPS * (abs(x) + abs(G0)) / d + 4 * EPS * (abs(u) + 2)      # float error of the stub's coordinate u
        if method == 'null':
            xg = g.round_to_nearest_grid_point(x)
            ug = (xg - G0) / d
        for j in range(ns[k]):
            i = off[k] + j
            w = 1.0 + 0.25 * j
            # magnitude of the terms of the manifold function around u and of its derivative (for the error of the recorded M's)
            U = abs(u) + 2
            if fspec['kind'] == 'poly':
                c = fspec['c']
                magF = (abs(c[0]) + abs(c[1]) * U + abs(c[2]) * U * U) * w + lin_term * U
                dF = (abs(c[1]) + 2 * abs(c[2]) * U) * w + lin_term
            else:
                magF = (f_bound(fspec, 0, u - 2, u + 2) if fspec['kind'] == 'exp' else 1.0) * w + lin_term * U
                dF = f_bound(fspec, 1, u - 2, u + 2) * w + lin_term
            tolM = 16 * EPS * magF + dF * err_u          # error of one recorded manifold value against the real function
            if method == 'null':
                wantv = f_eval(fspec, ug) * w + lin_term * ug
                if abs(vals[i] - wantv) > 4 * tolM or grads[0][i] != 0.0:
                    return 'null interpolation: value %r / gradient %r for source %d (x=%r), expected %r / 0' % (
                        vals[i], grads[0][i], k, x, wantv)
                continue
            exact = f_eval(fspec, u) * w + lin_term * u
            exactg = (f_deriv(fspec, u) * w + lin_term) / d
            polyexact = fspec['kind'] == 'poly' and (fspec['c'][2] == 0 or deg == 2)
            on_grid = any(f2b(x) == f2b(float(t)) for t in g.grid)
            ampl, tolv = 6.0, 0.0
            if have_rec:
                # (1) the reported numbers are the interpolant through the values the method was given
                val, der, tolv, told, gs = _interpolant(method, rec_sorted, i, k, x, d)
                tolvs[i] = tolv
                if abs(Fraction(float(vals[i])) - val) > tolv:
                    return ('%s interpolation at x=%r (source %d, value %d) = %r, the %s through the manifold values at the grid '
                            'points %r is %r (bound %.3g) on %s' % (method, x, k, j, vals[i], 'line' if deg == 1 else 'parabola',
                                                                   gs, float(val), tolv, _short(spec)))
                if abs(Fraction(float(grads[0][i])) - der) > told:
                    return ('%s interpolation at x=%r (source %d, value %d): gradient %r, derivative of the %s through the manifold '
                            'values at the grid points %r is %r (bound %.3g) on %s' % (
                                method, x, k, j, grads[0][i], 'line' if deg == 1 else 'parabola', gs, float(der), told, _short(spec)))
            else:
                tolv = 1e-9 * magF
            # (2) against the manifold function itself
            if polyexact or on_grid:
                if abs(vals[i] - exact) > tolv + ampl * tolM:
                    return '%s interpolation of %s at x=%r (source %d, value %d, %s) = %r, manifold value is %r on %s' % (
                        method, _short(fspec), x, k, j, 'grid point' if on_grid else 'degree<=%d' % deg, vals[i], exact, _short(spec))
            if polyexact:
                if abs(grads[0][i] - exactg) > (told if have_rec else 0.0) + 8 * ampl * tolM / d:
                    return '%s interpolation of %s at x=%r (source %d): gradient %r, derivative is %r on %s' % (
                        method, _short(fspec), x, k, grads[0][i], exactg, _short(spec))
            elif not on_grid:
                # smooth function: interpolation error bound in the local coordinate (cell width 1)
                if deg == 1:
                    bound = f_bound(fspec, 2, u - 1.5, u + 1.5) / 8 * w
                else:
                    bound = f_bound(fspec, 3, u - 2, u + 2) * 0.0642 * w
                if abs(vals[i] - exact) > 1.01 * bound + tolv + ampl * tolM:
                    return '%s interpolation of %s at x=%r (source %d) = %r, manifold value %r, error above the bound %r on %s' % (
                        method, _short(fspec), x, k, vals[i], exact, bound, _short(spec))
    if method == 'null':
        return None
    mag = _interp_tol(fspec, g, xs) * 1.75 * max(1, max(ns))
    # gradient = derivative of the reported value (central difference inside the cell; exact for degree <= 2)
    rnd = g.round_to_lower_grid_point if method == 'linear' else g.round_to_nearest_grid_point
    h = d / 64.0
    ok = all(rnd(float(x) - h) == rnd(float(x)) == rnd(float(x) + h) for x in xs)
    if ok and nv:
        vp, _ = call_method(mk_method(method, g, fspec, ns), ns, sid, [float(x) + h for x in xs])
        vm, _ = call_method(mk_method(method, g, fspec, ns), ns, sid, [float(x) - h for x in xs])
        fd = (vp - vm) / (2 * h)
        tolfd = (4 * tolvs + 8 * EPS * (np.abs(vp) + np.abs(vm))) / h if have_rec else 64 * 1e-7 * mag / d * np.ones(nv)
        bad = int(np.argmax(np.abs(fd - grads[0]) - tolfd))
        if abs(fd[bad] - grads[0][bad]) > tolfd[bad]:
            return '%s interpolation of %s at xs=%r: reported gradient %r of value %d, central difference of the reported values %r on %s' % (
                method, _short(fspec), xs, grads[0][bad], bad, fd[bad], _short(spec))
        ctx.count('interp:central-difference-checked')
    # per-source: source k alone gives the same numbers
    if nsrc > 1:
        for k in range(nsrc):
            if ns[k] == 0:
                continue
            v1, g1 = call_method(mk_method(method, g, fspec, [ns[k]]), [ns[k]], sid, [xk[k]])
            sl = slice(off[k], off[k + 1])
            if np.max(np.abs(v1 - vals[sl]), initial=0) > 1e-12 * mag or np.max(np.abs(g1[0] - grads[0][sl]), initial=0) > 1e-12 * mag / d:
                return '%s interpolation: values of source %d in the %d-source call xs=%r are %r, the source alone (x=%r) gives %r on %s' % (
                    method, k, nsrc, xs, vals[sl].tolist(), xk[k], v1.tolist(), _short(spec))
    # one shared value = the same value given for every source
    if len(xs) == 1 and nsrc > 1:
        v2, g2 = call_method(mk_method(method, g, fspec, ns), ns, sid, xk)
        if np.max(np.abs(v2 - vals), initial=0) > 1e-12 * mag or np.max(np.abs(g2 - grads), initial=0) > 1e-12 * mag / d:
            return '%s interpolation: shared value %r and the same value per source differ: %r vs %r' % (method, xs, vals.tolist(), v2.tolist())
    return None


def o_history(ctx, case):
    """a used interpolation object answers like a fresh one (cache transparency), also after calls that raise (wrong
    number of parameter values) and after the caller changed the returned arrays in place (no aliasing of the cache)"""
    spec, method, fspec, ns, calls = case['grid'], case['method'], case['func'], case['ns'], case['calls']
    g = mk_grid(spec)
    d = float(g.delta)
    if not d > 0:
        return 'delta %r of %s is not positive' % (d, _short(spec))
    rec = []
    # the used object gets a manifold function that hands out the arrays of its look-up table (no copies), the fresh objects
    # it is compared with compute their own
    used = mk_method(method, g, fspec, ns, rec, persistent=case.get('func_mode', 'table') == 'table')
    prev_sid, filled_len = None, None
    tdms = {}
    for step, (sid, xs) in enumerate(calls):
        mag = _interp_tol(fspec, g, xs) * 1.75 * max(1, max(ns))
        n_rec = len(rec)
        tdm = None
        if case.get('tdm') == 'reused':
            tdm = tdms.setdefault(sid, StubTDM(ns, sid))          # one trial-data manager object per trial-data state
        try:
            a = call_method(used, ns, sid, xs, case.get('pr_form', 'plain'), tdm)
        except InputChanged as e:
            return '%s interpolation, call %d (state %r, xs=%r) of history %r on %s: %s' % (method, step, sid, xs, calls[:step + 1], _short(spec), e)
        except Exception as e:  # noqa
            a = _exc(e)
        ch = manifold_of(used).changed()
        if ch:
            return '%s interpolation, call %d (state %r, xs=%r) of history %r on %s: %s' % (
                method, step, sid, xs, calls[:step + 1], _short(spec), ch)
        try:
            b = call_method(mk_method(method, g, fspec, ns), ns, sid, xs)
        except Exception as e:  # noqa
            b = _exc(e)
        # which branch of the cache logic this call took (evidence counters)
        if isinstance(b, str):
            br = 'raise'
        elif len(rec) == n_rec:
            br = 'mixed-hit' if filled_len is not None and filled_len != len(xs) else 'hit'
        else:
            br = 'state-change' if prev_sid is not None and prev_sid != sid else 'miss'
            filled_len = len(xs)
        ctx.count('history:%s:%s' % (method, br))
        if not isinstance(b, str):
            prev_sid = sid
        if isinstance(a, str) or isinstance(b, str):
            # both raise (the exception class is not constrained) or both answer
            if isinstance(a, str) != isinstance(b, str):
                return '%s interpolation, call %d (state %r, xs=%r) of history %r on %s: used object %s, fresh object %s' % (
                    method, step, sid, xs, calls[:step + 1], _short(spec), 'raises ' + a[4:] if isinstance(a, str) else 'returns',
                    'raises ' + b[4:] if isinstance(b, str) else 'returns')
            continue
        if a[0].shape != b[0].shape or np.max(np.abs(a[0] - b[0]), initial=0) > 1e-12 * mag or \
                np.max(np.abs(a[1] - b[1]), initial=0) > 1e-12 * mag / d:
            return ('%s interpolation, call %d (state %r, xs=%r) after history %r on %s: used object returns values %r grads %r, '
                    'a fresh object %r grads %r' % (method, step, sid, xs, calls[:step], _short(spec), a[0].tolist()[:4],
                                                   a[1][0].tolist()[:4], b[0].tolist()[:4], b[1][0].tolist()[:4]))
        if case.get('mutate', True):
            # the caller owns what was returned: scaling it in place must not reach into the object
            a[0][...] = a[0] * 2.0 + 1.0
            a[1][...] = a[1] * 2.0 + 1.0
    return None


def o_ctor(ctx, case):
    """argument checks of ParameterGrid.__init__: a number of decimals outside 0..16 is refused; a constructed grid is finite"""
    from skyllh.core.parameters import ParameterGrid
    dec = case['decimals']
    try:
        g = ParameterGrid('p', np.array(case['arr'], dtype=np.float64), delta=case.get('delta'), decimals=dec)
    except (ValueError, TypeError):
        if 0 <= dec <= MAXDEC_DEFAULT and float(np.around(np.float64(case['delta']), dec)) > 0:
            return 'ParameterGrid(%r, delta=%r, decimals=%r) raises' % (case['arr'], case.get('delta'), dec)
        return None
    if 0 <= dec <= MAXDEC_DEFAULT and float(np.around(np.float64(case['delta']), dec)) < 0:
        v = (case['arr'][0] + case['arr'][1]) / 2 if len(case['arr']) > 1 else case['arr'][0] + 0.25
        return ('ParameterGrid(%r, delta=%r, decimals=%r) is accepted with a negative spacing: round_to_lower_grid_point(%r) = %r is '
                'above the value' % (case['arr'], case.get('delta'), dec, v, g.round_to_lower_grid_point(v)))
    if not 0 <= dec <= MAXDEC_DEFAULT or float(np.around(np.float64(case['delta']), dec)) == 0:
        return 'ParameterGrid(%r, delta=%r, decimals=%r) is accepted instead of raising; grid = %r' % (
            case['arr'], case.get('delta'), dec, g.grid.tolist()[:4])
    if not np.all(np.isfinite(g.grid)):
        return 'ParameterGrid(%r, delta=%r, decimals=%r) has the non-finite grid %r' % (case['arr'], case.get('delta'), dec, g.grid.tolist()[:4])
    return None


def o_fromrange(ctx, case):
    """ParameterGrid.from_range(name, start, stop, delta): "the stop value will be the last grid point" """
    from skyllh.core.parameters import ParameterGrid
    start, stop, delta, m = case['start'], case['stop'], case['delta'], case['m']
    try:
        g = ParameterGrid.from_range('p', start, stop, delta)
    except Exception as e:  # noqa
        return 'ParameterGrid.from_range(%r, %r, %r) raised %s: %s' % (start, stop, delta, type(e).__name__, e)
    G = g.grid
    if len(G) != m + 1 or abs(G[-1] - stop) > 1e-9 * delta or abs(G[0] - start) > 1e-9 * delta:
        return 'ParameterGrid.from_range(%r, %r, %r) has %d grid points %r … %r, expected %d points ending at the stop value' % (
            start, stop, delta, len(G), float(G[0]), float(G[-1]), m + 1)
    return None


def _inplace_attempts(a):
    """in-place operations a caller may do on an array it was handed; each returns True when it wrote"""
    def t(f):
        try:
            f()
            return True
        except (ValueError, TypeError):
            return False
    return [('a[0] = …', lambda: t(lambda: a.__setitem__(0, a[0] + 1000.0))),
            ('a += delta/2', lambda: t(lambda: a.__iadd__(0.5))),
            ('np.add(a, 1, out=a)', lambda: t(lambda: np.add(a, 1.0, out=a))),
            ('a.fill(…)', lambda: t(lambda: a.fill(-7.0))),
            ('a[::-1].sort()', lambda: t(lambda: a[::-1].sort()))]
    # (deliberately switching the write flag back on, a.setflags(write=True), is not an accident and not tried)


def o_views(ctx, case):
    """nothing the grid objects hand out or take in shares writable memory with them — for an object obtained in any way
    (constructor, extra bins, copy(), deepcopy, pickle round trip, member of a copied grid set): the array of the `grid`
    property, the arrays returned by the rounding methods, the arrays passed in; a derived object equals its original and is
    independent of it"""
    from skyllh.core.parameters import ParameterGrid, IrregularParameterGrid
    irregular = case.get('irregular', False)
    form = case.get('arr_form', 'ndarray')
    arr, form = as_form(case['arr'], form)
    via = list(case.get('via', ()))
    what = '%s(%r…, %s)%s' % ('IrregularParameterGrid' if irregular else 'ParameterGrid', case['arr'][:3], form,
                             ''.join(' -> ' + h for h in via))
    g0 = IrregularParameterGrid('p', arr) if irregular else ParameterGrid('p', arr, delta=case.get('delta'), decimals=case.get('decimals'))
    for _ in range(case.get('extra', 0)):
        try:
            g0.add_extra_lower_and_upper_bin()
        except ValueError:
            break
    g = g0
    for how in via:
        g = derive(g, how)
    before = g.grid.tolist()
    vs = [float(v) for v in case['vs']]

    def rnd(o):
        out = []
        for v in vs:
            try:
                out.append(o.round_to_nearest_grid_point(v))
            except IndexError:
                out.append('IndexError')
        return out
    ref = rnd(g)
    # (0) a derived object is the same grid as its original
    if via and ([f2b(x) for x in g.grid] != [f2b(x) for x in g0.grid] or rnd(g0) != ref or
                (not irregular and (f2b(g.lower_bound), f2b(g.delta), g.decimals) != (f2b(g0.lower_bound), f2b(g0.delta), g0.decimals))):
        return '%s differs from its original: grid %r… vs %r…' % (what, g.grid.tolist()[:3], g0.grid.tolist()[:3])
    # (1) the constructor does not change its argument, and changing the argument afterwards does not change the grid
    if [float(x) for x in arr] != [float(x) for x in case['arr']]:
        return '%s changed the array passed to the constructor: %r' % (what, list(arr)[:4])
    if isinstance(arr, np.ndarray) and arr.flags.writeable:
        arr[...] = arr + 1
        if g.grid.tolist() != before:
            return '%s: changing the array passed to the constructor afterwards changes the grid' % what
    # (2) the array handed out by the grid property is not a writable window into the object (nor into its original)
    orig_before = g0.grid.tolist()
    for label, attempt in _inplace_attempts(g.grid):
        wrote = attempt()
        if g.grid.tolist() != before or rnd(g) != ref:
            return ('%s: the in-place operation `%s` on the array returned by the grid property %s and changes the grid values behind '
                    'the back of the object (grid[0] %r -> %r): rounding results are no longer members' % (
                        what, label, 'is accepted' if wrote else 'raises', before[0], float(g.grid[0])))
        if g0.grid.tolist() != orig_before:
            return '%s: the in-place operation `%s` on the grid of the derived object changes the original' % (what, label)
    # (3) rounding neither changes its argument nor returns a window into the object
    varg, vform = as_form(vs, case.get('vs_form', 'ndarray'))
    for name in ('round_to_nearest_grid_point', 'round_to_lower_grid_point', 'round_to_upper_grid_point'):
        try:
            r = getattr(g, name)(varg)
        except IndexError:
            continue
        if [float(x) for x in np.ravel(varg)] != vs:
            return '%s.%s changed its argument (%s): %r' % (what, name, vform, list(np.ravel(varg))[:4])
        r = np.asarray(r)
        if r.size and r.flags.writeable:
            r[...] = -12345.0
        if g.grid.tolist() != before:
            return '%s.%s returns a window into the grid: writing into the result changed the grid' % (what, name)
    # (4) a further copy is independent
    c = g.copy()
    try:
        c.add_extra_lower_and_upper_bin()
    except ValueError:
        pass
    if g.grid.tolist() != before or g0.grid.tolist() != orig_before:
        return '%s: extending a copy changed the grid it was copied from' % what
    return None


def o_objhist(ctx, case):
    """a grid object that has been queried, extended, re-assigned, copied … answers at every point of its history like a
    freshly constructed object with the same grid values (nothing computed for an earlier grid may answer for a later one)"""
    from skyllh.core.parameters import ParameterGrid, IrregularParameterGrid
    irregular = case.get('irregular', False)
    arr, _ = as_form(case['arr'], case.get('arr_form', 'ndarray'))
    try:
        o = IrregularParameterGrid('p', arr) if irregular else ParameterGrid('p', arr, delta=case['delta'], decimals=case['decimals'])
    except (ValueError, IndexError):
        return None
    names = {'n': 'round_to_nearest_grid_point', 'l': 'round_to_lower_grid_point', 'u': 'round_to_upper_grid_point'}
    done = []
    for op in case['ops']:
        done.append(op)
        try:
            if op[0] == 'x':
                o.add_extra_lower_and_upper_bin()
            elif op[0] == 'g':
                o.grid = as_form(op[1], case.get('arr_form', 'ndarray'))[0]
            elif op[0] == 'c':
                o = derive(o, op[1])
            elif op[0] == 'l' and not irregular:
                o.lower_bound = op[1]
                return None                       # descriptors and grid are out of step from here on (open finding, not this oracle)
            elif op[0] in ('q', 'n', 'l', 'u'):
                v = float(op[1])
                if len(o.grid) == 0:
                    continue
                fresh = IrregularParameterGrid('p', np.array(o.grid)) if irregular else \
                    ParameterGrid('p', np.array(o.grid), delta=float(o.delta), decimals=o.decimals)
                for nm in (names.values() if op[0] == 'q' else [names[op[0]]]):
                    res = []
                    for obj in (o, fresh):
                        try:
                            res.append(float(getattr(obj, nm)(v)))
                        except IndexError:
                            res.append('IndexError')
                    tol = 0.0 if irregular else 1e-9 * float(o.delta)
                    same = res[0] == res[1] or (not isinstance(res[0], str) and not isinstance(res[1], str) and abs(res[0] - res[1]) <= tol)
                    if not same:
                        return ('%s(%r…) after the history %r: %s(%r) = %r, a freshly constructed object with the same grid %r… answers %r' % (
                            'IrregularParameterGrid' if irregular else 'ParameterGrid', case['arr'][:3], done[:-1], nm, v, res[0],
                            [float(x) for x in o.grid[:4]], res[1]))
        except (ValueError, IndexError):
            continue
    return None


def o_setter(ctx, case):
    """public setters of ParameterGrid: after `obj.lower_bound = x` the rounding results are still members of obj.grid"""
    from skyllh.core.parameters import ParameterGrid
    g = ParameterGrid('p', np.array(case['arr'], dtype=np.float64))
    g.lower_bound = case['lb']
    r = g.round_to_nearest_grid_point(case['v'])
    if r not in g.grid.tolist():
        return ('after ParameterGrid(%r).lower_bound = %r the result round_to_nearest_grid_point(%r) = %r is not a member of the grid '
                '%r (the setter moves the descriptors and leaves the stored grid alone)' % (case['arr'], case['lb'], case['v'], r, g.grid.tolist()))
    return None


def o_pdfset(ctx, case):
    """the PDF registry over a set of regular grids: every permutation dictionary is registered once and found again — also
    with its items in another order, with the rounded parameter values as key, and through the integer key"""
    from skyllh.core.config import Config
    from skyllh.core.parameters import ParameterGrid, ParameterGridSet
    from skyllh.core.pdf import PDFSet
    from skyllh.core.py import make_dict_hash
    cfg, cls = Config(), _stub_pdf_cls()
    grids = [mk_grid(sp) for sp in case['grids']]
    for i, g in enumerate(grids):
        g.name = 'q%d' % i
    names = [g.name for g in grids]
    pset = PDFSet(cfg=cfg, param_grid_set=ParameterGridSet(grids) if len(grids) > 1 else grids[0])
    dl = pset.gridparams_list
    n_exp = int(np.prod([len(g.grid) for g in grids]))
    if len(dl) != n_exp:
        return 'parameter_permutation_dict_list has %d entries for grids of sizes %r' % (len(dl), [len(g.grid) for g in grids])
    try:
        for d in dl:
            pset.add_pdf(cls(cfg, tuple(float(d[n]) for n in names)), d)
    except KeyError as e:
        return 'PDFSet.add_pdf over the permutations of %s raised KeyError: %s' % ([_short(sp) for sp in case['grids']], e)
    for vals in case['values']:
        rounded = [g.round_to_nearest_grid_point(float(v)) for g, v in zip(grids, vals)]
        if not all(any(f2b(r) == f2b(float(x)) or (r == 0.0 and x == 0.0) for x in g.grid) for g, r in zip(grids, rounded)):
            continue        # outside a grid: not registered
        items = list(zip(names, rounded))
        for order in (items, items[::-1]):
            d = dict(order)
            try:
                pdf = pset.get_pdf(d)
                ok = tuple(pdf.tag) == tuple(float(x) for x in rounded) or all(a == b for a, b in zip(pdf.tag, rounded))
                ok = ok and d in pset and pset[make_dict_hash(d)] is pdf
            except KeyError:
                ok = False
            if not ok:
                return 'PDFSet lookup with the rounded values %r (items in the order %r) of %r does not find the PDF registered for them' % (
                    rounded, [n for n, _ in order], vals)
    return None


def o_keyeq(ctx, case):
    """make_dict_hash: equal dictionaries (as Python compares them: item order irrelevant, 0.0 == -0.0) have equal keys,
    different dictionaries different keys"""
    from skyllh.core.py import make_dict_hash
    d1, d2 = dict(case['d1']), dict(case['d2'])
    same = make_dict_hash(d1) == make_dict_hash(d2)
    if same != (d1 == d2):
        return 'make_dict_hash(%r) %s make_dict_hash(%r) although the dictionaries are %s' % (
            case['d1'], '==' if same else '!=', case['d2'], 'equal' if d1 == d2 else 'different')
    return None


def o_broadcast(ctx, case):
    xs, ns = case['xs'], case['ns']
    tdm = StubTDM(ns)
    try:
        got = tdm.broadcast_sources_array_to_values_array(np.array(xs, dtype=np.float64)).tolist()
    except ValueError:
        got = 'EXC:ValueError'
    if len(xs) == 1:
        want = [xs[0]] * sum(ns)
    elif len(xs) == len(ns):
        want = [x for x, n in zip(xs, ns) for _ in range(n)]
    else:
        want = 'EXC:ValueError'
    if got != want:
        return 'broadcast_sources_array_to_values_array(%r) with %r values per source = %r, expected %r' % (xs, ns, got, want)
    return None


def _short(spec):
    if 'arr' in spec:
        a = spec['arr']
        return 'grid(first=%r, n=%d, delta=%r, decimals=%r, extra=%r)' % (a[0], len(a), spec.get('delta'), spec.get('decimals'), spec.get('extra', 0))
    return repr(spec)


# ------------------------------------------------------------------------------------------
# correspondence: request lines + implementation answer, and the comparison (bit-exact diagnostic, property-level verdict)

# every branch of the modelled functions the driver can report (Driver/C15.lean); value = why a branch cannot be reached
# through the real classes (then it is not expected to be hit), else None
ALL_BRANCHES = {
    'floatD-rint:below-half': None, 'floatD-rint:above-half': None, 'floatD-rint:tie-even': None, 'floatD-rint:tie-odd': None,
    'nearest-rint:below-half': None, 'nearest-rint:above-half': None, 'nearest-rint:tie-even': None,
    'nearest-rint:tie-odd': 'the argument of this rint is floatD % 1 in [0,1): its floor is 0, always even',
    'intD:negative': None, 'intD:nonnegative': None, 'rint:zero-result': None, 'rint:nonzero-result': None,
    'nearest:lower': None, 'nearest:upper': None, 'zero-member:+0.0': None, 'zero-member:-0.0': None,
    'rounds:empty': None, 'rounds:nonempty': None,
    'ctor:negative-decimals': None, 'ctor:too-many-decimals': None, 'ctor:delta-not-positive': None, 'ctor:ok': None,
    'decs:0': None, 'decs:1-15': None, 'decs:16': None,
    'addExtra:ok': None, 'addExtra:empty': 'the `extra` request is only sent for constructed grids; the empty grid is driven through `obj`',
    'obj:ctor-ok': None, 'obj:ctor-raises': None, 'obj:extra': None, 'obj:extra-raises': None, 'obj:set-lower-bound': None, 'obj:set-grid': None,
    'obj:copy': None, 'obj:copy-raises': 'copying cannot raise', 'obj:set-lower-bound-raises': 'the setter cannot raise for a float', 'obj:set-grid-raises': 'the setter cannot raise for a 1-d float array',
    'obj:query': None, 'iobj:ctor-ok': None, 'iobj:ctor-raises': None, 'iobj:extra': None, 'iobj:extra-raises': None, 'iobj:set-grid': None,
    'iobj:set-grid-raises': None, 'iobj:copy': None, 'iobj:nearest': None, 'iobj:lower': None, 'iobj:lower-no-answer': None,
    'iobj:upper': None, 'iobj:upper-no-answer': None, 'iobj:query-after-change': None,
    'iobj:nearest-no-answer': 'the nearest rounding of a non-empty grid always has an answer', 'iobj:copy-raises': 'copying cannot raise',
    'arange:n=0': None, 'arange:n=1': None, 'arange:n>=2': None, 'arange:n<=1': None,
    'mkIrr:ok': None, 'mkIrr:not-increasing': None,
    'irrLower:below-first': None, 'irrLower:ok': None, 'irrUpper:at-or-above-last': None, 'irrUpper:ok': None,
    'irrNearest:first': None, 'irrNearest:last': None, 'irrNearest:inner': None,
    'irrLowerArr:raises': None, 'irrLowerArr:ok': None, 'irrUpperArr:raises': None, 'irrUpperArr:ok': None, 'irrArr:empty': None, 'irrArr:nonempty': None,
    'irrAddExtra:ok': None, 'irrAddExtra:fewer-than-two-points': None,
    'broadcast:shared': None, 'broadcast:per-source': None, 'broadcast:wrong-length': None,
    'lin:first-call': None, 'lin:hit': None, 'lin:miss-other-cell': None, 'lin:miss-state-change': None, 'lin:no-state-id': None,
    'lin:raise-wrong-length': None, 'lin:raise-manifold-length': None,
    'lin:hit-raise': 'equal cached and new lower grid points have equal (valid) lengths, so the broadcast of a hit cannot fail',
    'par:first-call': None, 'par:hit': None, 'par:hit-shared-vs-per-source': None, 'par:miss-other-cell': None,
    'par:miss-shared-vs-per-source': None, 'par:miss-state-change': None, 'par:no-state-id': None, 'par:raise-wrong-length': None,
    'par:raise-manifold-length': None,
    'par:cache-test-raises': 'the number of values is validated before the cache test (fixed code), cached and new lengths are 1 or n_sources',
    'null:D=1': None, 'null:D>=2': None, 'product:D=1': None, 'product:D>=2': None,
    'pdfAdd:ok': None, 'pdfAdd:already-added': None, 'pdfGet:hit': None, 'pdfGet:miss': None, 'keyEq:equal': None, 'keyEq:different': None,
}


def _drv(ctx, lines):
    """run the model driver; every answer ends with ` #<branch tags>`: strip them and count the branches of the model
    functions the requests went through (`branch:<tag>` counters; zero-hit branches are listed in the evidence)"""
    out = []
    for ans in ctx.driver('C15', lines):
        body, sep, tags = ans.rpartition(' #')
        if not sep:
            body, tags = ans, '-'
        if tags != '-':
            for t in tags.split(','):
                ctx.count('branch:' + t)
        out.append(body)
    return out


def _close(a, b, tol):
    return a == b or abs(a - b) <= tol


def _corr_lines(case):
    """-> (request lines, implementation result)"""
    k = case['kind']
    if k in R7.KINDS:
        return R7.lines(case)
    if k == 'grid':
        spec = case['grid']
        arr = np.array(spec['arr'], dtype=np.float64)
        delta_in = spec.get('delta')
        if delta_in is None:
            delta_in = float(np.mean(np.diff(arr)))
        try:
            g = mk_grid(dict(spec, extra=0))
        except Exception as e:  # noqa
            return [], _exc(e)
        lines = ['grid %s %s %d %s' % (f2b(arr[0]), f2b(delta_in), g.decimals, flist(arr)),
                 'decs %s' % f2b(arr[0]), 'decs %s' % f2b(delta_in)]
        impl = {'lb': float(g.lower_bound), 'delta': float(g.delta), 'dec': g.decimals, 'grid': g.grid.tolist(), 'ext': []}
        for _ in range(spec.get('extra', 0)):
            lines.append('extra %s %s %d %s' % (f2b(g.lower_bound), f2b(g.delta), g.decimals, flist(g.grid)))
            g.add_extra_lower_and_upper_bin()
            impl['ext'].append({'lb': float(g.lower_bound), 'grid': g.grid.tolist()})
        return lines, impl
    if k == 'rounds':
        g = mk_grid(case['grid'])
        vs = np.array(case['vs'], dtype=np.float64)
        arg, _ = as_form(case['vs'], case.get('vs_form', 'ndarray'))
        if case.get('vs_form') == '2d' and len(vs) % 2 == 0 and len(vs):
            arg = vs.reshape((-1, 2)).copy()
        res = [np.asarray(fn(arg), dtype=np.float64) for fn in (g.round_to_lower_grid_point, g.round_to_upper_grid_point,
                                                               g.round_to_nearest_grid_point)]
        if any(r.shape != np.shape(arg) for r in res):
            return [], 'EXC:the result has shape %r for an argument of shape %r' % (res[0].shape, np.shape(arg))
        impl = {'lo': res[0].ravel().tolist(), 'up': res[1].ravel().tolist(), 'ne': res[2].ravel().tolist(),
                'delta': float(g.delta), 'grid': g.grid.tolist()}
        return ['rounds %s %s %d %s' % (f2b(g.lower_bound), f2b(g.delta), g.decimals, flist(vs))], impl
    if k == 'irr':
        from skyllh.core.parameters import IrregularParameterGrid
        g = IrregularParameterGrid('p', np.array(case['grid']['arr'], dtype=np.float64))
        lines, impl = [], {'ext': [], 'res': []}
        for _ in range(case['grid'].get('extra', 0)):
            lines.append('irrx %s' % flist(g.grid))
            try:
                g.add_extra_lower_and_upper_bin()
                impl['ext'].append(g.grid.tolist())
            except Exception:  # noqa   (which exception is not part of the property)
                impl['ext'].append('ERR')
                return lines, impl
        for v in case['vs']:
            lines.append('irr %s %s' % (flist(g.grid), f2b(v)))
            r = []
            for fn in (g.round_to_nearest_grid_point, g.round_to_lower_grid_point, g.round_to_upper_grid_point):
                try:
                    r.append(f2b(fn(float(v))))
                except IndexError:
                    r.append('ERR')
            impl['res'].append(' '.join(r))
        return lines, impl
    if k == 'ctor':
        from skyllh.core.parameters import ParameterGrid
        arr = np.array(case['arr'], dtype=np.float64)
        try:
            g = ParameterGrid('p', arr, delta=case['delta'], decimals=case['decimals'])
            impl = '%s %s' % (f2b(g.lower_bound), f2b(g.delta))
        except ValueError:
            impl = 'ERR'
        return ['ctor %s %s %d' % (f2b(arr[0]), f2b(case['delta']), case['decimals'])], impl
    if k == 'auto':
        from skyllh.core.parameters import ParameterGrid
        arr = np.array(case['arr'], dtype=np.float64)
        try:
            g = ParameterGrid('p', arr, delta=case['delta'])
            impl = '%d %s %s' % (g.decimals, f2b(g.lower_bound), f2b(g.delta))
        except ValueError:
            impl = 'ERR'
        return ['auto %s %s' % (f2b(arr[0]), f2b(case['delta']))], impl
    if k == 'arange':
        a = np.arange(case['start'], case['stop'], case['step'])
        return ['arange %s %s %s' % (f2b(case['start']), f2b(case['stop']), f2b(case['step']))], flist(a)
    if k == 'fromrange':
        from skyllh.core.parameters import ParameterGrid, make_linear_parameter_grid_1d
        try:
            # the two makers of a grid from a range are generated alternatives of the same request
            g = (make_linear_parameter_grid_1d('p', case['start'], case['stop'], case['delta']) if case.get('maker') == 'linear1d'
                 else ParameterGrid.from_range('p', case['start'], case['stop'], case['delta']))
        except (ValueError, IndexError):
            return ['fromrange %s %s %s 0' % (f2b(case['start']), f2b(case['stop']), f2b(case['delta']))], 'ERR'
        return ['fromrange %s %s %s %d' % (f2b(case['start']), f2b(case['stop']), f2b(case['delta']), g.decimals)], \
            {'lb': float(g.lower_bound), 'delta': float(g.delta), 'grid': g.grid.tolist()}
    if k == 'obj':
        from skyllh.core.parameters import ParameterGrid
        arr, _ = as_form(case['arr'], case.get('arr_form', 'ndarray'))
        st = lambda o: '%s|%s|%s' % (f2b(o.lower_bound), f2b(o.delta), flist(o.grid))     # noqa
        ops = []
        for op in case['ops']:
            ops.append('x' if op[0] == 'x' else 'c' if op[0] == 'c' else 'q:%s' % f2b(op[1]) if op[0] == 'q' else
                       'l:%s' % f2b(op[1]) if op[0] == 'l' else 'g:%s' % flist(op[1]))
        line = 'obj %s %s %d %s' % (flist(case['arr']), f2b(case['delta']), case['decimals'], ';'.join(ops) or '-')
        try:
            o = ParameterGrid('p', arr, delta=case['delta'], decimals=case['decimals'])
        except (ValueError, IndexError):
            return [line], ['ERR']
        impl = [st(o)]
        for op in case['ops']:
            try:
                if op[0] == 'x':
                    o.add_extra_lower_and_upper_bin()
                elif op[0] == 'c':
                    o = derive(o, op[1])
                elif op[0] == 'q':
                    impl.append('Q%s,%s,%s' % (f2b(o.round_to_lower_grid_point(op[1])), f2b(o.round_to_upper_grid_point(op[1])),
                                               f2b(o.round_to_nearest_grid_point(op[1]))))
                    continue
                elif op[0] == 'l':
                    o.lower_bound = op[1]
                else:
                    o.grid = as_form(op[1], case.get('arr_form', 'ndarray'))[0]
                impl.append(st(o))
            except (ValueError, IndexError, TypeError):
                impl.append('ERR')
        return [line], impl
    if k == 'iobj':
        from skyllh.core.parameters import IrregularParameterGrid
        enc = {'x': lambda op: 'x', 'c': lambda op: 'c', 'g': lambda op: 'g:%s' % flist(op[1]), 'n': lambda op: 'n:%s' % f2b(op[1]),
               'l': lambda op: 'l:%s' % f2b(op[1]), 'u': lambda op: 'u:%s' % f2b(op[1])}
        line = 'iobj %s %s' % (flist(case['arr']), ';'.join(enc[op[0]](op) for op in case['ops']) or '-')
        try:
            o = IrregularParameterGrid('p', as_form(case['arr'], case.get('arr_form', 'ndarray'))[0])
        except ValueError:
            return [line], ['ERR']
        impl = ['S' + flist(o.grid)]
        for op in case['ops']:
            try:
                if op[0] == 'x':
                    o.add_extra_lower_and_upper_bin()
                elif op[0] == 'g':
                    o.grid = as_form(op[1], case.get('arr_form', 'ndarray'))[0]
                elif op[0] == 'c':
                    o = derive(o, op[1])
                else:
                    fn = {'n': o.round_to_nearest_grid_point, 'l': o.round_to_lower_grid_point, 'u': o.round_to_upper_grid_point}[op[0]]
                    try:
                        impl.append('A' + f2b(fn(float(op[1]))))
                    except IndexError:
                        impl.append('AERR')
                    continue
                impl.append('S' + flist(o.grid))
            except ValueError:
                impl.append('ERR')
        return [line], impl
    if k == 'mkirr':
        from skyllh.core.parameters import IrregularParameterGrid
        try:
            IrregularParameterGrid('p', as_form(case['arr'], case.get('arr_form', 'ndarray'))[0])
            impl = 'OK'
        except ValueError:
            impl = 'ERR'
        return ['mkirr %s' % flist(case['arr'])], impl
    if k == 'irra':
        from skyllh.core.parameters import IrregularParameterGrid
        g = IrregularParameterGrid('p', np.array(case['arr'], dtype=np.float64))
        arg, _ = as_form(case['vs'], case.get('vs_form', 'ndarray'))
        r = []
        for fn in (g.round_to_nearest_grid_point, g.round_to_lower_grid_point, g.round_to_upper_grid_point):
            try:
                r.append(flist(np.asarray(fn(arg), dtype=np.float64)))
            except IndexError:
                r.append('ERR')
        return ['irra %s %s' % (flist(case['arr']), flist(case['vs']))], ' '.join(r)
    if k == 'null':
        from skyllh.core.parameters import ParameterGrid, ParameterGridSet
        from skyllh.core.interpolate import NullGridManifoldInterpolationMethod
        grids = [ParameterGrid('p%d' % i, np.array(a, dtype=np.float64), delta=d) for i, (a, d) in enumerate(case['grids'])]
        seen = {}

        def func(tdm, eventdata, gridparams_recarray, n_values, **kw):
            seen['cols'] = [np.atleast_1d(gridparams_recarray['p%d' % i]).tolist() for i in range(len(grids))]
            return np.ones((n_values,))
        m = NullGridManifoldInterpolationMethod(func=func, param_grid_set=ParameterGridSet(grids) if len(grids) > 1 else grids[0])
        nsrc = len(case['params'][0])
        pr = np.empty((nsrc,), dtype=[('p%d' % i, np.float64) for i in range(len(grids))])
        for i, col in enumerate(case['params']):
            pr['p%d' % i] = col
        tdm = StubTDM([case['n'] // nsrc + (1 if j < case['n'] % nsrc else 0) for j in range(nsrc)])
        vals, grads = m(tdm=tdm, eventdata=np.zeros((1, 1)), params_recarray=pr)
        line = 'null %s %s %d' % (';'.join('%s,%s,%d' % (f2b(g.lower_bound), f2b(g.delta), g.decimals) for g in grids),
                                  ';'.join(flist(c) for c in case['params']), case['n'])
        return [line], '%s %s' % (';'.join(flist(c) for c in seen['cols']), ';'.join(flist(r) for r in np.asarray(grads)))
    if k == 'prod':
        from skyllh.core.parameters import IrregularParameterGrid, ParameterGridSet
        gs = [IrregularParameterGrid('q%d' % i, np.array(a, dtype=np.float64)) for i, a in enumerate(case['grids'])]
        dl = ParameterGridSet(gs).parameter_permutation_dict_list
        names = ['q%d' % i for i in range(len(gs))]
        if any(list(d.keys()) != names for d in dl):
            return [], 'EXC:permutation dictionaries do not list the parameters in the order of the grid set'
        return ['prod %s' % ';'.join(flist(a) for a in case['grids'])], ';'.join(flist([d[n] for n in names]) for d in dl)
    if k == 'pdfset':
        from skyllh.core.config import Config
        from skyllh.core.parameters import IrregularParameterGrid, ParameterGridSet
        from skyllh.core.pdf import PDFSet
        cfg, cls = Config(), _stub_pdf_cls()
        gs = [IrregularParameterGrid('q%d' % i, np.array(a, dtype=np.float64)) for i, a in enumerate(case['grids'])]
        names = ['q%d' % i for i in range(len(gs))]
        pset = PDFSet(cfg=cfg, param_grid_set=ParameterGridSet(gs))
        line = 'pdfset %s %s %s %s' % (','.join(names), ';'.join(flist(a) for a in case['grids']),
                                       ';'.join('&'.join('%s=%s' % (n, f2b(v)) for n, v in lk) for lk in case['lookups']) or '-',
                                       case['readd'] if case.get('readd') is not None else '-')
        try:
            for d in pset.gridparams_list:
                pset.add_pdf(cls(cfg, tuple(float(d[n]) for n in names)), d)
        except KeyError:
            return [line], 'ERR'
        res = []
        for lk in case['lookups']:
            d = dict(lk)            # the items in the given (possibly permuted) order
            try:
                tag = pset.get_pdf(d).tag
                if not (d in pset and pset[pset.make_key(d)].tag == tag):
                    return [], 'EXC:PDFSet lookups through the dictionary and through the integer key disagree for %r' % (lk,)
                res.append(flist(tag))
            except KeyError:
                if d in pset:
                    return [], 'EXC:PDFSet.__contains__ finds %r, get_pdf raises KeyError' % (lk,)
                res.append('MISS')
        if case.get('readd') is not None:
            d = pset.gridparams_list[case['readd']]
            try:
                pset.add_pdf(cls(cfg, (0.0,)), d)
                res.append('READD-OK')
            except KeyError:
                res.append('READD-ERR')
        return [line], ';'.join(res)
    if k == 'keyeq':
        from skyllh.core.py import make_dict_hash
        d1, d2 = dict(case['d1']), dict(case['d2'])
        line = 'keyeq %s %s' % ('&'.join('%s=%s' % (n, f2b(v)) for n, v in case['d1']) or '-',
                                '&'.join('%s=%s' % (n, f2b(v)) for n, v in case['d2']) or '-')
        return [line], '1' if make_dict_hash(d1) == make_dict_hash(d2) else '0'
    if k == 'bc':
        tdm = StubTDM(case['ns'])
        try:
            impl = flist(tdm.broadcast_sources_array_to_values_array(np.array(case['xs'], dtype=np.float64)))
        except ValueError:
            impl = 'ERR'
        return ['bc %s %s' % (flist(case['xs']), ilist(case['ns']))], impl
    if k == 'interp':
        # one fresh call; the grid values and manifold values the implementation used are recorded by the stub function
        spec, method, fspec, ns, xs, sid = case['grid'], case['method'], case['func'], case['ns'], case['xs'], case.get('sid', 1)
        g = mk_grid(spec)
        rec = []
        try:
            vals, grads = call_method(mk_method(method, g, fspec, ns, rec, persistent=True), ns, sid, xs)
        except Exception as e:  # noqa
            return [], _exc(e)
        nsrc = len(ns)
        # identify x0 < x1 (< x2) by the grid values, not by the order or the number of the calls
        uniq = {}
        for r in rec:
            uniq.setdefault(tuple(f2b(x) for x in r[1]), r)
        rec = sorted(uniq.values(), key=lambda r: [r[1][i] for i in range(len(r[1]))])
        gsl = [r[1] * nsrc if len(r[1]) == 1 else r[1] for r in rec]
        xk = list(xs) * nsrc if len(xs) == 1 else list(xs)
        off = np.concatenate([[0], np.cumsum(ns)]).astype(int)
        lines = []
        want = 2 if method == 'linear' else 3
        if len(rec) != want:
            # e.g. a vectorised rewrite evaluates the manifold once for all grid points: nothing to compare at this level
            return ['rounds %s %s %d %s' % (f2b(g.lower_bound), f2b(g.delta), g.decimals, flist(xk))], \
                {'skip': True, 'vals': [], 'grads': [], 'gs': None, 'delta': float(g.delta), 'mag': 1.0}
        for kk in range(nsrc):
            for j in range(ns[kk]):
                i = off[kk] + j
                if method == 'linear':
                    lines.append('lin %s %s %s %s %s' % (f2b(gsl[0][kk]), f2b(gsl[1][kk]), f2b(rec[0][2][i]), f2b(rec[1][2][i]), f2b(xk[kk])))
                else:
                    lines.append('par %s %s %s %s %s %s' % (f2b(gsl[1][kk]), f2b(g.delta), f2b(rec[0][2][i]), f2b(rec[1][2][i]),
                                                           f2b(rec[2][2][i]), f2b(xk[kk])))
        # and the grid points themselves against the model's rounding of x
        lines.append('rounds %s %s %d %s' % (f2b(g.lower_bound), f2b(g.delta), g.decimals, flist(xk)))
        impl = {'vals': vals.tolist(), 'grads': grads[0].tolist(), 'gs': gsl, 'delta': float(g.delta),
                'mag': _interp_tol(fspec, g, xs) * 1.75 * max(1, max(ns))}
        return lines, impl
    if k == 'run':
        spec, method, fspec, ns, calls = case['grid'], case['method'], case['func'], case['ns'], case['calls']
        g = mk_grid(spec)
        G0, d = float(g.grid[0]), float(g.delta)
        bad = case.get('bad_len', 0)
        used = mk_method(method, g, fspec, ns, persistent=True, bad_len=bad)      # hands out the arrays of its look-up table, no copies
        table, impl = {}, []
        mag = 1.0
        for sid, xs in calls:
            mag = max(mag, _interp_tol(fspec, g, xs) * 1.75 * max(1, max(ns)))
            xa = np.array(xs, dtype=np.float64)
            if method == 'linear':
                gps = [g.round_to_lower_grid_point(xa), g.round_to_upper_grid_point(xa)]
            else:
                x1 = g.round_to_nearest_grid_point(xa)
                gps = [g.round_to_nearest_grid_point(x1 - g.delta), x1, g.round_to_nearest_grid_point(x1 + g.delta)]
            for gp_ in gps:
                key = (sid, tuple(f2b(x) for x in gp_))
                if key not in table:
                    table[key] = np.concatenate([manifold_values(fspec, sid, gp_.tolist(), ns, G0, d), np.ones(bad)])
            try:
                v, gr = call_method(used, ns, sid, xs, case.get('pr_form', 'plain'))
                impl.append((v.tolist(), gr[0].tolist()))
            except Exception as e:  # noqa
                impl.append('ERR')
        sd = lambda x: 'N' if x is None else '%d' % x          # noqa
        tab = ';'.join('%s:%s:%s' % (sd(sid), ','.join(key), flist(vals)) for (sid, key), vals in table.items()) or '-'
        cl = ';'.join('%s:%s' % (sd(sid), flist(xs)) for sid, xs in calls)
        op = 'linrun' if method == 'linear' else 'parrun'
        return ['%s %s %s %d %s %s %s' % (op, f2b(g.lower_bound), f2b(g.delta), g.decimals, ilist(ns), tab, cl)], \
            {'res': impl, 'mag': mag, 'delta': d, 'store': manifold_of(used).changed()}
    raise ValueError(k)


def _cmp_flists(name, impl, model, tol, diag):
    if len(impl) != len(model):
        return '%s: implementation has %d entries, model %d' % (name, len(impl), len(model))
    for i, (a, b) in enumerate(zip(impl, model)):
        if f2b(a) != f2b(b):
            diag[0] += 1
            if not _close(a, b, tol):
                return '%s[%d]: implementation %r, model %r' % (name, i, a, b)
    return None


def _corr_compare(case, impl, model, diag):
    """-> None | text.  `diag[0]` counts bit-level differences that pass the property-level relation."""
    k = case['kind']
    if isinstance(impl, str) and impl.startswith('EXC:'):
        return '%s: implementation raised %s' % (k, impl)
    if k in R7.KINDS:
        return R7.compare(case, impl, model, diag)
    if k == 'grid':
        t = model[0].split(' ')
        lb, dl, grid = b2f(t[0]), b2f(t[1]), parse_flist(t[2])
        tol = 1e-9 * abs(impl['delta'])
        if case['grid'].get('decimals') is None:
            want = max(int(model[1]), int(model[2]))
            if want != impl['dec']:
                return 'decimals: implementation %d, model max(%s, %s)' % (impl['dec'], model[1], model[2])
        r = (_cmp_flists('lower_bound', [impl['lb']], [lb], tol, diag) or _cmp_flists('delta', [impl['delta']], [dl], tol * 1e-3, diag)
             or _cmp_flists('grid', impl['grid'], grid, tol, diag))
        if r:
            return r
        for e, m in zip(impl['ext'], model[3:]):
            if m == 'ERR':
                return 'extra bins: model raises, implementation does not'
            t = m.split(' ')
            r = _cmp_flists('extended lower_bound', [e['lb']], [b2f(t[0])], tol, diag) or \
                _cmp_flists('extended grid', e['grid'], parse_flist(t[1]), tol, diag)
            if r:
                return r
        return None
    if k == 'rounds':
        t = model[0].split(' ')
        tol = 1e-9 * abs(impl['delta'])
        mlo, mup, mne = parse_flist(t[0]), parse_flist(t[1]), parse_flist(t[2])
        for i in range(5, 8):
            if parse_flist(t[i]) != parse_flist(t[i - 5]) and not all(a != a for a in parse_flist(t[i])):
                return 'model: code form and gp(index) form differ'
        # same grid index = equal up to far less than a spacing (the bit pattern is the diagnostic)
        return (_cmp_flists('lower', impl['lo'], mlo, tol, diag) or _cmp_flists('upper', impl['up'], mup, tol, diag)
                or _cmp_flists('nearest', impl['ne'], mne, tol, diag))
    if k == 'irr':
        ml = list(model)
        for e in impl['ext']:
            m0 = ml.pop(0)
            if (e == 'ERR') != (m0 == 'ERR'):
                return 'irregular extra bins: implementation %s, model %s' % ('raises' if e == 'ERR' else 'returns', 'raises' if m0 == 'ERR' else 'returns')
            if e != 'ERR':
                mg = parse_flist(m0)
                scale = abs(e[-1] - e[0])
                r = _cmp_flists('irregular extended grid', e, mg, 4 * float(np.spacing(scale)) if scale > 0 else 0.0, diag)
                if r:
                    return r
        for v, a, b in zip(case['vs'], impl['res'], ml):
            if a != b:
                # results are members selected by index: compare as numbers (the model's extension may differ in the last bit)
                ta, tb = a.split(' '), b.split(' ')
                if [x == 'ERR' for x in ta] != [x == 'ERR' for x in tb] or any(
                        x != 'ERR' and abs(b2f(x) - b2f(y)) > 4 * np.spacing(abs(b2f(x))) for x, y in zip(ta, tb)):
                    return 'irregular rounding of %r (nearest lower upper): implementation %s, model %s' % (v, a, b)
                diag[0] += 1
        return None
    if k == 'ctor':
        if impl == model[0]:
            return None
        if 'ERR' in (impl, model[0]):
            return 'constructor argument check: implementation %s, model %s' % (
                'raises' if impl == 'ERR' else 'accepts', 'raises' if model[0] == 'ERR' else 'accepts')
        diag[0] += 1
        return None if all(_close(b2f(x), b2f(y), 1e-12 * abs(b2f(y)) + 1e-300) for x, y in zip(impl.split(' '), model[0].split(' '))) \
            else 'constructor descriptors: implementation %s, model %s' % (impl, model[0])
    if k in ('auto', 'mkirr', 'keyeq', 'prod', 'pdfset', 'arange'):
        if impl == model[0]:
            return None
        if k == 'auto' and 'ERR' not in (impl, model[0].split(' ')[-1]):
            a, b = impl.split(' '), model[0].split(' ')
            if a[0] == b[0] and all(_close(b2f(x), b2f(y), 1e-12 * abs(b2f(y)) + 1e-300) for x, y in zip(a[1:], b[1:])):
                diag[0] += 1
                return None
        if k == 'arange':
            a, b = parse_flist(impl), parse_flist(model[0])
            if len(a) == len(b) and all(_close(x, y, 4 * float(np.spacing(max(abs(x), abs(y))))) for x, y in zip(a, b)):
                diag[0] += 1
                return None
        return '%s: implementation %s, model %s' % (k, impl[:120], model[0][:120])
    if k == 'fromrange':
        if impl == 'ERR' or model[0] == 'ERR':
            return None if impl == model[0] else 'from_range: implementation %s, model %s' % (str(impl)[:60], model[0][:60])
        t = model[0].split(' ')
        tol = 1e-9 * abs(impl['delta'])
        mg = parse_flist(t[2])
        if len(mg) != len(impl['grid']):
            return 'from_range(%r, %r, %r): implementation has %d grid points, model %d' % (
                case['start'], case['stop'], case['delta'], len(impl['grid']), len(mg))
        return _cmp_flists('from_range lower_bound', [impl['lb']], [b2f(t[0])], tol, diag) or \
            _cmp_flists('from_range grid', impl['grid'], mg, tol, diag)
    if k == 'obj':
        ms = model[0].split(';')
        if len(ms) != len(impl):
            return 'object history: %d states from the implementation, %d from the model' % (len(impl), len(ms))
        for i, (a, b) in enumerate(zip(impl, ms)):
            if a == b:
                continue
            if 'ERR' in (a, b):
                return 'object history, step %d (%s): implementation %s, model %s' % (
                    i, 'constructor' if i == 0 else case['ops'][i - 1][0], 'raises' if a == 'ERR' else 'succeeds', 'raises' if b == 'ERR' else 'succeeds')
            if a.startswith('Q') or b.startswith('Q'):
                if not (a.startswith('Q') and b.startswith('Q')):
                    return 'object history, step %d: implementation %s, model %s' % (i, a[:40], b[:40])
                d0 = abs(b2f(ms[0].split('|')[1]))
                r = _cmp_flists('object step %d query %r (lower, upper, nearest)' % (i, case['ops'][i - 1][1]), parse_flist(a[1:]),
                                parse_flist(b[1:]), 1e-9 * d0, diag)
                if r:
                    return r
                continue
            fa, fb = a.split('|'), b.split('|')
            d = abs(b2f(fb[1]))
            r = _cmp_flists('object step %d lower_bound' % i, [b2f(fa[0])], [b2f(fb[0])], 1e-9 * d, diag) or \
                _cmp_flists('object step %d delta' % i, [b2f(fa[1])], [b2f(fb[1])], 1e-12 * d, diag) or \
                _cmp_flists('object step %d grid' % i, parse_flist(fa[2]), parse_flist(fb[2]), 1e-9 * d, diag)
            if r:
                return r
        return None
    if k == 'iobj':
        ms = model[0].split(';')
        if len(ms) != len(impl):
            return 'irregular object history: %d entries from the implementation, %d from the model' % (len(impl), len(ms))
        for i, (a, b) in enumerate(zip(impl, ms)):
            if a == b:
                continue
            opd = 'constructor' if i == 0 else repr(case['ops'][i - 1])
            if a[:1] != b[:1] or 'ERR' in (a, b) or a == 'AERR' or b == 'AERR':
                return 'irregular object history, step %d (%s): implementation %s, model %s' % (i, opd, a[:60], b[:60])
            x, y = parse_flist(a[1:]), parse_flist(b[1:])
            scale = max([abs(v) for v in y] + [1e-300])
            if len(x) != len(y) or any(abs(u - v) > 8 * float(np.spacing(scale)) for u, v in zip(x, y)):
                return 'irregular object history, step %d (%s): implementation %s, model %s' % (i, opd, x[:6], y[:6])
            diag[0] += 1
        return None
    if k == 'irra':
        if impl == model[0]:
            return None
        ta, tb = impl.split(' '), model[0].split(' ')
        for nm, a, b in zip(('nearest', 'lower', 'upper'), ta, tb):
            if (a == 'ERR') != (b == 'ERR'):
                return 'irregular %s rounding of the array %r: implementation %s, model %s' % (
                    nm, case['vs'], 'raises' if a == 'ERR' else 'answers', 'raises' if b == 'ERR' else 'answers')
            if a != 'ERR' and [f2b(x) for x in parse_flist(a)] != [f2b(x) for x in parse_flist(b)]:
                return 'irregular %s rounding of the array %r: implementation %s, model %s' % (nm, case['vs'], a[:80], b[:80])
        return None
    if k == 'null':
        if impl == model[0]:
            return None
        a, b = impl.split(' '), model[0].split(' ')
        if a[1] != b[1]:
            return 'Null method gradients: implementation %s, model %s' % (a[1][:80], b[1][:80])
        ca, cb = [parse_flist(x) for x in a[0].split(';')], [parse_flist(x) for x in b[0].split(';')]
        if len(ca) != len(cb):
            return 'Null method: %d parameter columns handed to the manifold function, model %d' % (len(ca), len(cb))
        for i, (x, y) in enumerate(zip(ca, cb)):
            r = _cmp_flists('Null method grid values of parameter %d' % i, x, y, 1e-9 * abs(case['grids'][i][1]), diag)
            if r:
                return r
        return None
    if k == 'bc':
        return None if impl == model[0] else 'broadcast: implementation %s, model %s' % (impl[:80], model[0][:80])
    if k == 'interp':
        if impl.get('skip'):
            return None
        tol = 1e-9 * impl['mag']
        vals = [b2f(m.split(' ')[0]) for m in model[:-1]]
        grads = [b2f(m.split(' ')[1]) for m in model[:-1]]
        r = _cmp_flists('values', impl['vals'], vals, tol, diag) or _cmp_flists('grads', impl['grads'], grads, tol / impl['delta'], diag)
        if r:
            return r
        t = model[-1].split(' ')
        mlo, mup, mne = parse_flist(t[0]), parse_flist(t[1]), parse_flist(t[2])
        tolg = 1e-9 * impl['delta']
        if case['method'] == 'linear':
            return _cmp_flists('x0', impl['gs'][0], mlo, tolg, diag) or _cmp_flists('x1', impl['gs'][1], mup, tolg, diag)
        return _cmp_flists('x1', impl['gs'][1], mne, tolg, diag)
    if k == 'run':
        mres, mstore = (model[0].split(' ') + ['store-same'])[:2]
        if mstore != 'store-same':
            return 'model: the store of the manifold function is reported as changed'
        if impl.get('store'):
            # the model leaves the arrays of the manifold function alone (c15_*_keeps_manifold_store)
            return 'history: ' + impl['store']
        parts = mres.split(';')
        if len(parts) != len(impl['res']):
            return 'history: %d answers from the model for %d calls' % (len(parts), len(impl['res']))
        tol = 1e-9 * impl['mag']
        for i, (a, b) in enumerate(zip(impl['res'], parts)):
            if a == 'ERR' or b == 'ERR':
                if a != b:
                    return 'history call %d: implementation %s, model %s' % (i, 'raises' if a == 'ERR' else 'returns', 'raises' if b == 'ERR' else 'returns')
                continue
            mv, mg = [parse_flist(x) for x in b.split(':')]
            r = _cmp_flists('call %d values' % i, a[0], mv, tol, diag) or _cmp_flists('call %d grads' % i, a[1], mg, tol / impl['delta'], diag)
            if r:
                return 'history ' + r
        return None
    raise ValueError(k)


def o_corr(ctx, case):
    lines, impl = _corr_lines(case)
    model = _drv(ctx, lines)
    return _corr_compare(case, impl, model, [0])


def _safe(fn):
    """an unexpected exception while exercising the implementation is a finding about that input, not a crash of the check"""
    def wrapped(ctx, case):
        from harness.core import MachineryError
        try:
            return fn(ctx, case)
        except MachineryError:
            raise
        except Exception as e:  # noqa
            import traceback
            tb = traceback.extract_tb(e.__traceback__)
            if not any('/skyllh/' in f.filename for f in tb):
                # not raised inside skyllh: a fault of this harness, not a verdict
                raise MachineryError('oracle %s crashed outside skyllh: %s: %s at %s:%d' % (
                    getattr(fn, '__name__', '?'), type(e).__name__, e, os.path.basename(tb[-1].filename), tb[-1].lineno))
            where = next((f for f in reversed(tb) if '/skyllh/' in f.filename), tb[-1])
            return 'unexpected exception, raised %s: %s at %s:%d' % (type(e).__name__, e, os.path.basename(where.filename), where.lineno)
    return wrapped


ORACLES = {'round': _safe(o_round), 'irr': _safe(o_irr), 'ctor': _safe(o_ctor), 'fromrange': _safe(o_fromrange), 'views': _safe(o_views),
           'setter': _safe(o_setter), 'objhist': _safe(o_objhist), 'pdfset': _safe(o_pdfset), 'keyeq': _safe(o_keyeq), 'interp': _safe(o_interp), 'history': _safe(o_history),
           'broadcast': _safe(o_broadcast), 'corr': o_corr}
ORACLES.update({name: _safe(fn) for name, fn in R7.ORACLES.items()})
ALL_BRANCHES.update(R7.BRANCHES)


_POLY = {'kind': 'poly', 'c': [0.75, -1.25, 0.5]}


def _oracles_for(case):
    """the property oracles (name, case) looking at the same behaviour as a correspondence case, incl. variants of the
    input (each call of a history as a fresh call, a polynomial instead of a smooth manifold function)"""
    k = case['kind']
    if k in R7.KINDS:
        return R7.oracles_for(case)
    if k in ('grid', 'rounds'):
        g = case['grid']
        vs = case.get('vs') or [g['arr'][0], g['arr'][-1]]
        return [('round', {'grid': g, 'vs': vs})]
    if k == 'irr':
        return [('irr', {'grid': case['grid'], 'vs': case['vs']})]
    if k == 'bc':
        return [('broadcast', {'xs': case['xs'], 'ns': case['ns']})]
    if k == 'ctor':
        return [('ctor', {x: case[x] for x in ('arr', 'delta', 'decimals')})]
    if k == 'auto':
        return [('round', {'grid': {'arr': case['arr'], 'delta': case['delta'], 'decimals': None, 'extra': 0}, 'vs': case['arr'][:2]})]
    if k == 'fromrange':
        return [('fromrange', {x: case[x] for x in ('start', 'stop', 'delta', 'm')})] if 'm' in case else []
    if k == 'obj':
        sp = {'arr': case['arr'], 'delta': case['delta'], 'decimals': case['decimals'],
              'extra': sum(1 for op in case['ops'] if op[0] == 'x')}
        if any(op[0] not in ('x', 'c', 'q') for op in case['ops']):
            return [('objhist', {x: case[x] for x in ('arr', 'delta', 'decimals', 'ops')})]
        return [('objhist', {x: case[x] for x in ('arr', 'delta', 'decimals', 'ops')}),
                ('round', {'grid': sp, 'vs': [case['arr'][0], case['arr'][-1]]}), ('ctor', {x: case[x] for x in ('arr', 'delta', 'decimals')})]
    if k == 'iobj':
        return [('objhist', {'irregular': True, 'arr': case['arr'], 'ops': case['ops']})]
    if k == 'mkirr':
        return [('irr', {'grid': {'arr': case['arr'], 'extra': 0}, 'vs': [case['arr'][0]]})]
    if k == 'irra':
        return [('irr', {'grid': {'arr': case['arr'], 'extra': 0}, 'vs': case['vs']})]
    if k in ('arange', 'null', 'prod', 'pdfset'):
        return []
    if k == 'keyeq':
        return [('keyeq', {'d1': case['d1'], 'd2': case['d2']})]
    if k == 'interp':
        c = {x: case[x] for x in ('grid', 'method', 'func', 'ns', 'xs', 'sid', 'pr_form') if x in case}
        return [('interp', c), ('interp', dict(c, func=_POLY)), ('round', {'grid': case['grid'], 'vs': case['xs']})]
    if k == 'run':
        h = {x: case[x] for x in ('grid', 'method', 'func', 'ns', 'calls', 'pr_form', 'tdm') if x in case}
        out = [('history', h), ('history', dict(h, func=_POLY))]
        for sid, xs in case['calls']:
            c = {'grid': case['grid'], 'method': case['method'], 'func': case['func'], 'ns': case['ns'], 'xs': xs, 'sid': sid}
            out += [('interp', c), ('interp', dict(c, func=_POLY))]
        return out


def _classify(name, case, res):
    import re
    if re.search(r'raised (\w+)', res) or 'raises' in res:
        return 'raises'
    for key, tag in (('changed in place', 'writes-into-foreign-array'), ('negative spacing', 'negative-delta'), ('negative index', 'lower-wraps-around'),
                     ('not strictly increasing', 'unsorted-accepted'), ('ending at the stop value', 'extra-point'), ('grid property', 'live-view'), ('differs from its original', 'copy-differs'), ('a freshly constructed object', 'stale-after-change'), ('changes the original', 'live-view'),
                     ('window into the grid', 'live-view'), ('changed its argument', 'argument-changed'), ('passed to the constructor', 'input-aliasing'),
                     ('lower_bound =', 'result-not-a-member'), ('make_dict_hash(', 'key-equality'), ('permutation', 'permutations'), ('PDFSet lookup', 'pdfset-lookup-miss'), ('different keys', 'lookup-miss'), ('PDFSet.add_pdf', 'key-collision'), ('is not equal to grid', 'not-a-grid-member'), ('is not positive', 'delta-not-positive'), ('same PDFSet key', 'key-collision'), ('not bit-identical', 'not-a-grid-member'), ('dictionary lookup', 'lookup-miss'), ('is above the value', 'lower-above-value'),
                     ('is not above the value', 'upper-not-above-value'), ('half a spacing', 'nearest-too-far'),
                     ('expected grid index', 'wrong-grid-index'), ('strictly increasing', 'grid-not-increasing'),
                     ('is not lower_bound', 'grid-off-lattice'), ('does not represent', 'grid-not-the-input'), ('points, expected', 'grid-size'),
                     ('rounds to lower', 'grid-point-moves'), ('scalar and array', 'scalar-array-differ'),
                     ('gradient', 'gradient-not-derivative'), ('changes the grid', 'input-aliasing'), ('instead of raising', 'no-error'), ('non-finite grid', 'no-error'), ('changed in place', 'writes-into-foreign-array'), ('the source alone', 'per-source'), ('shared value', 'shared-value'),
                     ('used object raises', 'used-raises-fresh-answers'), ('used object', 'stale-cache'), ('manifold value', 'wrong-value'), ('upper - lower', 'upper-minus-lower')):
        if key in res:
            return tag
    return 'wrong-result'


def _site(name, case):
    if name in ('interp', 'history'):
        return '%s-%s' % (name, case.get('method'))
    return name


# ------------------------------------------------------------------------------------------
# generators

def gen_regular(rng, allow_coarse=False):
    e = rng.choice([-3, -2, -1, 0, 1, 2, 3])
    mant = rng.choice([1, 1, 1, 2, 2.5, 5, 3, 7]) if e < 3 else 1
    spacing = float(mant) * 10.0 ** e if e >= 0 else float(mant) / 10.0 ** (-e)
    style = rng.choice(['int', 'dec', 'dec', 'raw', 'zero', 'neg'])
    ratio = 10 ** rng.uniform(0, 5.5)        # |origin| / spacing <= ~3e5 (see assumptions)
    if style == 'zero':
        origin = 0.0
    elif style == 'int':
        origin = float(round(rng.choice([-1, 1]) * spacing * ratio))
    elif style == 'raw':
        origin = rng.choice([-1, 1]) * spacing * ratio * rng.random()
    else:
        origin = round(rng.choice([-1, 1] if style == 'dec' else [-1]) * spacing * ratio, max(0, -e) + rng.randint(0, 3))
    n = rng.choice([2, 2, 3, 4, 5, 7, 10, 20, 50, 100, 200, rng.randint(2, 200)])
    arr = (origin + np.arange(n) * spacing).tolist()
    if rng.random() < 0.2:
        # grid through zero with a literal decimal origin (-0.9, -0.5, …): lb + k*delta is a tiny number of either sign at the
        # zero member, so the member can be computed as -0.0
        m = rng.choice([1, 2, 3, 3, 4, 5, 7, 9, 10, 25, 60])
        origin = round(-m * spacing, max(0, -e) + 2)
        n = max(2, rng.choice([m + 1, 2 * m + 1, 2 * m + 1, m + 1 + rng.randint(0, m)]))
        if rng.random() < 0.5:
            arr = [round(origin + k * spacing, max(0, -e) + 2) for k in range(n)]       # literal values incl. 0.0 / -0.0
        else:
            arr = (origin + np.arange(n) * spacing).tolist()
    spec = {'arr': arr, 'delta': rng.choice([spacing, spacing, None]), 'decimals': None, 'extra': rng.choice([0, 0, 0, 1, 1, 2]),
            'arr_form': rng.choice(ARR_FORMS[:6] + ('ndarray', 'ndarray')),
            'via': [rng.choice(VIA) for _ in range(rng.choice([0, 0, 0, 1, 1, 2]))]}
    if rng.random() < 0.25:
        from skyllh.core.py import get_number_of_float_decimals as nd
        need = max(nd(arr[0]), nd(spacing))
        if need <= 12:
            spec['decimals'] = need + rng.randint(0, 3)
            if spec['delta'] is None:
                spec['delta'] = spacing
            if allow_coarse and need >= 1 and rng.random() < 0.4:
                # fewer decimals than the first grid value has: the lower bound moves by up to half a unit
                from skyllh.core.py import get_number_of_float_decimals as nd2
                dc = max(nd2(spacing), need - rng.randint(1, 2))
                # not exactly half-way between two multiples of 10^-dc: then every given value is a tie of the nearest
                # rounding and the stored grid starts one spacing below the rounded lower bound (ambiguous input, see assumptions)
                fr_ = (Fraction(arr[0]) * 10 ** dc) % 1
                if abs(fr_ - Fraction(1, 2)) > Fraction(1, 10 ** 6):
                    spec['decimals'] = dc
    return spec


def gen_values(rng, g, m):
    """values anywhere in range incl. exactly on grid points, half-way points, a hair off grid points"""
    G = g.grid
    d = float(g.delta)
    n = len(G)
    vs = []
    for _ in range(m):
        k = rng.randrange(n)
        c = rng.random()
        if c < 0.2:
            v = G[k]
        elif c < 0.35:
            v = (G[k] + G[min(k + 1, n - 1)]) / 2
        elif c < 0.5:
            v = G[k] + rng.choice([-1, 1]) * rng.choice([1e-12, 1e-10, 3e-10, 4.9e-10, 5e-10, 5.1e-10, 7e-10, 1.5e-9, 2e-9, 2.5e-9, 1e-8, 1e-6, 1e-3]) * d
        elif c < 0.6:
            v = float(np.nextafter(G[k], rng.choice([-np.inf, np.inf])))
        elif c < 0.67:
            v = G[0] - rng.random() * 2 * d          # below the lower bound (in range for floor-based counting)
        elif c < 0.72:
            v = G[-1] + rng.random() * 2 * d
        else:
            v = rng.uniform(G[0], G[-1])
        vs.append(float(v))
    zi = [k for k in range(n) if G[k] == 0.0 or abs(G[k]) < 1e-9 * d]
    if zi:
        z = float(G[zi[0]])
        for f in (0.0, -0.0, 1e-12, -1e-12, 0.3, -0.3, 0.49, -0.49, 0.5, -0.5, 0.7, -0.7, 1.0, -1.0, 1.3, -1.3, 4.9e-10, -4.9e-10):
            vs.append(z + f * d if f != 0 else f)
    return vs


def gen_irregular(rng):
    n = rng.choice([1, 2, 2, 3, 4, 5, 8, 20, 60])
    kind = rng.choice(['log', 'rand', 'int'])
    if kind == 'log':
        a = sorted(set(10 ** rng.uniform(-3, 3) for _ in range(n)))
    elif kind == 'int':
        a = sorted(set(float(rng.randint(-50, 50)) for _ in range(n)))
    else:
        a = sorted(set(rng.uniform(-10, 10) for _ in range(n)))
    while len(a) < n:
        a.append(a[-1] + 1.0 + rng.random())
    return {'arr': a, 'extra': rng.choice([0, 0, 1, 1, 2]), 'via': [rng.choice(VIA) for _ in range(rng.choice([0, 0, 1, 1, 2]))]}


def gen_func(rng):
    c = rng.random()
    if c < 0.2:
        return {'kind': 'poly', 'c': [rng.uniform(-2, 2), rng.uniform(-2, 2), 0.0]}
    if c < 0.55:
        return {'kind': 'poly', 'c': [rng.uniform(-2, 2), rng.uniform(-2, 2), rng.choice([-1, 1]) * rng.uniform(0.2, 1.5)]}
    if c < 0.8:
        return {'kind': 'exp', 'a': rng.choice([-1, 1]) * rng.uniform(0.01, 0.05)}
    return {'kind': 'sin', 'a': rng.uniform(0.05, 0.6), 'b': rng.uniform(0, 3)}


def gen_xs(rng, g, nsrc, ctx=None):
    """per-source parameter values (or one shared value) in any cell incl. the first and the last one: on grid points,
    half-way points, within the rounding slack of either, random"""
    G = g.grid
    n = len(G)
    d = float(g.delta)
    m = 1 if rng.random() < 0.3 else nsrc
    xs = []
    for _ in range(m):
        k = rng.randint(0, max(0, n - 2))
        c = rng.random()
        if c < 0.25:
            x, tag = float(G[k]), 'on-grid'
        elif c < 0.4:
            x, tag = float((G[k] + G[min(k + 1, n - 1)]) / 2), 'half-way'
        elif c < 0.55:
            base = float(G[k]) if rng.random() < 0.5 else float((G[k] + G[min(k + 1, n - 1)]) / 2)
            x, tag = base + rng.choice([-1, 1]) * rng.choice([1e-12, 3e-10, 4.9e-10, 5.1e-10, 7e-10, 2e-9]) * d, 'within-slack'
        else:
            x, tag = float(G[k] + rng.random() * d), 'random'
        if ctx is not None:
            ctx.count('interp-x:%s' % tag)
            ctx.count('interp-x:cell=%s' % ('first' if k == 0 else 'last' if k >= n - 2 else 'inner'))
        xs.append(float(x))
    if m > 1 and rng.random() < 0.15:
        xs = [xs[0]] * m          # the same value for every source (cache hits against a shared value)
    return xs


def gen_ns(rng, nsrc):
    """values (selected events) per source, 0..3; some sources may have none, but the values array is not empty"""
    ns = [rng.randint(1, 3) if rng.random() < 0.8 else 0 for _ in range(nsrc)]
    if sum(ns) == 0:
        ns[rng.randrange(nsrc)] = 1
    return ns


def wrong_length(rng, nsrc, xs):
    """a number of parameter values that is neither 1 nor the number of sources"""
    L = rng.choice([x for x in (2, 3, nsrc + 1, nsrc + 2) if x not in (1, nsrc)])
    return [xs[i % len(xs)] for i in range(L)]


# minimised past failures (the defects fixed in the worktree, see findings.d/C15.json); they run first on every tree
_FINE = {'arr': [100.0 + 0.001 * k for k in range(12)], 'delta': 0.001, 'decimals': None, 'extra': 0}
CORPUS = [
    ('round', {'grid': {'arr': [-9.212, -8.212, -7.212], 'delta': 1.0, 'decimals': 2, 'extra': 0}, 'vs': [-8.9]}),
    ('round', {'grid': {'arr': [1.5, 2.0, 2.5, 3.0, 3.5], 'delta': None, 'decimals': None, 'extra': 0}, 'vs': [1.3]}),
    ('round', {'grid': {'arr': [-3.0, -2.0, -1.0, 0.0], 'delta': None, 'decimals': None, 'extra': 0}, 'vs': [-1.5]}),
    # zero member computed as -0.0 (-0.9 + 3*0.3 = -1.1e-16), +0.0 in the extended copy and in literal keys
    ('round', {'grid': {'arr': [-0.9, -0.6, -0.3, 0.0, 0.3, 0.6, 0.9], 'delta': 0.3, 'decimals': None, 'extra': 0},
               'vs': [-0.1, 0.1, 0.0, -0.0, -0.35, 0.25, -0.15, 0.15]}),
    ('round', {'grid': {'arr': [-0.9, -0.6, -0.3, 0.0, 0.3, 0.6, 0.9], 'delta': 0.3, 'decimals': None, 'extra': 1},
               'vs': [-0.1, 0.1, 0.0, -0.0, -0.35, 0.25]}),
    ('history', {'grid': _FINE, 'method': 'linear', 'func': {'kind': 'poly', 'c': [0.5, -1.0, 1.0]}, 'ns': [1],
                 'calls': [[1, [100.0015]], [1, [100.0025]]]}),
    # a call with a wrong number of values must not poison the cache (review round: parabola stored it before validating)
    ('history', {'grid': {'arr': [0.0, 1.0, 2.0, 3.0, 4.0, 5.0, 6.0], 'delta': None, 'decimals': None, 'extra': 0},
                 'method': 'parabola', 'func': {'kind': 'poly', 'c': [0.5, -1.0, 1.0]}, 'ns': [1, 1, 1],
                 'calls': [[1, [2.2, 3.3]], [1, [2.2, 3.3, 4.4]]]}),
    ('history', {'grid': {'arr': [0.0, 1.0, 2.0, 3.0, 4.0, 5.0, 6.0], 'delta': None, 'decimals': None, 'extra': 0},
                 'method': 'linear', 'func': {'kind': 'poly', 'c': [0.5, -1.0, 1.0]}, 'ns': [1, 1, 1],
                 'calls': [[1, [2.2, 3.3]], [1, [2.2, 3.3, 4.4]]]}),
    # the caller scales the returned gradients in place, the next call in the same cell must not see it
    ('history', {'grid': {'arr': [0.0, 1.0, 2.0, 3.0, 4.0, 5.0, 6.0], 'delta': None, 'decimals': None, 'extra': 0},
                 'method': 'linear', 'func': {'kind': 'poly', 'c': [0.5, -1.0, 1.0]}, 'ns': [1, 1, 1],
                 'calls': [[1, [2.2, 3.3, 4.4]], [1, [2.3, 3.4, 4.5]]]}),
    ('irr', {'grid': {'arr': [1.0], 'extra': 1}, 'vs': [1.0]}),
    ('irr', {'grid': {'arr': [1.0, 2.0, 4.0, 8.0], 'extra': 0}, 'vs': [3.0]}),
    ('ctor', {'arr': [1.0, 2.0, 3.0], 'delta': 1.0, 'decimals': -1}),
    # deepening round: decreasing grid / negative spacing, from_range end point, unsorted irregular grid, lower below the first
    # point, writable grid property
    ('ctor', {'arr': [3.0, 2.0, 1.0], 'delta': -1.0, 'decimals': 0}),
    ('fromrange', {'start': 100.0, 'stop': 100.01, 'delta': 0.001, 'm': 10}),
    ('fromrange', {'start': 0.0, 'stop': 1.1, 'delta': 0.1, 'm': 11}),
    ('irr', {'grid': {'arr': [4.0, 1.0, 2.0], 'extra': 0}, 'vs': [1.2]}),
    ('irr', {'grid': {'arr': [1.0, 2.0, 4.0, 8.0], 'extra': 0}, 'vs': [0.5]}),
    ('views', {'arr': [1.0, 2.0, 3.0], 'delta': None, 'decimals': None, 'vs': [1.2, 2.6]}),
    ('views', {'irregular': True, 'arr': [1.0, 2.0, 4.0], 'vs': [1.2, 2.6]}),
    ('views', {'arr': [1.0, 2.0, 3.0], 'delta': None, 'decimals': None, 'vs': [1.2, 2.6], 'via': ['copy']}),
    ('views', {'arr': [1.0, 2.0, 3.0], 'delta': None, 'decimals': None, 'vs': [1.2, 2.6], 'via': ['pickle'], 'extra': 1}),
    ('views', {'arr': [1.0, 2.0, 3.0], 'delta': None, 'decimals': None, 'vs': [1.2, 2.6], 'via': ['gridset-copy', 'deepcopy']}),
    ('views', {'irregular': True, 'arr': [1.0, 2.0, 4.0], 'vs': [1.2, 2.6], 'via': ['gridset-pickle']}),
    # query, then change, then query again (an array derived from the old grid must not answer for the new one)
    ('objhist', {'irregular': True, 'arr': [1.0, 2.0, 4.0], 'ops': [['n', 3.5], ['x'], ['n', 3.5], ['n', 5.2]]}),
    ('objhist', {'irregular': True, 'arr': [1.0, 2.0, 4.0], 'ops': [['n', 3.5], ['c', 'copy'], ['g', [10.0, 20.0, 40.0, 80.0]], ['n', 33.0]]}),
    ('objhist', {'arr': [1.0, 2.0, 3.0], 'delta': 1.0, 'decimals': 0, 'ops': [['q', 2.4], ['x'], ['q', 0.2], ['c', 'deepcopy'], ['x'], ['q', -0.7]]}),
    ('ctor', {'arr': [1.0, 2.0, 3.0], 'delta': 1.0, 'decimals': 17}),
    ('history', {'grid': _FINE, 'method': 'parabola', 'func': {'kind': 'poly', 'c': [0.5, -1.0, 1.0]}, 'ns': [2, 1],
                 'calls': [[1, [100.0015, 100.004]], [1, [100.0024, 100.004]], [2, [100.0024, 100.004]]]}),
]


def run(ctx):
    rng = ctx.rng
    for name, oc in CORPUS:
        ctx.case(nontrivial=True, key=('corpus', name, oc))
        ctx.count('corpus')
        res = ORACLES[name](ctx, oc)
        if res:
            ctx.violation(name, oc, res, signature='C15/%s/%s' % (_site(name, oc), _classify(name, oc, res)))
    ctx.rule = ('regular grids: spacing m*10^e (m in {1,2,2.5,3,5,7}, e=-3..3), origin integer / 0-3 extra decimals / raw float / 0 / '
                'negative with |origin| <= 3e5 spacings, 2..200 points, delta given or inferred, decimals inferred or explicit, 0-2 '
                'extensions by extra bins; values on grid points, half-way, 1e-12..1e-3 spacings off a grid point, float neighbours, '
                'random in range and up to 2 spacings outside; irregular grids (log, random, integer); manifold functions polynomial '
                'of degree 1, 2 and exp/sin in the grid index coordinate, 1..4 sources with 1..3 values each, shared or per-source '
                'parameter values; call histories of length 2..6 over 1-2 trial-data states; a case is non-trivial when distinct by '
                '(kind, grid, arguments)')
    ctx.trusted_base += ['correspondence harness harness/props/c15.py',
                         'numpy.rint / around / floor / remainder / searchsorted semantics re-implemented in Model/Grid.lean and '
                         'compared bit by bit on every run',
                         'IEEE rounding is outside the theorems (statements over the rationals / reals)',
                         'stub TrialDataManager (real broadcast methods) and stub manifold function']
    ctx.assumptions += ['|grid values| <= ~3e5 spacings: beyond ~2e6 spacings the 9 decimals of floatD are below double precision '
                        'and on-grid values can round to the neighbour (limit of the design, not searched)',
                        'explicit decimals are at least the decimals of delta; when they are fewer than the decimals of the first '
                        'value, that value is not exactly half-way between two multiples of 10^-decimals',
                        'the manifold function is a pure function of (trial_data_state_id, grid values) and returns n_values values '
                        '(a wrong length raises for n_values >= 2 and is compared; for n_values = 1 numpy broadcasts it)',
                        'hshared: the manifold function returns the same values for one shared grid value and for that value repeated '
                        'per source (hypothesis of c15_parabola_cache_transparent; the stub functions satisfy it)',
                        'public lower_bound / grid setters of ParameterGrid are outside the quantifier (open finding, '
                        'c15_object_history_counterexample); non-finite values are not rounded']
    corr_cases, oracle_cases = [], []
    # directed correspondence cases: one per branch of the model that random generation does not reach on every seed
    _Z = {'arr': [-0.9, -0.6, -0.3, 0.0, 0.3, 0.6, 0.9], 'delta': 0.3, 'decimals': None, 'extra': 0}
    corr_cases += [
        {'kind': 'rounds', 'grid': _Z, 'vs': [-0.1, 0.1, 0.0, -0.0, -0.31, 0.29], 'vs_form': 'ndarray'},          # zero member -0.0
        {'kind': 'rounds', 'grid': {'arr': [0.0, 1.0, 2.0, 3.0], 'delta': 1.0, 'decimals': None, 'extra': 0},
         'vs': [0.5, 1.5, 2.5, 5e-10, 1.0000000005, 2.0000000015, -0.5, -1.5], 'vs_form': 'list'},            # ties of both rints
        # the witnesses of the Lean counterexamples, replayed on the code next to the model: c15_lower_le_value_counterexample
        # (v = 1 - 1e-10), c15_nearest_within_half_counterexample (v = 1/2 + 1e-10), c15_object_history_counterexample (setter)
        {'kind': 'rounds', 'grid': {'arr': [0.0, 1.0, 2.0], 'delta': 1.0, 'decimals': 0, 'extra': 0},
         'vs': [1.0 - 1e-10, 0.5 + 1e-10], 'vs_form': 'tuple'},
        {'kind': 'obj', 'arr': [0.0, 1.0, 2.0], 'delta': 1.0, 'decimals': 1, 'ops': [['l', 0.5]]},
        {'kind': 'ctor', 'arr': [1.0, 2.0, 3.0], 'delta': 1.0, 'decimals': -1},
        {'kind': 'ctor', 'arr': [1.0, 2.0, 3.0], 'delta': 1.0, 'decimals': 17},
        {'kind': 'ctor', 'arr': [3.0, 2.0, 1.0], 'delta': -1.0, 'decimals': 0},
        {'kind': 'obj', 'arr': [1.0, 2.0, 3.0], 'delta': 1.0, 'decimals': 0, 'ops': [['x'], ['g', []], ['x'], ['l', 0.0], ['g', [0.0, 1.0]], ['x']]},
        {'kind': 'obj', 'arr': [1.0, 2.0, 3.0], 'delta': 1.0, 'decimals': 17, 'ops': [['x']]},
        {'kind': 'pdfset', 'grids': [[-2.0, -1.0, 0.0], [0.5]], 'lookups': [[['q1', 0.5], ['q0', -0.0]], [['q0', 3.0], ['q1', 0.5]]], 'readd': 1},
        {'kind': 'irra', 'arr': [1.0, 2.0, 4.0], 'vs': [], 'vs_form': 'ndarray'},
        {'kind': 'iobj', 'arr': [2.0, 1.0], 'ops': [['n', 1.0]]},
        {'kind': 'iobj', 'arr': [1.0], 'ops': [['n', 3.0], ['x'], ['l', 0.5], ['u', 1.0], ['g', [3.0, 1.0]], ['c', 'copy'], ['g', [0.0, 2.0, 3.0]], ['n', 1.2]]},
        {'kind': 'iobj', 'arr': [1.0, 2.0, 4.0], 'ops': [['n', 3.5], ['x'], ['n', 3.5], ['c', 'pickle'], ['g', [10.0, 20.0, 40.0, 80.0]], ['n', 33.0]]},
        {'kind': 'arange', 'start': 1.0, 'stop': 1.0, 'step': 0.5}, {'kind': 'arange', 'start': 1.0, 'stop': 1.2, 'step': 0.5},
        {'kind': 'fromrange', 'start': 2.0, 'stop': 2.0, 'delta': 0.5, 'm': 0},
    ]
    n_grids = ctx.n(300, 6000)
    for gi in range(n_grids):
        spec = gen_regular(rng, allow_coarse=True)
        try:
            g = mk_grid(spec)
        except Exception as e:  # noqa
            ctx.violation('round', {'grid': spec, 'vs': [spec['arr'][0]]}, 'constructing %s raised %s: %s' % (_short(spec), type(e).__name__, e),
                          signature='C15/round/raises')
            continue
        if not (float(g.delta) > 0 and np.isfinite(float(g.delta)) and np.all(np.isfinite(g.grid))):
            res = ORACLES['round'](ctx, {'grid': spec, 'vs': [spec['arr'][0]]}) or 'degenerate grid descriptors for %s' % _short(spec)
            ctx.violation('round', {'grid': spec, 'vs': [spec['arr'][0]]}, res, signature='C15/round/%s' % _classify('round', spec, res))
            continue
        ctx.count('grid:n=%s' % ('2-9' if len(spec['arr']) < 10 else '10-99' if len(spec['arr']) < 100 else '100-200'))
        ctx.count('grid:extra=%d' % spec['extra'])
        ctx.count('grid:decimals=%s' % ('inferred' if spec['decimals'] is None else 'explicit'))
        ctx.count('grid:delta=%s' % ('inferred' if spec['delta'] is None else 'given'))
        vs = gen_values(rng, g, ctx.n(40, 60))
        corr_cases.append({'kind': 'grid', 'grid': spec})
        vform = rng.choice(ARR_FORMS + ('2d', 'ndarray', 'ndarray'))
        if vform == 'int-dtype':
            vs = [float(round(v)) for v in vs]
        if rng.random() < 0.04:
            vs = []                                   # 0-length argument
        ctx.count('form:rounding-argument=%s' % (vform if vs else '0-length'))
        ctx.count('form:constructor-array=%s' % spec.get('arr_form', 'ndarray'))
        ctx.count('object-obtained-by:%s' % ('+'.join(spec.get('via', ())) or 'constructor' + ('+extra-bins' if spec['extra'] else '')))
        corr_cases.append({'kind': 'rounds', 'grid': spec, 'vs': vs, 'vs_form': vform})
        if vs:
            oracle_cases.append(('round', {'grid': spec, 'vs': vs}))
            if gi % 3 == 0:
                oracle_cases.append(('views', {'arr': spec['arr'], 'delta': spec['delta'], 'decimals': spec['decimals'], 'extra': spec['extra'],
                                               'via': spec.get('via', []) or [rng.choice(VIA)] * rng.choice([0, 1]),
                                               'arr_form': spec.get('arr_form', 'ndarray'), 'vs': vs[:6], 'vs_form': vform if vform != '2d' else 'ndarray'}))
        if spec['decimals'] is None and spec['delta'] is not None:
            corr_cases.append({'kind': 'auto', 'arr': spec['arr'], 'delta': spec['delta']})
        # interpolation on some of the grids
        if len(g.grid) >= 3 and gi % 2 == 0:
            for method in ('linear', 'parabola'):
                nsrc = rng.randint(1, 4)
                ns = gen_ns(rng, nsrc)
                ctx.count('interp:n_sources=%d' % nsrc)
                if 0 in ns:
                    ctx.count('interp:a-source-without-values')
                fspec = gen_func(rng)
                xs = gen_xs(rng, g, nsrc, ctx)
                prf = rng.choice(PR_FORMS)
                ctx.count('form:params_recarray=%s' % prf)
                c = {'grid': spec, 'method': method, 'func': fspec, 'ns': ns, 'xs': xs, 'sid': rng.randint(1, 3), 'pr_form': prf}
                corr_cases.append(dict(c, kind='interp'))
                oracle_cases.append(('interp', c))
                ctx.count('interp:%s:%s:%s' % (method, fspec['kind'] + (str(1 if fspec['c'][2] == 0 else 2) if fspec['kind'] == 'poly' else ''),
                                                 'shared' if len(xs) == 1 else 'per-source'))
                # history on one object: revisit cells, neighbouring cells, other trial-data states, one shared value against
                # the same value per source, calls with a wrong number of values in between
                calls = []
                for _ in range(rng.randint(2, 7)):
                    r = rng.random()
                    if calls and r < 0.35:
                        prev = calls[-1][1]
                        step = rng.choice([0.0, 0.0, 1.0, -1.0, 0.3]) * float(g.delta)
                        xs2 = [min(max(x + step, float(g.grid[0])), float(g.grid[-1])) for x in prev]
                    elif calls and r < 0.55 and nsrc > 1:
                        prev = calls[-1][1]
                        xs2 = [prev[0]] * nsrc if len(prev) != nsrc else [prev[0]]      # shared <-> per source, same value
                    else:
                        xs2 = gen_xs(rng, g, nsrc)
                    if rng.random() < 0.15:
                        xs2 = wrong_length(rng, nsrc, xs2)
                    calls.append([rng.choice([1, 1, 1, 2, 2, None]), xs2])
                h = {'grid': spec, 'method': method, 'func': fspec, 'ns': ns, 'calls': calls, 'pr_form': prf,
                     'tdm': rng.choice(['new', 'reused'])}
                ctx.count('form:trial-data-manager=%s' % h['tdm'])
                corr_cases.append(dict(h, kind='run'))
                if gi % 10 == 0 and sum(ns) >= 2:
                    # the manifold function returns one value too many (for a single value numpy's broadcasting accepts that:
                    # the model's length guard is the function's contract, see assumptions)
                    corr_cases.append(dict(h, kind='run', bad_len=1))
                oracle_cases.append(('history', h))
                ctx.count('history:%s' % method)
            if gi % 8 == 0:
                oracle_cases.append(('interp', {'grid': spec, 'method': 'null', 'func': gen_func(rng), 'ns': [2, 1], 'xs': gen_xs(rng, g, 2), 'sid': 1}))
    for _ in range(ctx.n(100, 2000)):
        spec = gen_irregular(rng)
        try:
            g = mk_irr(spec)
        except Exception:  # noqa  (fewer than two points cannot be extended; the oracle and the model expect the error)
            g = mk_irr(dict(spec, extra=0))
        G = g.grid
        vs = []
        for _ in range(12):
            k = rng.randrange(len(G))
            c = rng.random()
            vs.append(float(G[k] if c < 0.3 else (G[k] + G[min(k + 1, len(G) - 1)]) / 2 if c < 0.5 else
                            np.nextafter(G[k], rng.choice([-np.inf, np.inf])) if c < 0.6 else rng.uniform(G[0], G[-1])))
        vs.append(float(G[0] - 1.0))
        corr_cases.append({'kind': 'irr', 'grid': spec, 'vs': vs})
        oracle_cases.append(('irr', {'grid': spec, 'vs': vs}))
        ctx.count('irregular:extra=%d' % spec['extra'])
        ctx.count('irregular:n=%s' % (len(spec['arr']) if len(spec['arr']) < 3 else '3+'))
    for _ in range(ctx.n(12, 60)):
        dec = rng.choice([-2, -1, 0, 1, 3, 16, 17, 18, 40])
        c = {'arr': [1.0, 2.0, 3.0] if dec > 12 else [1.5, 2.0, 2.5], 'delta': 1.0 if dec > 12 else 0.5, 'decimals': dec}
        if rng.random() < 0.3:
            c = {'arr': [0.25, 0.26, 0.27], 'delta': 0.01, 'decimals': rng.choice([0, 1, 2, 3])}     # delta may round to zero
        corr_cases.append(dict(c, kind='ctor'))
        oracle_cases.append(('ctor', c))
        ctx.count('ctor:decimals=%s' % ('negative' if c['decimals'] < 0 else 'too-many' if c['decimals'] > 16 else 'valid-or-delta-rounds-to-zero'))
    for _ in range(ctx.n(60, 600)):
        nsrc = rng.randint(1, 4)
        ns = [rng.randint(0, 3) for _ in range(nsrc)]
        m = rng.choice([1, nsrc, nsrc, nsrc + 1, max(1, nsrc - 1)])
        c = {'xs': [rng.uniform(-5, 5) for _ in range(m)], 'ns': ns}
        corr_cases.append(dict(c, kind='bc'))
        oracle_cases.append(('broadcast', c))
        ctx.count('broadcast')

    # ---- np.arange / from_range
    for _ in range(ctx.n(40, 600)):
        e = rng.choice([-3, -2, -1, 0, 1])
        delta = float(rng.choice([1, 2, 2.5, 5, 3, 7])) * 10.0 ** e
        start = round(rng.choice([0.0, 1.0, -3.0, 100.0, -1.5, 0.3, rng.uniform(-50, 50)]), 3)
        m = rng.choice([0, 1, 2, 3, 10, 11, 30, 61, rng.randint(1, 199)])
        stop = round(start + m * delta, 9)
        c = {'start': start, 'stop': stop, 'delta': delta, 'm': m}
        mk_ = rng.choice(['from_range', 'linear1d'])
        ctx.count('form:range-maker=%s' % mk_)
        corr_cases.append(dict(c, kind='fromrange', maker=mk_))
        oracle_cases.append(('fromrange', c))
        corr_cases.append({'kind': 'arange', 'start': start, 'stop': rng.choice([stop, stop + delta, stop + delta / 2, start, start - delta]), 'step': delta})
        ctx.count('from_range:m=%s' % (m if m < 2 else '2+'))

    # ---- ParameterGrid objects with a history of operations
    for _ in range(ctx.n(40, 500)):
        spec = gen_regular(rng)
        from skyllh.core.py import get_number_of_float_decimals as nd
        dl = spec['delta'] if spec['delta'] is not None else float(np.mean(np.diff(spec['arr'])))
        dec = max(nd(spec['arr'][0]), nd(dl))
        if dec > 12:
            continue
        arr = spec['arr'][:rng.choice([2, 3, 5, 12])]
        ops = []
        for _ in range(rng.randint(0, 4)):
            r = rng.random()
            ops.append(['q', float(arr[0] + rng.uniform(-1.5, len(arr) + 1.5) * dl)])          # a query before every change
            if r < 0.45:
                ops.append(['x'])
            elif r < 0.6:
                ops.append(['c', rng.choice(VIA)])
            elif r < 0.8:
                ops.append(['l', round(arr[0] + rng.choice([-2, -1, 0, 0.5, 1, 3]) * dl + rng.choice([0, 0.3 * dl]), dec + 1)])
            else:
                k0 = rng.randint(-2, 3)
                ops.append(['g', [round(arr[0] + (k0 + i) * dl, dec) for i in range(rng.randint(1, 5))]])
        ops.append(['q', float(arr[0] + rng.uniform(-1.5, len(arr) + 1.5) * dl)])              # … and one at the end
        if rng.random() < 0.1:
            ops.insert(rng.randint(0, len(ops)), ['g', []])           # an empty grid (then nothing can be extended)
        c = {'arr': arr, 'delta': dl if rng.random() > 0.08 else -dl, 'decimals': dec if rng.random() > 0.08 else rng.choice([-1, 17]),
             'ops': ops, 'arr_form': rng.choice(ARR_FORMS[:6])}
        corr_cases.append(dict(c, kind='obj'))
        if not any(op[0] == 'l' for op in ops) and c['decimals'] == dec and c['delta'] > 0:
            oracle_cases.append(('objhist', {x: c[x] for x in ('arr', 'delta', 'decimals', 'ops', 'arr_form')}))
        for op in ops:
            ctx.count('object-op:%s' % {'x': 'extra-bins', 'l': 'lower_bound-setter', 'g': 'grid-setter', 'c': 'continue-with-a-copy', 'q': 'query'}[op[0]])

    # ---- irregular grids: constructor check, array arguments, memory
    for _ in range(ctx.n(60, 800)):
        spec = gen_irregular(rng)
        arr = list(spec['arr'])
        r = rng.random()
        if r < 0.2 and len(arr) >= 2:
            i = rng.randrange(len(arr) - 1)
            arr[i], arr[i + 1] = arr[i + 1], arr[i]          # not increasing
        elif r < 0.3 and len(arr) >= 2:
            arr[rng.randrange(1, len(arr))] = arr[0]         # a duplicate / not increasing
        form = rng.choice(ARR_FORMS[:6])
        corr_cases.append({'kind': 'mkirr', 'arr': arr, 'arr_form': form})
        sorted_ok = all(a < b for a, b in zip(arr, arr[1:]))
        ctx.count('irregular-constructor:%s' % ('increasing' if sorted_ok else 'not-increasing'))
        if not sorted_ok:
            oracle_cases.append(('irr', {'grid': {'arr': arr, 'extra': 0}, 'vs': [arr[0]]}))
            continue
        span = (arr[-1] - arr[0]) or 1.0
        vs = [rng.choice(arr) if rng.random() < 0.3 else rng.uniform(arr[0], arr[-1]) for _ in range(rng.randint(0, 6))]
        c2 = rng.random()
        if c2 < 0.25:
            vs.append(arr[-1] + rng.random() * span)         # above the last point: upper raises for the whole array
        elif c2 < 0.5:
            vs.append(arr[0] - rng.random() * span - 1e-9)   # below the first point: lower raises for the whole array
        rng.shuffle(vs)
        vform = rng.choice(ARR_FORMS[:6])
        corr_cases.append({'kind': 'irra', 'arr': arr, 'vs': vs, 'vs_form': vform})
        ctx.count('irregular-array-argument:%s' % ('0-length' if not vs else 'some-out-of-range' if c2 < 0.5 else 'in-range'))
        if vs and gi % 1 == 0:
            oracle_cases.append(('views', {'irregular': True, 'arr': arr, 'arr_form': form, 'vs': vs[:5], 'vs_form': vform,
                                           'via': [rng.choice(VIA) for _ in range(rng.choice([0, 1, 1, 2]))], 'extra': rng.choice([0, 0, 1])}))

    # ---- irregular grid objects: queries, extensions, assignments and copies interleaved
    for _ in range(ctx.n(60, 800)):
        arr = gen_irregular(rng)['arr']
        cur = list(arr)
        ops = []
        for _ in range(rng.randint(2, 7)):
            span = (cur[-1] - cur[0]) or 1.0
            r = rng.random()
            if r < 0.45 or not ops:
                v = rng.choice(cur) if rng.random() < 0.25 else (cur[0] + cur[-1]) / 2 if rng.random() < 0.1 else \
                    rng.uniform(cur[0] - 0.3 * span, cur[-1] + 0.3 * span)
                ops.append([rng.choice(['n', 'n', 'l', 'u']), float(v)])
            elif r < 0.65:
                ops.append(['x'])
                if len(cur) >= 2:
                    cur = [cur[0] - (cur[1] - cur[0])] + cur + [cur[-1] + (cur[-1] - cur[-2])]
            elif r < 0.8:
                new = gen_irregular(rng)['arr']
                if rng.random() < 0.2 and len(new) >= 2:
                    new[0], new[1] = new[1], new[0]          # refused: the object keeps its grid
                else:
                    cur = list(new)
                ops.append(['g', new])
            else:
                ops.append(['c', rng.choice(VIA)])
        v = rng.uniform(cur[0], cur[-1]) if len(cur) > 1 else cur[0]
        ops += [['n', float(v)], ['l', float(v)], ['u', float(v)]]
        c = {'arr': arr, 'ops': ops, 'arr_form': rng.choice(ARR_FORMS[:6])}
        corr_cases.append(dict(c, kind='iobj'))
        oracle_cases.append(('objhist', dict(c, irregular=True)))
        ctx.count('irregular-object-history')

    # ---- Null method, permutations, PDF registry, dictionary keys
    for _ in range(ctx.n(30, 400)):
        D = rng.choice([1, 1, 2, 2, 3])
        grids, cols = [], []
        nsrc = rng.randint(1, 3)
        for _ in range(D):
            sp = gen_regular(rng)
            dl = sp['delta'] if sp['delta'] is not None else float(np.mean(np.diff(sp['arr'])))
            a = sp['arr'][:rng.choice([2, 3, 4])]
            grids.append([a, dl])
            cols.append([rng.choice(a) + rng.choice([0, 0.5, 0.3, -0.2, 0.49999]) * dl for _ in range(nsrc)])
        corr_cases.append({'kind': 'null', 'grids': grids, 'params': cols, 'n': rng.randint(nsrc, 6)})
        ctx.count('null:D=%d' % D)
        small = [sorted(set(round(rng.uniform(-3, 3), 1) + 0.0 for _ in range(rng.randint(1, 3)))) for _ in range(D)]
        if rng.random() < 0.3:
            small[0] = sorted(set(small[0] + [-2.0, -1.0, 0.0]))      # hash(-1.0) == hash(-2.0), and a zero
        corr_cases.append({'kind': 'prod', 'grids': small})
        lookups = []
        for _ in range(4):
            tup = [rng.choice(g) for g in small]
            if rng.random() < 0.3:
                tup[rng.randrange(D)] += rng.choice([0.05, -0.0 if 0.0 in small[0] else 0.05])
            items = [['q%d' % i, -0.0 if (v == 0 and rng.random() < 0.5) else v] for i, v in enumerate(tup)]
            if rng.random() < 0.5:
                items.reverse()
            lookups.append(items)
        corr_cases.append({'kind': 'pdfset', 'grids': small, 'lookups': lookups, 'readd': 0 if rng.random() < 0.3 else None})
        d1 = [['q%d' % i, rng.choice([-2.0, -1.0, 0.0, -0.0, 0.5, 1.0])] for i in range(D)]
        d2 = [list(x) for x in d1]
        c3 = rng.random()
        if c3 < 0.3:
            d2.reverse()
        elif c3 < 0.6:
            d2[0][1] = rng.choice([-2.0, -1.0, 0.0, -0.0, 0.5])
        elif c3 < 0.7:
            d2 = d2[:-1]
        corr_cases.append({'kind': 'keyeq', 'd1': d1, 'd2': d2})
        oracle_cases.append(('keyeq', {'d1': d1, 'd2': d2}))
        if gi % 1 == 0 and D <= 2:
            sps = []
            for a, dl in grids:
                sps.append({'arr': a, 'delta': dl, 'decimals': None, 'extra': rng.choice([0, 1])})
            oracle_cases.append(('pdfset', {'grids': sps, 'values': [[c[j] for c in cols] for j in range(nsrc)]}))

    # ---- round 7: linear method over irregular grids, grid sets, the parametrised roundings / gradient
    c7, o7 = R7.gen(ctx, rng)
    corr_cases += c7
    oracle_cases += o7

    # ---- correspondence, one driver batch
    reqs, spans, impls = [], [], []
    for c in corr_cases:
        try:
            lines, impl = _corr_lines(c)
        except Exception as e:  # noqa  (the implementation raised where it should not: handled as a disagreement)
            lines, impl = [], _exc(e)
        spans.append((len(reqs), len(reqs) + len(lines)))
        reqs += lines
        impls.append(impl)
    models = _drv(ctx, reqs)
    diag = [0]
    suspicious = []
    compare_errors = []
    for c, (a, b), impl in zip(corr_cases, spans, impls):
        ctx.case(nontrivial=True, key=c, desc=_sample(c) if ctx.evaluations % 211 == 0 else None)
        ctx.count('corr:' + c['kind'])
        try:
            dmsg = _corr_compare(c, impl, models[a:b], diag) if not (isinstance(impl, str) and impl.startswith('EXC:')) \
                else '%s: implementation raised %s' % (c['kind'], impl)
        except Exception as e:  # noqa  (unexpected shape of an answer: a fault of the harness/driver pair, decided at the end)
            compare_errors.append('%s: %s: %s (model answer %r)' % (c['kind'], type(e).__name__, e, _trim(models[a:b])[:200]))
            continue
        if dmsg:
            suspicious.append((c, impl, models[a:b], dmsg))
    ctx.extra['bit_level_differences_within_relation'] = diag[0]
    hit = set(k[len('branch:'):] for k in ctx.counters if k.startswith('branch:'))
    unknown = sorted(hit - set(ALL_BRANCHES))
    if unknown:
        ctx.note('C15: the driver reports branches the harness does not know: %s' % unknown)
    ctx.extra['counts'] = {
        'model_branches_total': len(ALL_BRANCHES),
        'model_branches_hit': len(hit & set(ALL_BRANCHES)),
        'zero_hit_branches': sorted(b for b, why in ALL_BRANCHES.items() if b not in hit and why is None),
        'unreachable_through_the_code': {b: why for b, why in ALL_BRANCHES.items() if why is not None and b not in hit},
    }

    # ---- property oracles on the implementation
    for name, oc in oracle_cases:
        ctx.case(nontrivial=True, key=(name, oc), desc={'oracle': name, 'case': _sample(oc)} if ctx.evaluations % 307 == 0 else None)
        ctx.count('oracle:' + name)
        res = ORACLES[name](ctx, oc)
        if res:
            ctx.violation(name, _shrink(ctx, name, oc), res, signature='C15/%s/%s' % (_site(name, oc), _classify(name, oc, res)))

    # ---- model/implementation disagreements: search for a failing input, else report the relation
    seen = set()
    for c, impl, model, dmsg in suspicious:
        key = (c['kind'], c.get('method'))
        if key in seen:
            continue
        seen.add(key)
        res = None
        for name, oc in _oracles_for(c):
            res = ORACLES[name](ctx, oc)
            if res:
                break
        if res:
            ctx.violation(name, _shrink(ctx, name, oc), res, signature='C15/%s/%s' % (_site(name, oc), _classify(name, oc, res)),
                          impl_output=_trim(impl), model_output=_trim(model))
        else:
            ctx.violation('corr', c, 'model and implementation disagree (%s) but no property oracle fails on this input' % dmsg,
                          kind='correspondence', relation='same grid index / 1e-9*scale: ' + c['kind'], impl_output=_trim(impl),
                          model_output=_trim(model), signature='C15/corr/%s%s' % (c['kind'], '-' + c['method'] if 'method' in c else ''),
                          no_failing_input=True)
    ctx.extra['correspondence_disagreements'] = len(suspicious)
    if compare_errors:
        ctx.note('C15: %d correspondence comparisons could not be evaluated: %s' % (len(compare_errors), compare_errors[0]))
        if not ctx.violations:
            from harness.core import MachineryError
            raise MachineryError('correspondence comparison failed: ' + compare_errors[0])


def _trim(x):
    s = repr(x)
    return s if len(s) < 1500 else s[:1500] + '…'


def _sample(c):
    c = dict(c)
    if 'grid' in c and len(c['grid']['arr']) > 6:
        c['grid'] = dict(c['grid'], arr=c['grid']['arr'][:3] + ['… %d values' % len(c['grid']['arr'])])
    if 'vs' in c and len(c['vs']) > 6:
        c['vs'] = c['vs'][:6] + ['…']
    return c


def _shrink(ctx, name, oc):
    """smaller failing case with the same oracle: fewer values, then a shorter history"""
    try:
        if name in ('round', 'irr') and len(oc['vs']) > 1:
            for v in oc['vs']:
                c = dict(oc, vs=[v])
                if ORACLES[name](ctx, c):
                    return c
        if name == 'history':
            calls = oc['calls']
            for a in range(len(calls)):
                for b in range(a + 1, len(calls)):
                    c = dict(oc, calls=[calls[a], calls[b]])
                    if ORACLES[name](ctx, c):
                        return c
    except Exception:  # noqa
        pass
    return oc


MANIFEST = dict(
    text=('Lean theorems for the code-shaped model of ParameterGrid (np.around as multiply/rint/divide, floatD rounded to the '
          'extracted number of decimals, floor), over every ordered field with floor (Q and R): each rounding result is the grid point '
          'gp(k) of an explicit integer index in range and a member of the list the constructor stores (lower, nearest, upper), '
          'value < upper = lower + delta, lower <= value and nearest-within-half up to the explicit slack delta/(2*10^9) with the '
          'strict forms refuted by counterexample, ties go down, grid points are fixed points, extension by extra bins; irregular grid: '
          'greatest member <= v / least member > v / nearest member; line and parabola reproduce grid values and are exact for degree '
          '1 / 2; the rounding is locally constant off the switching points and the value the code-shaped call reports has the '
          'reported gradient as derivative (HasDerivAt over R); per-source and shared-value statements for both methods, wrong number '
          'of values raises and keeps the cache; refinement theorems by induction over arbitrary call histories (incl. raising calls, '
          'shared/per-source alternation) that the cached Linear1D / Parabola1D objects answer like fresh ones. The executable Float '
          'model is compared with the real classes on every run; exact-fraction, membership, dictionary/PDFSet-lookup, '
          'rounding-error-bounded interpolant, finite-difference, purity (in-place change of returned arrays), aliasing and '
          'fresh-vs-used oracles search the implementation for failing inputs.'),
    note=('Bit identity in IEEE arithmetic is structural (same pure function of the same integer index) and exhibited by the bit-exact '
          'correspondence and the membership oracle, not proved; theorems are over ordered fields. Grid values are assumed to be within '
          '~3e5 spacings of zero (the 9 decimals of floatD are the limit). Deepening round: the constructor with inferred decimals '
          '(get_number_of_float_decimals proved to keep <=16-decimal numbers), np.arange/from_range, the ParameterGrid object with its '
          'operation history (setters: open finding + Lean counterexample), the irregular constructor check / extension / array '
          'arguments, the Null method, itertools.product permutations and the PDFSet registry keyed by make_dict_hash are inside the '
          'model, each tied by a driver op; every branch of the model is counted per run (evidence counts.zero_hit_branches). '
          'Defects found and fixed: see findings.d/C15.json and design.d/C15.md.'),
    design='DESIGN.md section 4 C15',
    technique='Lean 4 proof (floor/rounding arithmetic over ordered fields, field algebra, HasDerivAt with local constancy of the '
              'rounding, induction over call histories) + bit-exact Float model/implementation correspondence + exact-fraction oracles')
