"""C18 — signal injection conserves counts and produces only valid, relocated events.

Correspondence (real skyllh classes on synthetic set-ups, harness/siggen_fixtures.py, vs. Model/SigGen.lean
through Driver/C18.lean; the random numbers are the uniform deviates the implementation consumed, recorded by
a twin RandomState):
  dist   MultiDatasetSignalGenerator.generate_signal_events(poisson=False): per-dataset event numbers and
         number of deviates consumed — exact;
  band   PointLikeSourceI3SignalGenerationMethod._get_src_dec_bands — bit-exact diagnostic, 1e-12 verdict;
  mc     MCMultiDatasetSignalGenerator on synthetic MC: candidate table (ds, ev, shg, src) — exact,
         normalised weights / weight sum / mu2flux — relative 1e-9; generate_signal_events: reported number,
         deviates consumed and, per dataset, the originating MC events in order — exact (cases where a deviate
         is within 1e-12 of a CDF step are skipped as numerically ambiguous);
  reloc  rotate_signal_events_on_sphere vs. the model of astropy's formulas — angular distance ≤ 1e-9.
Property oracles run on the implementation only (see ORACLES).
"""
import collections
import math
from fractions import Fraction

import numpy as np

from harness.core import f2b, b2f, flist, parse_flist, MachineryError
from harness import siggen_fixtures as fx

MODEL_MODULES = ['SkyllhModel.Model.SigGen', 'SkyllhModel.Model.SigGenR7']

# Which code is inside the executable Lean model: Python callables that run(ctx) calls and compares with their Lean
# counterpart on every run (callables merely reached on the way — _get_invalid_events_mask,
# _draw_valid_sig_events_for_dataset_and_shg, signal_event_post_sampling_processing, RandomChoice.__call__,
# source_sin_dec_shift_linear — are mirrored by invalidMask / redraw / postProc / drawRows / shiftLinear but not listed).
MODEL_MAP = {
    'skyllh/core/signal_generator.py::MultiDatasetSignalGenerator.generate_signal_events':
        ['SigGen.multiGenerate', 'SigGen.entryTotal', 'SigGen.distribute', 'SigGen.aggregate'],
    'skyllh/core/signal_generator.py::MCMultiDatasetSignalGenerator.generate_signal_events':
        ['SigGen.generateEv', 'SigGen.generateBuf'],
    'skyllh/core/signal_generator.py::MCMultiDatasetSignalGenerator.mu2flux': ['SigGen.mu2flux', 'SigGen.mu2fluxPer'],
    'skyllh/core/signal_generator.py::MCMultiDatasetSignalGenerator.change_shg_mgr': ['SigGen.genStep'],
    'skyllh/core/utils/coords.py::rotate_signal_events_on_sphere': ['SigGen.relocate'],
    'skyllh/core/analysis.py::Analysis.generate_signal_events': ['SigGen.kwCall', 'SigGen.mergeSig'],
}

# Sub-comparisons that need implementation-private state are optional: the state is read with getattr and, when
# the attribute does not exist (renamed / refactored), the sub-comparison is skipped and counted here; the
# comparisons of public behaviour (generate_signal_events outputs, mu2flux, change_shg_mgr) always run.
SKIPS = collections.Counter()

# One counter per branch of the modelled functions (hit = the correspondence exercised that branch of the model on
# this run).  Branches that are errors the theorems prove unreachable under the guard are listed separately.
BRANCHES = [
    'choice:first-item', 'choice:last-item', 'choice:interior-item', 'choice:skips-zero-weight-item',
    'distribute:rounding-exact', 'distribute:incr(top-up)', 'distribute:decr(surplus)', 'distribute:decr-masks-empty-dataset',
    'decr:two-or-more-removals', 'decr:mask-updated-between-removals-decides',
    'entryTotal:poisson-draw', 'entryTotal:int_cast', 'entryTotal:int_cast-truncates-a-fraction', 'entryTotal:poisson-negative-mean-error',
    'entryTotal:int_cast-error(nan/inf)', 'multiGenerate:ok', 'multiGenerate:aggregate-error',
    'distribute:total-0', 'aggregate:ok', 'aggregate:length-mismatch-error',
    'kwCall:early-return(mean 0)', 'kwCall:overwrite',
    'minMax:ok', 'inE:no-range', 'inE:range', 'inBand:event-on-closed-edge', 'band:source-inside-coverage',
    'band:source-outside-coverage', 'batchedIdx:one-batch', 'batchedIdx:several-batches', 'batchedIdx:last-batch-shorter', 'batchedIdx:batch-size-0-error',
    'groupCands:no-candidate-for-a-source', 'tableStep:several-(group,dataset)-pairs', 'normalise:ok',
    'generate:total-0', 'generate:one-dataset-drawn', 'generate:several-datasets-drawn', 'genShgs:several-groups-in-a-dataset',
    'genGroup:nothing-invalid', 'genGroup:redraw', 'redraw:one-round', 'redraw:several-rounds',
    'setSel:three-or-more-slices-in-one-buffer', 'replaceInvalid:keeps-valid-and-replaces-invalid', 'invalidMask:below-lo', 'invalidMask:above-hi',
    'invalidMask:no-ranges', 'invalidMask:several-fields', 'fieldVal:relocated-field', 'fieldVal:stored-field',
    'offsetBy:regular', 'offsetBy:pole-branch', 'postProc:ok', 'mu2flux:ok', 'setSel:several-slices-in-one-buffer',
]
UNREACHABLE = {
    'bump:index-error': 'c18_distribute_no_error', 'distribute:too-few-deviates': 'harness supplies the deviates consumed',
    'drawRows:index-error': 'c18_draw_no_error', 'redraw:fuel/deviates-exhausted': 'termination assumption (open finding when violated)',
    'replaceInvalid:shape-mismatch': 'c18_generate_buffer_refines + redraw_inv (exactly k redrawn)',
    'setSel:out-of-range / unwrapAll:unwritten-slot': 'c18_generate_buffer_refines',
    'minMax:empty-MC': 'set-ups without MC events are not generated (numpy raises)',
    'rangeVals:missing-field(KeyError)': 'guard of c18_validRel_iff; directed class mc:field-of-one-dataset-only on the code side',
    'aggregate:generator-raises': 'per-dataset generators are stubs that raise only for negative requests (c18_nonneg)',
}
BR = collections.Counter()
CACHE_HIST = []


def _private(obj, *names):
    """obj.<names[0]>.<names[1]>… or None when any link is missing (never raises)"""
    for n in names:
        obj = getattr(obj, n, None)
        if obj is None:
            SKIPS['skipped:private-attr'] += 1
            return None
    return obj

SIG_GEN = 'skyllh/core/signal_generator.py'
RANDOM = 'skyllh/core/random.py'
I3GEN = 'skyllh/i3/signal_generation.py'


# ------------------------------------------------------------------------------------------------
# translator part: literal constants of the current source

def _extract_constants(ctx):
    """only flags that a behaviour-preserving rewrite does not flip: the search side of RandomChoice (a missing or
    non-literal keyword falls back to the recorded value; the history-level correspondence decides then)"""
    import ast
    from harness import extract
    rec = {'choiceSideRight': True}
    out = dict(rec)
    try:
        f = extract.find_func(extract.find_class(extract.parse(RANDOM), 'RandomChoice'), '__call__')
        found = None
        for node in ast.walk(f):
            if isinstance(node, ast.Call) and isinstance(node.func, ast.Attribute) and node.func.attr == 'searchsorted':
                for k in node.keywords:
                    if k.arg == 'side':
                        found = extract.literal(k.value) == 'right'
        if found is None:
            raise LookupError('no searchsorted(..., side=<literal>) in RandomChoice.__call__')
        out['choiceSideRight'] = bool(found)
    except Exception as e:  # noqa
        ctx.proof['generated_fallbacks'].append('choiceSideRight')
        ctx.note('C18 generated: could not extract choiceSideRight (%s: %s); using recorded value True' % (type(e).__name__, e))
    return out


_GEN = {'choiceSideRight': True}


def generated(ctx):
    c = _extract_constants(ctx)
    _GEN.update(c)
    ctx.extra['generated_constants'] = c
    return ('/- generated by harness/props/c18.py from the current skyllh source; do not edit -/\n'
            'namespace Gen.C18\n'
            '/-- RandomChoice.__call__ uses np.searchsorted(…, side=\'right\') -/\n'
            'def choiceSideRight : Bool := %s\n'
            'end Gen.C18\n') % ('true' if c['choiceSideRight'] else 'false')


# ------------------------------------------------------------------------------------------------
# independent reference geometry (vector algebra; astropy and the model use spherical trigonometry)

def _vec(ra, dec):
    return np.array([math.cos(ra) * math.cos(dec), math.sin(ra) * math.cos(dec), math.sin(dec)])


def _basis(ra, dec):
    """(radial, north, east) unit vectors at (ra, dec)"""
    return (_vec(ra, dec),
            np.array([-math.cos(ra) * math.sin(dec), -math.sin(ra) * math.sin(dec), math.cos(dec)]),
            np.array([-math.sin(ra), math.cos(ra), 0.0]))


def ref_sep(ra1, dec1, ra2, dec2):
    a, b = _vec(ra1, dec1), _vec(ra2, dec2)
    return math.atan2(float(np.linalg.norm(np.cross(a, b))), float(np.dot(a, b)))


def ref_posang(ra1, dec1, ra2, dec2):
    (_, n, e) = _basis(ra1, dec1)
    b = _vec(ra2, dec2)
    return math.atan2(float(np.dot(b, e)), float(np.dot(b, n)))


def ref_relocate(sra, sdec, tra, tdec, rra, rdec):
    pa = ref_posang(tra, tdec, rra, rdec)
    d = ref_sep(tra, tdec, rra, rdec)
    (s, n, e) = _basis(sra, sdec)
    v = math.cos(d) * s + math.sin(d) * (math.cos(pa) * n + math.sin(pa) * e)
    v = v / np.linalg.norm(v)
    return (math.atan2(v[1], v[0]) % (2 * math.pi), math.asin(max(-1.0, min(1.0, v[2]))))


# ------------------------------------------------------------------------------------------------
# A. distribution of the total over the datasets

def gen_dist_case(rng):
    J = rng.choice([2, 2, 3, 3, 4, 4, 5, 6])
    fam = rng.choice(['equal', 'obs', 'ints', 'random', 'tiny', 'zero', 'halves'])
    if fam == 'equal':
        Y = [1.0] * J
    elif fam == 'obs':
        Y = [3.0] * (J - 1) + [1.0]
    elif fam == 'ints':
        Y = [float(rng.choice([1, 1, 2, 3, 5, 8])) for _ in range(J)]
    elif fam == 'random':
        Y = [rng.random() + 0.01 for _ in range(J)]
    elif fam == 'tiny':
        Y = [rng.choice([1.0, 2.0, 1e-9, 1e-12, 1e-300]) for _ in range(J)]
        Y[rng.randrange(J)] = 1.0
    elif fam == 'zero':
        Y = [rng.choice([0.0, 1.0, 2.0, 3.0]) for _ in range(J)]
        Y[rng.randrange(J)] = float(rng.choice([1, 2, 3]))
        Y[(rng.randrange(J - 1) + 1 + Y.index(max(Y))) % J] = 0.0
    else:  # many products mean*w with fractional part exactly 1/2
        Y = [float(rng.choice([1, 1, 3, 5])) for _ in range(J)]
        tot = sum(Y)
        Y = [y * 2 ** rng.choice([0, 0, 1]) for y in Y] if tot in (4, 8, 16) else Y
    mean = rng.choice(list(range(0, 51)) + [1, 2, 3, 5, 6, 7, 10])
    c = {'Y': Y, 'mean': mean, 'seed': rng.randrange(2 ** 31)}
    r = rng.random()
    if r < 0.12:
        c['mode'] = 'float'                 # poisson=False with a float total (int_cast truncates)
        c['mean'] = mean + rng.choice([0.0, 0.25, 0.5, 0.9])
    elif r < 0.3:
        c['mode'] = 'poisson'               # the production default: the total is a Poisson draw
        c['mean'] = rng.choice([0.0, 0.3, 2.5, 7.0, 20.0, float(mean)])
    elif r < 0.36:
        c['ngens'] = J - 1                  # fewer per-dataset generators than datasets
    elif r < 0.5:
        c['hist'] = [rng.randrange(0, 51), rng.randrange(1, 51)]   # further calls on the same generator object
    return c


def _stale_mask_counts(w, total, us):
    """Python twin of the model's `decrHoisted` (NOT the code): the surplus removed with the mask `n > 0` taken once,
    before the loop, instead of per removed event -> (rounded counts, counts after the removals)"""
    w = np.asarray(w, dtype=np.float64)
    rc = np.round(total * w, 0).astype(np.int64)
    k = int(np.sum(rc)) - int(total)
    if k <= 0:
        return rc, rc
    p = np.where(rc > 0, w, 0.)
    cdf = np.cumsum(p / np.sum(p))
    cdf /= cdf[-1]
    out = rc.copy()
    for u in list(us)[:k]:
        out[min(int(np.searchsorted(cdf, u, side='right')), len(out) - 1)] -= 1
    return rc, out


def gen_surplus2_cases(rng, n_cfg):
    """DIRECTED class (round 7): the rounding overshoots the total by >= 2 and some dataset holds exactly ONE event after
    rounding, so that whether the mask `n > 0` is re-evaluated after every removed event is observable.  Needs >= 5
    datasets whose shares have fractional parts in [0.5, 1) — rare in the free families.  Per configuration: one seed for
    which the SECOND removal depends on the mask having been updated by the first (searched with the stale-mask twin on
    the deviates RandomState(seed) delivers) and one arbitrary seed."""
    out = []
    tries = 0
    while len(out) < 2 * n_cfg and tries < 400 * n_cfg:
        tries += 1
        J = rng.choice([5, 5, 6, 6, 6])
        # shares t_i = k_i + f_i with f_i just above 1/2; most k_i = 0 (rounded count exactly 1)
        t = [rng.choice([0, 0, 0, 0, 1, 2, 7]) + rng.choice([0.51, 0.55, 0.6, 0.6, 0.66, 0.7, 0.45, 0.96]) for _ in range(J)]
        if rng.random() < 0.25:
            t = [0.6] * J                                  # equal weights, total 3 (J=5) / (0.667, J=6, total 4)
        if rng.random() < 0.2:
            t[rng.randrange(J)] = 0.0                      # plus a zero-weight dataset
        total = int(math.floor(sum(t)))
        if total < 1 or total > 50:
            continue
        Y = [float(x) for x in t]
        w = np.asarray(Y) / np.sum(Y)
        rc = np.round(total * w, 0).astype(np.int64)
        k = int(np.sum(rc)) - total
        if k < 2 or not np.any(rc == 1):
            continue
        mode = {}
        r_ = rng.random()
        if r_ < 0.2:
            mode = {'mode': 'float', 'mean_add': rng.choice([0.25, 0.5, 0.9])}
        elif r_ < 0.35:
            mode = {'hist': [rng.randrange(0, 51), total]}
        found = None
        for _ in range(60):
            seed = rng.randrange(2 ** 31)
            us = np.random.RandomState(seed).random_sample(k)
            (_, stale) = _stale_mask_counts(w, total, us)
            if np.any(stale < 0):
                found = seed
                break
        for seed, tag in ((found, 'mask-update-decides'), (rng.randrange(2 ** 31), 'any-seed')):
            if seed is None:
                continue
            c = {'Y': Y, 'mean': total, 'seed': seed, 'directed': 'surplus>=2,single-event-dataset:' + tag}
            if 'mode' in mode:
                c['mode'] = 'float'
                c['mean'] = total + mode['mean_add']
            if 'hist' in mode:
                c['hist'] = list(mode['hist'])
            out.append(c)
    return out


def run_dist_impl(case):
    """-> dict(weights, counts, n_signal, lens, us, exc)"""
    cfg = fx.make_cfg()
    g, gens, dswf = fx.make_count_generator(cfg, case['Y'])
    if case.get('ngens') is not None:
        g.sig_generator_list = gens[:case['ngens']]
    rss = fx.make_rss(case['seed'])
    res = {'exc': None}
    mode = case.get('mode', 'int')
    try:
        (n_signal, d) = g.generate_signal_events(rss, case['mean'], poisson=(mode == 'poisson'))
        res['n_signal'] = int(n_signal)
        res['lens'] = {int(k): len(v) for k, v in d.items()}
    except Exception as e:  # noqa
        res['exc'] = '%s: %s' % (type(e).__name__, e)
    res['weights'] = [float(x) for x in dswf.get_weights()[0]]
    res['us'] = list(rss.random.us)
    res['choice_calls'] = rss.random.choice_calls
    res['other_draws'] = list(rss.random.other_draws)
    res['counts'] = [gg.calls[0] if gg.calls else None for gg in gens]
    res['ncalls'] = [len(gg.calls) for gg in gens]
    res['hist'] = []
    for step, m in enumerate(case.get('hist') or []):
        for gg in gens:
            gg.calls.clear()
        try:
            (ns, dd) = g.generate_signal_events(fx.make_rss(case['seed'] + 1 + step), m, poisson=False)
            res['hist'].append((m, [gg.calls[0] if gg.calls else None for gg in gens], int(ns),
                                sum(len(v) for v in dd.values()), None))
        except Exception as e:  # noqa
            res['hist'].append((m, [gg.calls[0] if gg.calls else None for gg in gens], None, None,
                                '%s: %s' % (type(e).__name__, e)))
    # the total the code works with: the Poisson draw, or the (truncated) argument
    if mode == 'poisson':
        res['total'] = int(rss.random.poisson_draws[0]) if rss.random.poisson_draws else None
    else:
        res['total'] = int(case['mean'])
    return res


def o_dist(ctx, case, r=None):
    """per-dataset numbers: no exception, non-negative, add up to the total, none for zero weight;
    reported number = number of returned events = total"""
    r = run_dist_impl(case) if r is None else r
    w, mean = r['weights'], r['total']
    head = 'MultiDatasetSignalGenerator.generate_signal_events(mean=%r, poisson=%s, seed=%d) [total %r] with dataset weights %r' % (
        case['mean'], case.get('mode') == 'poisson', case['seed'], mean, w)
    if mean is None:
        return '%s: poisson=True did not draw the total from rss.random.poisson%s' % (
            head, '' if r['exc'] is None else ' (raised %s)' % r['exc'])
    ngens = case.get('ngens')
    if ngens is not None:
        # fewer generators than datasets: refusing loudly is fine, losing events silently is not
        if r['exc'] is not None:
            return None
        tot = sum(r['lens'].values())
        if r['n_signal'] != mean or tot != mean:
            return ('%s and only %d signal generators for %d datasets: reported n_signal=%d, returned %d events, requested %d '
                    '(events lost without an error)' % (head, ngens, len(w), r['n_signal'], tot, mean))
        return None
    counts = r['counts']
    neg = [c for c in counts if c is not None and c < 0]
    if neg:
        return '%s requests %r events from the datasets (negative number)%s' % (
            head, counts, '' if r['exc'] is None else '; then raises ' + r['exc'])
    if r['exc'] is not None:
        return '%s raised %s' % (head, r['exc'])
    if any(n != 1 for n in r['ncalls']):
        return '%s called the per-dataset generators %r times' % (head, r['ncalls'])
    if sum(counts) != mean:
        return '%s: per-dataset numbers %r add up to %d, not %d' % (head, counts, sum(counts), mean)
    for j, (c, wj) in enumerate(zip(counts, w)):
        if wj == 0.0 and c != 0:
            return '%s: dataset %d has zero weight but gets %d events' % (head, j, c)
        # a dataset never gets fewer than floor or more than ceil (+ corrections) of its share
        if abs(c - mean * wj) > 0.5 + len(w) / 2.0 + 1e-9:
            return '%s: dataset %d gets %d events, its share is %.3f' % (head, j, c, mean * wj)
    tot = sum(r['lens'].values())
    if r['n_signal'] != tot or r['n_signal'] != mean:
        return '%s: reported n_signal=%d, returned %d events, requested %d' % (head, r['n_signal'], tot, mean)
    for j, c in enumerate(counts):
        if r['lens'].get(j, 0) != c:
            return '%s: dataset %d returned %d events for a request of %d' % (head, j, r['lens'].get(j, 0), c)
    for (p, u, res) in r['choice_calls']:
        if np.any(p[np.atleast_1d(res)] <= 0):
            return '%s: numpy choice returned an index of zero probability' % head
    for step, (m, cts, ns, tot2, exc) in enumerate(r['hist']):
        if exc is not None or any(c is None or c < 0 for c in cts) or sum(cts) != m or ns != m or tot2 != m:
            return ('%s; call %d on the same generator object with mean=%d: per-dataset numbers %r, n_signal=%r, returned %r%s' % (
                head, step + 2, m, cts, ns, tot2, '' if exc is None else ', raised ' + exc))
        if any(wj == 0.0 and c != 0 for c, wj in zip(cts, w)):
            return '%s; call %d on the same generator object: a dataset of zero weight gets events %r' % (head, step + 2, cts)
    return None


def _dist_branches(case, r):
    tt = r['total'] or 0
    if case.get('ngens') is not None:
        BR['aggregate:length-mismatch-error'] += 1
        return
    if tt == 0:
        BR['distribute:total-0'] += 1
    w = r['weights']
    if not all(x == x for x in w):
        return
    rc = [int(np.round(tt * x)) for x in w]
    sm = sum(rc)
    BR['distribute:rounding-exact' if sm == tt else 'distribute:incr(top-up)' if sm < tt else 'distribute:decr(surplus)'] += 1
    if sm > tt and any(c_ == 0 and x > 0 for c_, x in zip(rc, w)):
        BR['distribute:decr-masks-empty-dataset'] += 1
    if sm >= tt + 2:
        BR['decr:two-or-more-removals'] += 1
        (_, stale) = _stale_mask_counts(w, tt, r['us'])
        if np.any(stale < 0):
            # with the mask of the FIRST removal the later deviate would have hit a dataset emptied meanwhile
            BR['decr:mask-updated-between-removals-decides'] += 1
    for (p_, u_, res_) in r['choice_calls']:
        for i in np.atleast_1d(res_):
            BR['choice:first-item' if i == 0 else 'choice:last-item' if i == len(p_) - 1 else 'choice:interior-item'] += 1
            if np.any(p_[:i] == 0):
                BR['choice:skips-zero-weight-item'] += 1


def _mc_branches(run_):
    c = run_.case
    BR['minMax:ok'] += 1
    BR['normalise:ok'] += 1
    BR['mu2flux:ok'] += 1
    if len(c['groups']) * len(c['dss']) > 1:
        BR['tableStep:several-(group,dataset)-pairs'] += 1
    have = set((r[0], r[2], r[3]) for r in run_.rows)
    for g, G in enumerate(c['groups']):
        BR['inE:no-range' if G['erange'] is None else 'inE:range'] += 1
        BR['batchedIdx:one-batch' if len(G['sources']) <= int(G.get('batch', 128)) else 'batchedIdx:several-batches'] += 1
        if len(G['sources']) > int(G.get('batch', 128)) and len(G['sources']) % int(G.get('batch', 128)):
            BR['batchedIdx:last-batch-shorter'] += 1
        for j, f in enumerate(run_.mcs):
            L_, U_ = float(np.min(f['sin_true_dec'])), float(np.max(f['sin_true_dec']))
            for k, s_ in enumerate(G['sources']):
                x = math.sin(s_[1])
                BR['band:source-inside-coverage' if L_ <= x <= U_ else 'band:source-outside-coverage'] += 1
                if (j, g, k) not in have:
                    BR['groupCands:no-candidate-for-a-source'] += 1
    if c.get('dyadic'):
        BR['inBand:event-on-closed-edge'] += 1
    tot = run_.total or 0
    if tot == 0:
        BR['generate:total-0'] += 1
        return
    if run_.exc is not None or not len(run_.cdf):
        return
    nds_out = len(run_.events)
    BR['generate:one-dataset-drawn' if nds_out == 1 else 'generate:several-datasets-drawn'] += 1
    rows_by_ds = dict((j, run_._impl_rows_of(j)) for j in run_.events)
    for j, rr in rows_by_ds.items():
        ng_ = len(set(run_.impl_rows[r][2] for r in rr if r >= 0))
        if ng_ > 1:
            BR['genShgs:several-groups-in-a-dataset'] += 1
            BR['setSel:several-slices-in-one-buffer'] += 1
        if ng_ > 2:
            BR['setSel:three-or-more-slices-in-one-buffer'] += 1
    BR['postProc:ok'] += 1
    polar = any(abs(abs(s_[1]) - math.pi / 2) < 1e-12 for G in c['groups'] for s_ in G['sources'])
    BR['offsetBy:pole-branch' if polar else 'offsetBy:regular'] += 1
    flds = set(f for d in run_.vr for f in d)
    if not flds:
        BR['invalidMask:no-ranges'] += 1
    if any(len(d) > 1 for d in run_.vr):
        BR['invalidMask:several-fields'] += 1
    if flds & set(('ra', 'dec', 'sin_dec')):
        BR['fieldVal:relocated-field'] += 1
    if flds - set(('ra', 'dec', 'sin_dec')):
        BR['fieldVal:stored-field'] += 1
    # first draw: which rows, how many invalid per (dataset, group)
    first = np.searchsorted(run_.cdf, np.asarray(run_.us[:tot]), side='right')
    first = first[first < len(run_.valid)]
    vbits = np.asarray(run_.valid)
    k_inv = int(np.sum(~vbits[first])) if len(first) else 0
    for fld in flds:
        vals = _row_values(c, run_.mcs, run_.rows, fld)
        for r in first:
            rg = run_.vr[run_.rows[r][0]].get(fld)
            if rg is not None and vals[r] == vals[r]:
                if vals[r] < rg[0]:
                    BR['invalidMask:below-lo'] += 1
                elif vals[r] > rg[1]:
                    BR['invalidMask:above-hi'] += 1
    used = len(run_.us) - tot
    if k_inv == 0:
        BR['genGroup:nothing-invalid'] += 1
    else:
        BR['genGroup:redraw'] += 1
        BR['redraw:one-round' if used <= k_inv else 'redraw:several-rounds'] += 1
        if k_inv < len(first):
            BR['replaceInvalid:keeps-valid-and-replaces-invalid'] += 1


def dist_lines(case, r):
    if case.get('ngens') is not None:
        # the aggregation with the count vector the implementation would use if it got that far: only the
        # error / no-error behaviour is compared
        return 'agg %s %d' % (','.join(['0'] * len(r['weights'])), case['ngens'])
    return 'dist 1 %d %s %s' % (r['total'] or 0, flist(r['weights']), flist(r['us']))


def mgen_line(case, r):
    """the whole method through the model's `multiGenerate`: argument as given (float), the recorded Poisson draw"""
    mode = case.get('mode', 'int')
    ng = case.get('ngens') if case.get('ngens') is not None else len(r['weights'])
    return 'mgen %d %s %d %s %s %d' % (1 if mode == 'poisson' else 0, f2b(float(case['mean'])), r['total'] or 0,
                                       flist(r['weights']), flist(r['us']), ng)


def mgen_compare(case, r, model):
    """-> (text | None, stream_only)"""
    mode = case.get('mode', 'int')
    BR['entryTotal:poisson-draw' if mode == 'poisson' else 'entryTotal:int_cast'] += 1
    if mode != 'poisson' and float(case['mean']) != int(case['mean']):
        BR['entryTotal:int_cast-truncates-a-fraction'] += 1
    if r['exc'] is not None or r.get('n_signal') is None:
        impl = 'ERR'
    else:
        impl = '%d;%s;%d' % (r['n_signal'], ','.join('%d=%d' % (j, r['lens'].get(j, 0)) for j in range(len(r['weights']))),
                             len(r['us']))
    BR['multiGenerate:ok' if model != 'ERR' else 'multiGenerate:aggregate-error'] += 1
    if impl != model:
        return ('whole method (entry, per-dataset numbers, aggregation): implementation %s, model %s' % (impl, model),
                case.get('ngens') is None and impl != 'ERR' and model != 'ERR')
    return (None, False)


def _entry_error_impl(mode, mean_repr):
    """error branches of the entry: a total that cannot be cast / a negative Poisson mean -> 'ERR' | 'ok'"""
    cfg = fx.make_cfg()
    g, gens, dswf = fx.make_count_generator(cfg, [1.0, 2.0])
    try:
        g.generate_signal_events(fx.make_rss(1), float(mean_repr), poisson=(mode == 'poisson'))
        return 'ok'
    except (TypeError, ValueError, OverflowError):
        return 'ERR'


def dist_compare(case, r, model):
    """-> (text | None, stream_only): stream_only = the disagreement may be due to another (equally distributed)
    use of the random numbers; it is a diagnostic unless an oracle fails"""
    if case.get('ngens') is not None:
        impl = 'ERR' if r['exc'] is not None else 'ok'
        mod = 'ERR' if model == 'ERR' else 'ok'
        return (None if impl == mod else 'aggregation with %d generators for %d datasets: implementation %s, model %s' % (
            case['ngens'], len(r['weights']), impl, mod), False)
    if r['exc'] is not None or any(c is None for c in r['counts']):
        impl = 'ERR'
    else:
        impl = '%s;%d' % (','.join(str(c) for c in r['counts']), len(r['us']))
    if impl != model:
        return ('dist: implementation %s, model %s' % (impl, model), True)
    return (None, False)


# ------------------------------------------------------------------------------------------------
# B. candidate table, generation, mu2flux on synthetic MC

def _dec_with_sin(x):
    """a declination whose numpy sine is exactly the double x (searched among the neighbours of arcsin x)"""
    d0 = float(np.arcsin(x))
    cand = [d0]
    lo = hi = d0
    for _ in range(16):
        lo, hi = float(np.nextafter(lo, -4.0)), float(np.nextafter(hi, 4.0))
        cand += [lo, hi]
    for d in cand:
        if float(np.sin(np.array([d]))[0]) == x:
            return d
    return None


def gen_mc_case(rng, small=False, force_simple=False, force=None):
    if not force_simple and force is None and rng.random() < 0.3:
        c = _gen_dyadic_case(rng)
        if c is not None:
            return c
    simple = force_simple or rng.random() < 0.15       # one dataset, one group, one source, mild rejection: redraws that end in one round
    nds = 1 if (simple or force == 'three_groups') else rng.choice([1, 2, 2, 3])
    ngr = 1 if simple else (rng.choice([3, 4]) if force == 'three_groups' else rng.choice([1, 1, 2, 3, 4]))
    dss = []
    for j in range(nds):
        lo = rng.choice([-1.0, -0.9, -0.5, -0.2])
        hi = rng.choice([1.0, 0.95, 0.6, 0.3])
        dss.append({'seed': rng.randrange(2 ** 31), 'n': rng.choice([60, 120, 200] if small else [80, 160, 300, 500]),
                    'sin_lo': lo, 'sin_hi': hi, 'livetime': rng.choice([50.0, 100.0, 365.25])})
    L = max(d['sin_lo'] for d in dss)
    U = min(d['sin_hi'] for d in dss)
    groups = []
    for g in range(ngr):
        ns = 1 if simple else (3 if force == 'short_batch' else rng.choice([1, 1, 2]) if ngr >= 3 else rng.choice([1, 2, 3]))
        hbw = 0.2 if (simple or force == 'three_groups') else rng.choice([0.02, 0.05, 0.1, math.sin(math.radians(1)) * 3])
        srcs = []
        for k in range(ns):
            kind = 'in' if (simple or force == 'three_groups') else rng.choice(['in', 'in', 'edge_lo', 'edge_hi', 'at_edge', 'outside', 'pole'])
            if kind == 'outside':            # source outside the MC coverage (band leaves the coverage, maybe empty)
                x = rng.choice([L - 0.3 * rng.random(), U + 0.3 * rng.random()])
            elif kind == 'pole':             # source exactly at / within 1e-13 of a celestial pole
                x = None
            elif kind == 'in':
                x = L + (U - L) * rng.random()
            elif kind == 'edge_lo':
                x = L + hbw * rng.random()
            elif kind == 'edge_hi':
                x = U - hbw * rng.random()
            else:
                x = rng.choice([L, U])
            if x is None:
                dec = rng.choice([1, -1]) * (math.pi / 2 - rng.choice([0.0, 1e-13]))
            else:
                dec = math.asin(max(-0.999, min(0.999, x)))
            srcs.append((rng.random() * 2 * math.pi, dec, rng.choice([1.0, 1.0, 2.0, 0.5, None, 0.0])))
        if all(s_[2] == 0.0 for s_ in srcs):
            srcs[0] = (srcs[0][0], srcs[0][1], 1.0)
        groups.append({'sources': srcs, 'gamma': rng.choice([2.0, 2.5, 3.0]), 'Phi0': rng.choice([1.0, 2.5]),
                       'hbw': hbw, 'erange': rng.choice([None, None, (1e2, 1e5), (10 ** 2.5, 10 ** 5.5)]),
                       'batch': (2 if force == 'short_batch' else rng.choice([128, 2, 2, 1]) if ns == 3 else rng.choice([128, 128, 1, 2]))})
    if nds > 1 and rng.random() < 0.15:
        dss[rng.randrange(nds)]['livetime'] = 0.0          # a dataset without live time gets no event
    for d in dss:
        d['zero_mcw'] = rng.choice([0, 0, 1, 2])           # 1: every 3rd MC event has weight 0, 2: first/middle/last rows
    c = {'dss': dss, 'groups': groups, 'n': rng.choice(list(range(0, 51)) + [1, 2, 50]),
         'seed': rng.randrange(2 ** 31),
         'reject': rng.choice([0.0, 0.0, 0.2, 0.5, 0.8, 0.95]),
         'vfield': rng.choice(['log_energy', 'ang_err', 'dec', 'sin_dec']),
         'vsel': rng.random()}
    if simple:
        c.update(n=rng.choice([2, 3, 4, 6]), reject=0.2, vfield=rng.choice(['log_energy', 'ang_err']))
    if force == 'three_groups':
        c.update(n=rng.choice([30, 50]), reject=rng.choice([0.0, 0.2]))
    if rng.random() < 0.3:
        c['vfield2'] = rng.choice([f for f in ('log_energy', 'ang_err', 'sin_dec') if f != c['vfield']])
    if rng.random() < 0.25:
        c['mode'] = 'poisson'
    # glue dimensions: how the same numbers are handed in
    c['layout'] = rng.choice(['copy', 'copy', 'strided', 'offset', 'readonly'])
    c['ranges_form'] = rng.choice(['list', 'list', 'inplace', 'setter'])
    c['mean_form'] = rng.choice(['int', 'int', 'float', 'float-frac', 'np.int64', 'np.float64', '0d'])
    c['nlist_form'] = rng.choice(['list', 'ndarray'])
    c['same_rss'] = rng.random() < 0.5
    for G in groups:
        G['erange_form'] = rng.choice(['tuple', 'list', 'ndarray'])
    if nds > 1 and rng.random() < 0.35:
        c['extra_field'] = True             # dataset 0 has a data field the others do not have, with a range on it
    return c


def _gen_dyadic_case(rng):
    """coverage, band widths and source positions are small dyadic rationals, so every way of evaluating the
    band formula is exact; MC events are placed exactly on (and one ulp beside) the band edges: the closed /
    open character of the band is then decided robustly."""
    nds = rng.choice([1, 2])
    dss = [{'seed': rng.randrange(2 ** 31), 'n': rng.choice([60, 120]), 'sin_lo': -0.5, 'sin_hi': 0.5,
            'livetime': rng.choice([64.0, 128.0])} for _ in range(nds)]
    groups = []
    for g in range(rng.choice([1, 2])):
        srcs = []
        for k in range(rng.choice([1, 2, 3])):
            dec = _dec_with_sin(rng.choice([0.25, -0.25, 0.0, 0.5, -0.5, 0.375, -0.125]))
            if dec is None:
                return None
            srcs.append((rng.random() * 2 * math.pi, dec, rng.choice([1.0, 2.0, 0.5])))
        groups.append({'sources': srcs, 'gamma': 2.0, 'Phi0': 1.0, 'hbw': rng.choice([0.125, 0.0625]),
                       'erange': rng.choice([None, (1e2, 1e5)]), 'batch': rng.choice([128, 1])})
    return {'dyadic': True, 'dss': dss, 'groups': groups, 'n': rng.choice([5, 20, 50]), 'seed': rng.randrange(2 ** 31),
            'reject': rng.choice([0.0, 0.5]), 'vfield': rng.choice(['log_energy', 'ang_err']), 'vsel': rng.random()}


def _set_true_sin(f, i, s):
    off = f['dec'][i] - f['true_dec'][i]
    f['sin_true_dec'][i] = s
    f['true_dec'][i] = math.asin(s)
    f['dec'][i] = max(-math.pi / 2 + 1e-3, min(math.pi / 2 - 1e-3, f['true_dec'][i] + off))
    f['sin_dec'][i] = math.sin(f['dec'][i])


def _mc_fields(case):
    out = []
    for j, d in enumerate(case['dss']):
        if 'fields' in d:                       # explicit arrays (shrunk / hand-made cases)
            out.append({k: np.array(v) for k, v in d['fields'].items()})
            continue
        f = fx.gen_mc(d['seed'], d['n'], d['sin_lo'], d['sin_hi'], ds_idx=j)
        # flatten the spectrum so that many different candidates carry weight
        f['mcweight'] = f['mcweight'] * (f['true_energy'] / 1e3) ** 2.2
        if d.get('zero_mcw') == 1:
            f['mcweight'][::3] = 0.0
        if case.get('extra_field') and j == 0:
            f['only0'] = np.random.RandomState(d['seed'] + 7).uniform(0.0, 1.0, d['n'])
        nxt = 1
        # events exactly on the limits of the energy ranges (closed interval, pass-through comparison)
        for G in case['groups']:
            if G['erange'] is not None and nxt + 4 < d['n'] - 1:
                for e in (G['erange'][0], G['erange'][1], float(np.nextafter(G['erange'][0], 0.0)),
                          float(np.nextafter(G['erange'][1], np.inf))):
                    f['true_energy'][nxt] = e
                    nxt += 1
        if case.get('dyadic'):
            L, U = Fraction(d['sin_lo']), Fraction(d['sin_hi'])
            for G in case['groups']:
                w = Fraction(G['hbw'])
                for (_, dec, _) in G['sources']:
                    x = Fraction(float(np.sin(np.array([dec]))[0]))
                    c = x + (-2 * w / (U - L)) * x + w * (L + U) / (U - L)
                    for e in (c - w, c + w):
                        e = float(e)
                        for v in (e, float(np.nextafter(e, -2.0)), float(np.nextafter(e, 2.0))):
                            if d['sin_lo'] < v < d['sin_hi'] and nxt < d['n'] - 1:
                                _set_true_sin(f, nxt, v)
                                f['true_energy'][nxt] = 3e3
                                nxt += 1
        out.append(f)
    if any(d.get('zero_mcw') == 2 for d in case['dss'] if 'fields' not in d):
        rows = _ref_table(case, out)[0]
        for j, d in enumerate(case['dss']):
            if d.get('zero_mcw') == 2 and 'fields' not in d:
                mine = [r for r in rows if r[0] == j]
                for r in ([mine[0], mine[len(mine) // 2], mine[-1]] if len(mine) > 3 else []):
                    out[j]['mcweight'][r[1]] = 0.0
    return out


def _has_positive_row(case, mcs, rows):
    """some candidate has a non-zero source weight, live time and MC weight"""
    for (j, i, g, k) in rows:
        sw = case['groups'][g]['sources'][k][2]
        if (sw is None or sw != 0.0) and case['dss'][j]['livetime'] != 0.0 and mcs[j]['mcweight'][i] != 0.0:
            return True
    return False


def _ref_bands(case, mcs):
    """per (group, dataset): list of (min, max) per source — straightforward float formula"""
    res = {}
    for g, G in enumerate(case['groups']):
        w = G['hbw']
        for j, f in enumerate(mcs):
            s = f['sin_true_dec']
            L, U = float(np.min(s)), float(np.max(s))
            b = []
            for (_, dec, _) in G['sources']:
                x = float(np.sin(np.array([dec], dtype=np.float64))[0])
                c = x + ((-2 * w / (U - L)) * x + w * (L + U) / (U - L))
                b.append((c - w, c + w))
            res[(g, j)] = b
    return res


def _ref_table(case, mcs):
    """brute-force candidate list [(ds, ev, shg, src)] in the documented order"""
    bands = _ref_bands(case, mcs)
    rows = []
    for g, G in enumerate(case['groups']):
        for j, f in enumerate(mcs):
            for k, (lo, hi) in enumerate(bands[(g, j)]):
                for i in range(len(f['sin_true_dec'])):
                    s, e = f['sin_true_dec'][i], f['true_energy'][i]
                    if lo <= s <= hi and (G['erange'] is None or G['erange'][0] <= e <= G['erange'][1]):
                        rows.append((j, i, g, k))
    return rows, bands


def _row_values(case, mcs, rows, field):
    """value of `field` of every candidate row after relocation to the row's source (reference geometry)"""
    vals = []
    for (j, i, g, k) in rows:
        f = mcs[j]
        if field not in f:
            vals.append(float('nan'))            # a field only some datasets have (never configured for the others)
        elif field in ('dec', 'sin_dec', 'ra'):
            (sra, sdec, _) = case['groups'][g]['sources'][k]
            (ra, dec) = ref_relocate(sra, sdec, f['true_ra'][i], f['true_dec'][i], f['ra'][i], f['dec'][i])
            vals.append({'dec': dec, 'sin_dec': math.sin(dec), 'ra': ra}[field])
        else:
            vals.append(float(f[field][i]))
    return vals


def _valid_ranges(case, mcs, rows, wnorm):
    """validity ranges per dataset: for each configured field a range rejecting about the requested share of the
    candidates (limits of untouched fields exactly at attained values, limits of relocated fields in gaps ≥ 1e-6 of
    the candidate values).  Termination of the redraw loop (DESIGN C18 **P**) needs valid probability mass in every
    (dataset, group) that owns an invalid candidate: where less than 1 % would remain the ranges of that dataset are
    dropped — and *counted* (info['dropped']).  -> (ranges per dataset, valid bit per row, info)"""
    nds = len(mcs)
    info = {'dropped': 0}
    if 'valid_ranges' in case:
        vr = [dict((k, tuple(v)) for k, v in d.items()) for d in case['valid_ranges']]
    else:
        vr = [dict() for _ in range(nds)]
        specs = [(case['vfield'], case['reject'], case['vsel'])]
        if case.get('vfield2'):
            specs.append((case['vfield2'], 0.2, 1.0 - case['vsel']))
        if case.get('extra_field'):
            vr[0]['only0'] = (0.1, 0.9)
        for (field, rej, vsel) in specs:
            if rej <= 0:
                continue
            vals = _row_values(case, mcs, rows, field)
            for j in range(nds):
                v = sorted(set(x for x, r in zip(vals, rows) if r[0] == j))
                if len(v) < 4:
                    continue
                keep = max(1, int(round(len(v) * (1 - rej))))
                a = int(vsel * (len(v) - keep + 1))
                b = a + keep - 1

                def gap(i0, step):
                    i = i0
                    while 0 < i < len(v) and v[i] - v[i - 1] < 1e-6:
                        i += step
                    return i
                if field in ('log_energy', 'ang_err'):
                    # untouched fields are compared as stored: limits exactly at attained values (closed range)
                    vr[j][field] = (v[a], v[b])
                    continue
                ia, ib = gap(a, -1), gap(b + 1, 1)
                lo = -1e300 if ia <= 0 else 0.5 * (v[ia - 1] + v[ia])
                hi = 1e300 if ib >= len(v) else 0.5 * (v[ib - 1] + v[ib])
                vr[j][field] = (lo, hi)

    def bits():
        valid = np.ones(len(rows), dtype=bool)
        for fieldname in sorted(set(k for d in vr for k in d)):
            vals = _row_values(case, mcs, rows, fieldname)
            for r, (row, x) in enumerate(zip(rows, vals)):
                rg = vr[row[0]].get(fieldname)
                if rg is not None and not (rg[0] <= x <= rg[1]):
                    valid[r] = False
        return valid
    valid = bits()
    if 'valid_ranges' not in case:
        w = np.asarray(wnorm, dtype=np.float64)
        for j in range(nds):
            ok = True
            for g in range(len(case['groups'])):
                sel = np.array([r[0] == j and r[2] == g for r in rows], dtype=bool)
                if sel.any() and float(np.sum(w[sel & ~valid])) > 0 and float(np.sum(w[sel & valid])) < 0.01:
                    ok = False
            if not ok and vr[j]:
                vr[j] = dict()
                info['dropped'] += 1
        if info['dropped']:
            valid = bits()
    return vr, valid, info


class _Frozen(dict):
    """a private copy of returned events (field name -> array), with the length of the event array"""
    def __init__(self, ev):
        super().__init__((f, np.array(ev[f])) for f in ev.field_name_list)
        self.n = len(ev)
        self.field_name_list = list(ev.field_name_list)

    def __len__(self):
        return self.n


class ImplConstructionError(Exception):
    """the implementation refused to construct the generator (not a harness error)"""


def _construct(*a, **kw):
    try:
        return fx.make_mc_generator(*a, **kw)
    except Exception as e:  # noqa
        raise ImplConstructionError('%s: %s' % (type(e).__name__, e))


class McRun(object):
    """everything the implementation does on one mc case"""

    def __init__(self, case):
        self.case = case
        self.cfg = fx.make_cfg()
        self.mcs = _mc_fields(case)
        self.lts = [d['livetime'] for d in case['dss']]
        self.rows, self.bands = _ref_table(case, self.mcs)
        self.exc = None
        self.kw_hist = None
        self.merge_hist = None
        # first build without ranges (the weights are needed to design the ranges)
        (g0, self.shg_mgr, _) = _construct(self.cfg, case['groups'], self.mcs, self.lts, layout=case.get('layout', 'copy'))
        self.fac = float(self.cfg.to_internal_time_unit(time_unit=__import__('astropy.units', fromlist=['day']).day))
        self.units = [float(shg.fluxmodel.to_internal_flux_unit()) for shg in self.shg_mgr.shg_list]
        # harness-side reconstruction of the candidate weights (documented formula, plain floats)
        self._flux_cache = {}
        raw = []
        for (j, i, g, k) in self.rows:
            (lo, hi) = self.bands[(g, j)][k]
            sw = case['groups'][g]['sources'][k][2]
            raw.append(float(self.mcs[j]['mcweight'][i] * self.flux_values(g, j)[i] * self.units[g]
                             / (2 * math.pi * (hi - lo)) * (1.0 if sw is None else sw) * self.lts[j] * self.fac))
        self.ref_wsum = float(sum(raw))
        self.ref_wnorm = [x / self.ref_wsum for x in raw] if raw else []
        # implementation-private view of the same table (optional)
        c = _private(g0, '_sig_candidates')
        ws = _private(g0, '_sig_candidates_weight_sum')
        cdf = _private(g0, '_sig_candidates_random_choice', '_cdf')
        self.priv = False
        if c is not None and ws is not None:
            try:
                self.impl_rows = [(int(a_), int(b_), int(c_), int(d_)) for a_, b_, c_, d_ in
                                  zip(c['ds_idx'], c['ev_idx'], c['shg_idx'], c['shg_src_idx'])]
                self.wnorm = [float(x) for x in c['weight']]
                self.wsum = float(ws)
                self.priv = True
            except Exception:  # noqa  (layout of the private table changed)
                SKIPS['skipped:private-attr'] += 1
        if not self.priv:
            self.impl_rows, self.wnorm, self.wsum = list(self.rows), list(self.ref_wnorm), self.ref_wsum
        if cdf is not None and len(np.atleast_1d(cdf)) == len(self.impl_rows):
            self.cdf = np.array(cdf, dtype=np.float64)
        else:
            cs = np.cumsum(np.asarray(self.wnorm, dtype=np.float64))
            self.cdf = cs / cs[-1] if len(cs) else cs
        wn = self.wnorm if self.impl_rows == self.rows else self.ref_wnorm
        (self.vr, self.valid, self.vinfo) = _valid_ranges(case, self.mcs, self.rows, wn)
        wv = np.asarray(wn, dtype=np.float64)
        self.invalid_mass = float(np.sum(wv[~self.valid])) if len(wv) == len(self.valid) else 0.0
        (self.gen, self.shg_mgr, self.datas) = _construct(
            self.cfg, case['groups'], self.mcs, self.lts, valid_ranges=self.vr, layout=case.get('layout', 'copy'),
            ranges_form=case.get('ranges_form', 'list'))

    def near_edge(self, row):
        """MC event within 1e-12 of an edge of the source band (membership then depends on rounding); never in
        the dyadic family, where the band arithmetic is exact"""
        if self.case.get('dyadic'):
            return False
        (j, i, g, k) = row
        (lo, hi) = self.bands[(g, j)][k]
        s = self.mcs[j]['sin_true_dec'][i]
        return min(abs(s - lo), abs(s - hi)) < 1e-12

    def snapshot(self):
        return [dict((k, np.array(d.mc[k]).tobytes()) for k in d.mc.field_name_list) for d in self.datas]

    def generate(self):
        mode = self.case.get('mode', 'int')
        self.rss = fx.make_rss(self.case['seed'], budget=self.case.get('budget', 300000))
        before = self.snapshot()
        self.snap_before = before
        form = {'int': int, 'float': float, 'float-frac': (lambda v: float(v) + 0.9), 'np.int64': np.int64, 'np.float64': np.float64,
                '0d': lambda v: np.array(int(v))}[self.case.get('mean_form', 'int')]
        try:
            (n_signal, d) = self.gen.generate_signal_events(
                self.rss, float(self.case['n']) if mode == 'poisson' else form(self.case['n']), poisson=(mode == 'poisson'))
            self.n_signal = int(n_signal)
            self.events = {int(k): v for k, v in d.items()}
        except Exception as e:  # noqa
            self.exc = '%s: %s' % (type(e).__name__, e)
            self.n_signal, self.events = None, {}
        self.us = list(self.rss.random.us)
        self.gen_us = self.us
        if mode == 'poisson':
            self.total = int(self.rss.random.poisson_draws[0]) if self.rss.random.poisson_draws else None
        else:
            self.total = int(self.case['n'])
        self.mc_unchanged = before == self.snapshot()
        return self

    def flux_values(self, g, j):
        if (g, j) not in self._flux_cache:
            fm = self.shg_mgr.shg_list[g].fluxmodel
            self._flux_cache[(g, j)] = np.atleast_1d(
                np.asarray(fm(E=np.asarray(self.mcs[j]['true_energy'])), dtype=np.float64).squeeze())
        return self._flux_cache[(g, j)]

    def lines(self):
        """driver request lines for the set-up, table, valid flags, gen, mu2flux"""
        L = ['reset', 'fac %s' % f2b(self.fac)]
        for g, G in enumerate(self.case['groups']):
            er = G['erange']
            L.append('grp %s %s %s %d %s %s %s %d %s %s' % (
                flist(np.sin(np.array([s[1] for s in G['sources']], dtype=np.float64))),
                flist([1.0 if s[2] is None else s[2] for s in G['sources']]), f2b(G['hbw']),
                0 if er is None else 1, f2b(0.0 if er is None else er[0]), f2b(0.0 if er is None else er[1]),
                f2b(self.units[g]), int(G.get('batch', 128)),
                flist([s[0] for s in G['sources']]), flist([s[1] for s in G['sources']])))
        for j, f in enumerate(self.mcs):
            L.append('ds %s %s %s %s %s %s %s %s' % (
                f2b(self.lts[j]), flist(f['sin_true_dec']), flist(f['true_energy']), flist(f['mcweight']),
                flist(f['true_ra']), flist(f['true_dec']), flist(f['ra']), flist(f['dec'])))
        for g in range(len(self.case['groups'])):
            for j in range(len(self.mcs)):
                L.append('flux %d %d %s' % (g, j, flist(self.flux_values(g, j))))
        self.i_table = len(L)
        L.append('table')
        # validity ranges: the model relocates the events itself and evaluates the ranges on the relocated values;
        # fields relocation does not touch are handed over as stored
        fid = {}
        for j, d in enumerate(self.vr):
            for fld in sorted(d):
                if fld in ('ra', 'dec', 'sin_dec'):
                    code = fld
                else:
                    if (j, fld) not in fid:
                        fid[(j, fld)] = len(fid)
                        L.append('oth %d %d %s' % (j, fid[(j, fld)], flist(self.mcs[j][fld])))
                    code = 'o%d' % fid[(j, fld)]
                L.append('vrel %d %s %s %s' % (j, code, f2b(d[fld][0]), f2b(d[fld][1])))
        self.i_gen = len(L)
        L.append('gen %d %d %s' % (1 if _GEN['choiceSideRight'] else 0, self.total or 0, flist(self.gen_us)))
        self.i_mu = len(L)
        phis, units = [], []
        for g, shg in enumerate(self.shg_mgr.shg_list):
            for _ in range(shg.n_sources):
                phis.append(float(shg.fluxmodel.Phi0))
                units.append(self.units[g])
        self.i_merge = None
        if self.merge_hist is not None:
            (n_in, len_in, n_out, len_out, dl) = self.merge_hist
            self.i_merge = len(L)
            L.append('amerge %s %s' % (','.join('%d:%s' % (a_, 'x' if b_ is None else b_) for a_, b_ in zip(n_in, len_in)),
                                       ','.join('%d:%d' % (j, k_) for j, k_ in enumerate(dl) if k_ > 0) or '-'))
            self.i_mu = len(L)
        self.i_kw = None
        if self.kw_hist is not None and self.kw_hist[1] is not None:
            self.i_kw = len(L)
            L.append('akw %s' % ','.join(str(m) for m in self.kw_hist[0]))
            self.i_mu = len(L)
        self.mu = 3.5
        L.append('mu2flux %s %s %s' % (f2b(self.mu), flist(phis), flist(units)))
        return L

    def compare(self, ans):
        """-> (text | None, numerically ambiguous?, only the use of the random stream differs?)"""
        # ---- table
        t = ans[self.i_table]
        if t == 'ERR':
            return ('table: model reports an error (empty MC?)', False, False)
        (cs, ws, sm) = t.split(' ')
        mrows = [] if cs == '-' else [tuple(int(x) for x in c.split(':')) for c in cs.split(',')]
        if self.priv and mrows != self.impl_rows:
            d = [(a, b) for a, b in zip(mrows, self.impl_rows) if a != b][:2]
            sym = set(mrows) ^ set(self.impl_rows)
            if sym and all(self.near_edge(r) for r in sym):
                return ('candidate table differs only by events within 1e-12 of a band edge', True, False)
            return ('candidate table: model has %d rows, implementation %d; first differences (model, impl) %r; '
                    'only in model %r, only in implementation %r' % (
                        len(mrows), len(self.impl_rows), d, sorted(set(mrows) - set(self.impl_rows))[:3],
                        sorted(set(self.impl_rows) - set(mrows))[:3]), False, False)
        mw = parse_flist(ws)
        if not self.priv:
            # no private view: events are identified through the model's own table
            self.impl_rows = mrows
            cs = np.cumsum(np.asarray(mw, dtype=np.float64))
            self.cdf = cs / cs[-1] if len(cs) else cs
        for r, (a, b) in enumerate(zip(mw, self.wnorm if self.priv else mw)):
            if abs(a - b) > 1e-9 * max(abs(a), abs(b)) + 1e-300:
                return ('normalised weight of candidate %r: model %r, implementation %r' % (mrows[r], a, b), False, False)
        if self.priv and abs(b2f(sm) - self.wsum) > 1e-9 * abs(self.wsum):
            return ('candidate weight sum: model %r, implementation %r' % (b2f(sm), self.wsum), False, False)
        # ---- Analysis bookkeeping: counts and array lengths after merging the signal into what was handed in
        if self.i_merge is not None:
            (n_in, len_in, n_out, len_out, dl) = self.merge_hist
            impl = ','.join('%d:%s' % (a_, 'x' if b_ is None else b_) for a_, b_ in zip(n_out, len_out))
            if impl != ans[self.i_merge]:
                return ('Analysis.generate_signal_events bookkeeping (counts %r / array lengths %r handed in, signal per dataset %r): '
                        'implementation %s, model %s' % (n_in, len_in, dl, impl, ans[self.i_merge]), False, False)
        # ---- history of Analysis calls sharing one keyword dictionary: total injected per call
        if self.i_kw is not None:
            impl = ','.join('x' if h is None else str(h) for h in self.kw_hist[1])
            if impl != ans[self.i_kw]:
                return ('Analysis.generate_signal_events history %r with one shared sig_kwargs: totals injected per call — '
                        'implementation %s, model %s' % (self.kw_hist[0], impl, ans[self.i_kw]), False, False)
        # ---- mu2flux
        (per, tot) = ans[self.i_mu].split(';')
        try:
            ip = [float(x) for x in self.gen.mu2flux(self.mu, per_source=True)]
            it = float(self.gen.mu2flux(self.mu))
        except Exception as e:  # noqa
            return ('mu2flux raised %s: %s' % (type(e).__name__, e), False, False)
        mp = parse_flist(per)
        if len(mp) != len(ip) or any(abs(a - b) > 1e-9 * max(abs(a), abs(b)) for a, b in zip(mp, ip)):
            return ('mu2flux(%r, per_source=True): model %r, implementation %r' % (self.mu, mp, ip), False, False)
        if abs(b2f(tot) - it) > 1e-9 * abs(it):
            return ('mu2flux(%r): model %r, implementation %r' % (self.mu, b2f(tot), it), False, False)
        # ---- generation: rows (exact) and relocated coordinates (1e-9 rad / 1e-12)
        gl = ans[self.i_gen]
        mcoords = {}
        if gl != 'ERR':
            (h1, h2, mb) = gl.split(';', 2)
            parts = []
            for blk in (mb.split('|') if mb else []):
                (dj, evs_) = blk.split('=')
                items = [] if evs_ == '-' else [x.split(':') for x in evs_.split(',')]
                mcoords[int(dj)] = [(b2f(x[1]), b2f(x[2]), b2f(x[3])) for x in items]
                parts.append('%s=%s' % (dj, ','.join(x[0] for x in items) or '-'))
            gl = '%s;%s;%s' % (h1, h2, '|'.join(parts))
        if self.exc is not None:
            impl = 'ERR'
        else:
            body = '|'.join('%d=%s' % (j, ','.join(str(x) for x in self._impl_rows_of(j)) or '-')
                            for j in sorted(self.events))
            impl = '%d;%d;%s' % (self.n_signal, len(self.us), body)
        if gl != impl:
            amb = False
            if len(self.us) and len(self.cdf):
                u = np.asarray(self.us)
                k = np.clip(np.searchsorted(self.cdf, u), 1, len(self.cdf) - 1)
                amb = bool(np.min(np.minimum(np.abs(self.cdf[k] - u), np.abs(self.cdf[k - 1] - u))) < 1e-12)
            return ('generate_signal_events(total=%r): implementation %s, model %s' % (
                self.total, impl[:300], gl[:300]), amb, True)
        for j, cs_ in mcoords.items():
            ev = self.events[j]
            for n_, (mra, mdec, msd) in enumerate(cs_):
                dd = ref_sep(mra, mdec, float(ev['ra'][n_]), float(ev['dec'][n_]))
                if not dd <= 1e-9 or abs(msd - float(ev['sin_dec'][n_])) > 1e-9:
                    return ('generate_signal_events: event %d of dataset %d: relocated (ra, dec, sin_dec) — implementation '
                            '(%r, %r, %r), model (%r, %r, %r)' % (n_, j, float(ev['ra'][n_]), float(ev['dec'][n_]),
                                                                   float(ev['sin_dec'][n_]), mra, mdec, msd), False, False)
        return (None, False, False)

    def _impl_rows_of(self, j):
        """candidate-table rows of the returned events of dataset j, identified through mc_id and the source
        the event was relocated to (rows of one MC event differ by (group, source))"""
        ev = self.events[j]
        ids = np.asarray(ev['mc_id'])
        base = int(self.mcs[j]['mc_id'][0])
        out = []
        for n in range(len(ev)):
            i = int(ids[n]) - base
            cands = [r for r, row in enumerate(self.impl_rows) if row[0] == j and row[1] == i]
            best, bd = -1, 1e9
            for r in cands:
                (_, _, g, k) = self.impl_rows[r]
                (sra, sdec, _) = self.case['groups'][g]['sources'][k]
                f = self.mcs[j]
                (ra, dec) = ref_relocate(sra, sdec, f['true_ra'][i], f['true_dec'][i], f['ra'][i], f['dec'][i])
                d = ref_sep(ra, dec, float(ev['ra'][n]), float(ev['dec'][n]))
                if d < bd:
                    best, bd = r, d
            out.append(best if bd <= 1e-6 else -1)
        return out


def o_inject(ctx, case):
    """everything the property says about MCMultiDatasetSignalGenerator, checked on its outputs"""
    return _inject(case)[0]


def _inject(case):
    """-> (failure text | None, McRun | None)"""
    mcs0 = _mc_fields(case)
    if not _has_positive_row(case, mcs0, _ref_table(case, mcs0)[0]):
        # nothing can be injected (no candidate, or every candidate has weight 0): outside the property's quantifier;
        # counted, not judged (observation in design.d: with rows but weight sum 0 the constructor accepts nan weights)
        SKIPS['mc:nothing-to-inject(skipped)'] += 1
        return (None, None)
    try:
        run = McRun(case)
    except ImplConstructionError as e:
        mcs = _mc_fields(case)
        if not _has_positive_row(case, mcs, _ref_table(case, mcs)[0]):
            # no MC event of positive weight in any band: refusing to construct is a loud failure, not a violation
            SKIPS['mc:nothing-to-inject(construction refused)'] += 1
            return (None, None)
        return ('constructing MCMultiDatasetSignalGenerator raised %s' % e, None)
    return (_inject_checks(case, run), run)


def _inject_checks(case, run):
    head = 'MCMultiDatasetSignalGenerator (%d datasets, groups %r)' % (
        len(run.mcs), [len(G['sources']) for G in case['groups']])
    # ---- candidate table: complete, nothing else, in band and energy range
    if run.priv and sorted(run.impl_rows) != sorted(run.rows):
        extra = sorted(set(run.impl_rows) - set(run.rows))
        miss = sorted(set(run.rows) - set(run.impl_rows))
        dup = len(run.impl_rows) - len(set(run.impl_rows))
        # tolerate events within 1e-12 of a band edge (float formula of the reference)
        if dup or not all(run.near_edge(r) for r in extra + miss):
            return ('%s: signal candidates (ds, ev, shg, src) differ from the events inside the source bands and '
                    'energy range: %d not allowed %r, %d missing %r, %d duplicates' % (
                        head, len(extra), extra[:3], len(miss), miss[:3], dup))
    if run.priv and run.impl_rows:
        if abs(sum(run.wnorm) - 1.0) > 1e-9 or min(run.wnorm) < 0:
            return '%s: normalised candidate weights sum to %r (min %r)' % (head, sum(run.wnorm), min(run.wnorm))
        # weight formula (reference in plain floats)
        for r in range(0, len(run.impl_rows), max(1, len(run.impl_rows) // 40)):
            (j, i, g, k) = run.impl_rows[r]
            (lo, hi) = run.bands[(g, j)][k]
            sw = case['groups'][g]['sources'][k][2]
            want = (run.mcs[j]['mcweight'][i] * run.flux_values(g, j)[i] * run.units[g] / (2 * math.pi * (hi - lo))
                    * (1.0 if sw is None else sw) * run.lts[j] * run.fac) / run.wsum
            if abs(want - run.wnorm[r]) > 1e-9 * abs(want):
                return '%s: weight of candidate %r is %r, expected %r' % (head, run.impl_rows[r], run.wnorm[r], want)
    # ---- generation
    run.generate()
    call = 'generate_signal_events(mean=%r, poisson=%s, seed=%d) [total %r], validity ranges %r' % (
        case['n'], case.get('mode') == 'poisson', case['seed'], run.total, run.vr)
    if run.exc is not None and run.exc.startswith('DeviateBudgetExceeded'):
        w = np.asarray(run.wnorm if len(run.wnorm) == len(run.valid) else run.ref_wnorm, dtype=np.float64)
        dead = sorted(set((r[0], r[2]) for r, x in zip(run.rows, w) if x > 0)
                      - set((r[0], r[2]) for r, x, v in zip(run.rows, w, run.valid) if x > 0 and v))
        if dead and len(w) == len(run.rows):
            return ('%s.%s did not finish within %d uniform deviates: endless redraw loop, no valid candidate exists for '
                    '(dataset, group) %r although candidates of it are drawn (probability %.3g)' % (
                        head, call, run.rss.random.budget, dead,
                        float(sum(x for r, x in zip(run.rows, w) if (r[0], r[2]) in dead))))
        return ('%s.%s did not finish within %d uniform deviates: the redraw loop does not terminate although the valid '
                'candidates of every dataset and group carry at least 1 %% of the probability' % (
                    head, call, run.rss.random.budget))
    if run.exc is not None:
        return '%s.%s raised %s' % (head, call, run.exc)
    if run.total is None:
        return '%s.%s did not draw the total from rss.random.poisson' % (head, call)
    if not run.mc_unchanged:
        return '%s.%s altered the stored MC arrays' % (head, call)
    tot = sum(len(v) for v in run.events.values())
    if run.n_signal != tot or tot != run.total:
        return '%s.%s: reported n_signal=%d, returned %d events, requested %d' % (head, call, run.n_signal, tot, run.total)
    row_set = set(run.impl_rows)
    refw = dict(zip(run.rows, run.ref_wnorm))
    for j, ev in run.events.items():
        f = run.mcs[j]
        base = int(f['mc_id'][0])
        for n in range(len(ev)):
            i = int(ev['mc_id'][n]) - base
            if not (0 <= i < len(f['mc_id'])):
                return '%s.%s: event %d of dataset %d has mc_id %d which is not in this dataset' % (head, call, n, j, int(ev['mc_id'][n]))
            srcs_all = [(g, k) for (jj, ii, g, k) in row_set if jj == j and ii == i]
            srcs = [(g, k) for (g, k) in srcs_all if refw.get((j, i, g, k), 1.0) > 0]
            if srcs_all and not srcs:
                return ('%s.%s: event %d of dataset %d stems from MC event %d whose candidate rows all have weight zero '
                        '(source weight, live time or MC weight is zero)' % (head, call, n, j, i))
            if not srcs:
                return ('%s.%s: event %d of dataset %d stems from MC event %d (sin_true_dec=%r, E=%r) which is in no '
                        'source band / energy range' % (head, call, n, j, i, f['sin_true_dec'][i], f['true_energy'][i]))
            for fld in ('true_ra', 'true_dec', 'sin_true_dec', 'true_energy', 'mcweight', 'log_energy', 'ang_err'):
                if ev[fld][n] != f[fld][i]:
                    return '%s.%s: field %s of an injected event differs from its MC event' % (head, call, fld)
            for fld, (lo, hi) in run.vr[j].items():
                if not (lo <= ev[fld][n] <= hi):
                    return '%s.%s: injected event %d of dataset %d has %s=%r outside the valid range (%r, %r)' % (
                        head, call, n, j, fld, float(ev[fld][n]), lo, hi)
            want = ref_sep(f['true_ra'][i], f['true_dec'][i], f['ra'][i], f['dec'][i])
            wpa = ref_posang(f['true_ra'][i], f['true_dec'][i], f['ra'][i], f['dec'][i])
            ok = False
            for (g, k) in srcs:
                (sra, sdec, _) = case['groups'][g]['sources'][k]
                got = ref_sep(sra, sdec, float(ev['ra'][n]), float(ev['dec'][n]))
                gpa = ref_posang(sra, sdec, float(ev['ra'][n]), float(ev['dec'][n]))
                dpa = abs((gpa - wpa + math.pi) % (2 * math.pi) - math.pi)
                if abs(got - want) <= 1e-9 and (dpa * math.sin(want) <= 1e-9):
                    ok = True
            if not ok:
                return ('%s.%s: injected event %d of dataset %d (MC event %d) is not at its true-to-reco offset '
                        '(%.3e rad) from any of its sources' % (head, call, n, j, i, want))
            if abs(float(ev['sin_dec'][n]) - math.sin(float(ev['dec'][n]))) > 1e-14:
                return '%s.%s: sin_dec of an injected event is not sin(dec)' % (head, call)
            if not (0.0 <= float(ev['ra'][n]) < 2 * math.pi + 1e-12):
                return '%s.%s: ra=%r of an injected event is outside [0, 2pi)' % (head, call, float(ev['ra'][n]))
    # ---- the arrays handed out are the caller's: no live view of the stored MC, no buffer shared between datasets;
    # writing into them changes nothing that is stored
    for j, ev in run.events.items():
        mcj = run.datas[j].mc
        for fld in ev.field_name_list:
            a_ = np.asarray(ev[fld])
            if fld in mcj and np.shares_memory(a_, np.asarray(mcj[fld])):
                return '%s.%s: field %s of the events returned for dataset %d is a view of the stored MC array' % (head, call, fld, j)
            for j2, ev2 in run.events.items():
                if j2 > j and fld in ev2 and np.shares_memory(a_, np.asarray(ev2[fld])):
                    return '%s.%s: field %s of the events of datasets %d and %d share memory' % (head, call, fld, j, j2)
    live = run.events
    run.events = dict((j, _Frozen(ev)) for j, ev in live.items())      # private copies for the later comparisons
    for j, ev in live.items():
        for fld in ('ra', 'dec', 'mcweight', 'log_energy'):
            if len(ev) and np.asarray(ev[fld]).flags.writeable:
                np.asarray(ev[fld])[...] = -7.0
    if run.snap_before != run.snapshot():
        return '%s.%s: writing into the returned events altered the stored MC arrays' % (head, call)
    # ---- Analysis.generate_signal_events on top of the generator: explicit poisson=False with pre-filled lists (and the
    # same seed: same events as before), the default path (poisson=True), mean_n_sig=0
    import types
    from skyllh.core.analysis import Analysis
    from skyllh.core.storage import DataFieldRecordArray
    nds = len(run.mcs)
    fake = types.SimpleNamespace(n_datasets=nds, _sig_generator=run.gen,
                                 _assert_input_arguments_of_generate_signal_events=lambda **kw: None)

    # the scans below exercise the bookkeeping of Analysis, not the redraw loop: a generator without validity ranges
    try:
        gen_plain = fx.make_mc_generator(run.cfg, case['groups'], run.mcs, run.lts, layout=case.get('layout', 'copy'))[0]
    except Exception:  # noqa
        gen_plain = run.gen
    fake_plain = types.SimpleNamespace(n_datasets=nds, _sig_generator=gen_plain,
                                       _assert_input_arguments_of_generate_signal_events=lambda **kw: None)

    def call_analysis(*a, **kw):
        who = fake_plain if kw.pop('plain', False) else fake
        try:
            return Analysis.generate_signal_events(who, *a, **kw)
        except AttributeError as e:
            if 'SimpleNamespace' in str(e):      # the method reaches for a private member our stand-in does not have
                SKIPS['skipped:private-attr'] += 1
                return None
            raise
    try:
        # bookkeeping handed in: per dataset an event array of 3 events (or None) and a count that may exceed the array
        # length (background generated with an event pre-selection: n_bkg > len(bkg_events))
        hr_ = np.random.RandomState((case['seed'] + 5) % (2 ** 31))
        pre, n_in, len_in = [], [], []
        for j, f in enumerate(run.mcs):
            if nds > 1 and hr_.randint(0, 4) == 0 and case.get('mode', 'int') != 'int':
                pre.append(None)
                len_in.append(None)
                n_in.append(int(hr_.choice([0, 2])))
            else:
                pre.append(DataFieldRecordArray(dict((k, np.array(v[:3])) for k, v in f.items()), copy=True))
                len_in.append(3)
                n_in.append(3 + int(hr_.choice([0, 0, 1, 4, 40])))
        kw_in = {'poisson': False}
        r1 = call_analysis(fx.make_rss(case['seed']), int(case['n']), sig_kwargs=kw_in,
                           n_events_list=(np.array(n_in) if case.get('nlist_form') == 'ndarray' else list(n_in)),
                           events_list=pre)
        if r1 is not None:
            (n_sig, n_list, ev_list) = r1
            lens = [None if e is None else len(e) for e in ev_list]
            dn = [int(a_) - b_ for a_, b_ in zip(n_list, n_in)]
            dl = [(0 if a_ is None else a_) - (0 if b_ is None else b_) for a_, b_ in zip(lens, len_in)]
            run.merge_hist = (n_in, len_in, [int(x) for x in n_list], lens, dl)
            if n_sig != int(case['n']) or min(dn + [0]) < 0 or dn != dl or sum(dn) != int(case['n']):
                return ('Analysis.generate_signal_events(mean_n_sig=%d, poisson=False) on top of events handed in (counts %r, array '
                        'lengths %r): n_sig=%r, n_events_list=%r (signal per dataset %r), lengths of the event arrays %r (grown by %r)' % (
                            case['n'], n_in, len_in, n_sig, [int(x) for x in n_list], dn, lens, dl))
            if case.get('mode', 'int') == 'int':
                for j in range(nds):
                    a_ = np.asarray(ev_list[j]['mc_id'])[3:] if pre[j] is not None else np.asarray(ev_list[j]['mc_id'])
                    b_ = np.asarray(run.events[j]['mc_id']) if j in run.events else np.empty((0,), dtype=a_.dtype)
                    if not np.array_equal(a_, b_):
                        return ('generate_signal_events twice on one generator with the same seed %d returns different events '
                                'for dataset %d' % (case['seed'], j))
        rs2 = fx.make_rss(case['seed'] + 1)
        r2 = call_analysis(rs2, float(case['n']) + 0.5, plain=True)
        if r2 is not None:
            (n_sig, n_list, ev_list) = r2
            lens = [0 if e is None else len(e) for e in ev_list]
            drawn = [int(x) for x in rs2.random.poisson_draws]
            if len(drawn) != 1 or n_sig != drawn[0] or list(n_list) != lens or sum(lens) != n_sig:
                return ('Analysis.generate_signal_events(mean_n_sig=%r) [default: Poisson total, drawn %r]: n_sig=%r, '
                        'n_events_list=%r, lengths %r' % (case['n'] + 0.5, drawn, n_sig, list(n_list), lens))
        # history: ONE sig_kwargs dictionary defined once and reused for a scan over several totals (as the sensitivity /
        # discovery-potential scans in skyllh/core/utils/analysis.py do): every call must inject the total of that call
        m1 = 2 + case['seed'] % 4
        means = [m1, m1 + 3, 0, 1, m1 + 3, m1]
        shared = {'poisson': False}
        handed = []
        one_rss = fx.make_rss(case['seed'] + 9)
        for step, m in enumerate(means):
            rr = call_analysis(one_rss if case.get('same_rss') else fx.make_rss(case['seed'] + 10 + step), m,
                               sig_kwargs=shared, plain=True)
            if rr is None:
                handed = None
                break
            (n_sig, n_list, ev_list) = rr
            lens = [0 if e is None else len(e) for e in ev_list]
            handed.append(None if m == 0 else int(n_sig))
            if n_sig != m or list(n_list) != lens or sum(lens) != m:
                return ('Analysis.generate_signal_events, call %d of a scan %r that reuses one sig_kwargs dictionary '
                        '(sig_kwargs = {"poisson": False} defined once): requested mean_n_sig=%d, n_sig=%r, n_events_list=%r, '
                        'lengths %r' % (step + 1, means, m, n_sig, list(n_list), lens))
        run.kw_hist = (means, handed)
        shared2 = {'poisson': True}
        for step, m in enumerate([2.5, 6.5, 0.75]):
            rs3 = fx.make_rss(case['seed'] + 20 + step)
            rr = call_analysis(rs3, m, sig_kwargs=shared2, plain=True)
            if rr is None:
                break
            lams = [float(x) for x in rs3.random.poisson_lams]
            drawn = [int(x) for x in rs3.random.poisson_draws]
            if lams != [m] or rr[0] != drawn[0] or sum(0 if e is None else len(e) for e in rr[2]) != drawn[0]:
                return ('Analysis.generate_signal_events, call %d of a scan (2.5, 6.5, 0.75) that reuses one sig_kwargs dictionary '
                        '{"poisson": True}: requested mean_n_sig=%r, Poisson mean(s) used %r, drawn %r, n_sig=%r' % (
                            step + 1, m, lams, drawn, rr[0]))
        r3 = call_analysis(fx.make_rss(case['seed']), 0)
        if r3 is not None and (r3[0] != 0 or list(r3[1]) != [0] * nds or any(e is not None for e in r3[2])):
            return 'Analysis.generate_signal_events(mean_n_sig=0) returns %r' % (r3[:2],)
    except fx.DeviateBudgetExceeded:
        pass
    except Exception as e:  # noqa
        return 'Analysis.generate_signal_events raised %s: %s' % (type(e).__name__, e)
    # ---- mu2flux linear
    try:
        a, b = 1.7, 4.1
        fa, fb, fab, f0 = run.gen.mu2flux(a), run.gen.mu2flux(b), run.gen.mu2flux(a + b), run.gen.mu2flux(0.0)
        per = run.gen.mu2flux(a, per_source=True)
    except Exception as e:  # noqa
        return '%s.mu2flux raised %s: %s' % (head, type(e).__name__, e)
    if run.impl_rows:
        if abs(fa + fb - fab) > 1e-12 * abs(fab) or f0 != 0.0 or abs(run.gen.mu2flux(2 * a) - 2 * fa) > 1e-12 * abs(fa):
            return '%s.mu2flux is not linear: f(%r)=%r, f(%r)=%r, f(%r)=%r, f(0)=%r' % (head, a, fa, b, fb, a + b, fab, f0)
        if abs(float(np.sum(per)) - fa) > 1e-12 * abs(fa) or np.any(np.asarray(per) < 0):
            return '%s.mu2flux(per_source=True)=%r does not add up to %r' % (head, per, fa)
        # all groups here share Phi0*unit per group: total = mu / ref_N * sum_k share_k Phi0_k unit_k
        want = 0.0
        off = 0
        for g, shg in enumerate(run.shg_mgr.shg_list):
            for k in range(shg.n_sources):
                share = sum(w for w, row in zip(run.wnorm, run.impl_rows) if row[2] == g and row[3] == k)
                want += a / run.wsum * share * float(shg.fluxmodel.Phi0) * run.units[g]
        if abs(want - fa) > 1e-9 * abs(fa):
            return '%s.mu2flux(%r)=%r, expected mu/ref_N * sum_k share_k Phi0_k = %r' % (head, a, fa, want)
    return None


# ------------------------------------------------------------------------------------------------
# C. relocation, D. bands

def gen_reloc_case(rng):
    kind = rng.choice(['random', 'random', 'small', 'zero', 'polar_src', 'polar_evt', 'far', 'wrap', 'at_pole'])
    sra, sdec = rng.random() * 2 * math.pi, math.asin(rng.uniform(-0.99, 0.99))
    tra, tdec = rng.random() * 2 * math.pi, math.asin(rng.uniform(-0.99, 0.99))
    off = {'random': 0.05, 'small': 1e-7, 'zero': 0.0, 'polar_src': 0.05, 'polar_evt': 0.05, 'far': 2.5, 'wrap': 0.05, 'at_pole': 0.05}[kind]
    if kind == 'polar_src':
        sdec = rng.choice([1, -1]) * (math.pi / 2 - rng.choice([1e-3, 1e-6, 0.02]))
    if kind == 'at_pole':                # astropy's sin_c < 1e-12 branch
        sdec = rng.choice([1, -1]) * (math.pi / 2 - rng.choice([0.0, 1e-13, 1e-15]))
    if kind == 'polar_evt':
        tdec = rng.choice([1, -1]) * (math.pi / 2 - rng.choice([1e-3, 0.02]))
    if kind == 'wrap':
        sra = rng.choice([1e-4, 2 * math.pi - 1e-4])
    rra = tra + rng.uniform(-off, off)
    rdec = max(-math.pi / 2 + 1e-4, min(math.pi / 2 - 1e-4, tdec + rng.uniform(-off, off)))
    return {'kind': kind, 'v': [sra, sdec, tra, tdec, rra % (2 * math.pi), rdec]}


def _impl_reloc(v):
    from skyllh.core.utils.coords import rotate_signal_events_on_sphere
    (ra, dec) = rotate_signal_events_on_sphere(*[np.array([x], dtype=np.float64) for x in v])
    return float(ra[0]), float(dec[0])


def o_reloc(ctx, case):
    v = case['v']
    try:
        (ra, dec) = _impl_reloc(v)
    except Exception as e:  # noqa
        return 'rotate_signal_events_on_sphere%r raised %s: %s' % (tuple(v), type(e).__name__, e)
    want = ref_sep(v[2], v[3], v[4], v[5])
    got = ref_sep(v[0], v[1], ra, dec)
    if abs(want - got) > 1e-9:
        return ('rotate_signal_events_on_sphere(src=(%r,%r), true=(%r,%r), reco=(%r,%r)) = (%r,%r): distance to the '
                'source %r, true-to-reco distance %r' % (v[0], v[1], v[2], v[3], v[4], v[5], ra, dec, got, want))
    wpa, gpa = ref_posang(v[2], v[3], v[4], v[5]), ref_posang(v[0], v[1], ra, dec)
    dpa = abs((gpa - wpa + math.pi) % (2 * math.pi) - math.pi)
    if dpa * math.sin(want) > 1e-9:
        return 'rotate_signal_events_on_sphere%r: position angle %r, expected %r' % (tuple(v), gpa, wpa)
    if not (-math.pi / 2 <= dec <= math.pi / 2 and 0 <= ra < 2 * math.pi + 1e-12):
        return 'rotate_signal_events_on_sphere%r = (%r, %r) outside the coordinate ranges' % (tuple(v), ra, dec)
    return None


def reloc_compare(case, model):
    v = case['v']
    (ra, dec) = _impl_reloc(v)
    (mra, mdec, c1, c2) = parse_flist(model)
    d = ref_sep(ra, dec, mra, mdec)
    if not d <= 1e-9:
        return 'reloc %r: implementation (%r, %r), model (%r, %r), %.3e rad apart' % (v, ra, dec, mra, mdec, d)
    if abs(c1 - c2) > 1e-12:
        return 'reloc %r: model cosSep(src, relocated)=%r but cosSep(true, reco)=%r' % (v, c1, c2)
    return None


def gen_band_case(rng):
    L = rng.choice([-1.0, -0.9, -0.3, 0.0])
    U = rng.choice([1.0, 0.95, 0.5, 0.2])
    w = rng.choice([0.01, math.sin(math.radians(1)), 0.05, 0.1, (U - L) / 2, (U - L) / 2 * 0.999])
    xs = [L, U, (L + U) / 2, L + w, U - w] + [L + (U - L) * rng.random() for _ in range(3)]
    return {'L': L, 'U': U, 'w': w, 'xs': [max(-1.0, min(1.0, x)) for x in xs]}


def _impl_bands(case):
    from skyllh.i3.signal_generation import PointLikeSourceI3SignalGenerationMethod
    m = PointLikeSourceI3SignalGenerationMethod(src_sin_dec_half_bandwidth=case['w'])
    dec = np.arcsin(np.array(case['xs'], dtype=np.float64))
    f = _private(m, '_get_src_dec_bands')
    if f is not None:
        (lo, hi, om) = f(dec, (case['L'], case['U']))
        return np.sin(dec), lo, hi, om
    # public part only: the shift function the method is configured with (band = shifted sin(dec) -/+ w)
    x = np.sin(dec)
    w = m.src_sin_dec_half_bandwidth
    c = x + m.src_sin_dec_shift_func(np.array(x), w, case['L'], case['U'])
    return x, c - w, c + w, 2 * np.pi * ((c + w) - (c - w))


def o_band(ctx, case):
    """band = shifted sin(dec) ± w, inside the MC coverage [L, U] and containing the source when the source is
    inside the coverage and 2w ≤ U − L (exact rational evaluation of the documented shift)"""
    (x, lo, hi, om) = _impl_bands(case)
    L, U, w = Fraction(case['L']), Fraction(case['U']), Fraction(case['w'])
    tol = Fraction(1, 10 ** 12)
    for xi, a, b, o in zip(x, lo, hi, om):
        X = Fraction(float(xi))
        c = X + (-2 * w / (U - L)) * X + w * (L + U) / (U - L)
        if abs(Fraction(float(a)) - (c - w)) > tol or abs(Fraction(float(b)) - (c + w)) > tol:
            return '_get_src_dec_bands: source sin(dec)=%r, w=%r, range (%r,%r): band (%r,%r), expected (%r,%r)' % (
                float(xi), case['w'], case['L'], case['U'], float(a), float(b), float(c - w), float(c + w))
        if L <= X <= U and 2 * w <= U - L:
            if Fraction(float(a)) < L - tol or Fraction(float(b)) > U + tol:
                return '_get_src_dec_bands: band (%r,%r) of source sin(dec)=%r leaves the MC coverage (%r,%r)' % (
                    float(a), float(b), float(xi), case['L'], case['U'])
            if not (Fraction(float(a)) - tol <= X <= Fraction(float(b)) + tol):
                return '_get_src_dec_bands: band (%r,%r) does not contain the source sin(dec)=%r' % (float(a), float(b), float(xi))
        if abs(float(o) - 2 * math.pi * (float(b) - float(a))) > 1e-12:
            return '_get_src_dec_bands: solid angle %r for band (%r,%r)' % (float(o), float(a), float(b))
    return None


def band_lines(case):
    (x, lo, hi, om) = _impl_bands(case)
    return (['band %s %s %s %s' % (f2b(xi), f2b(case['w']), f2b(case['L']), f2b(case['U'])) for xi in x],
            ['%s,%s' % (f2b(a), f2b(b)) for a, b in zip(lo, hi)])


def o_choice(ctx, case):
    """RandomChoice never returns an item of zero probability, indices follow the CDF"""
    from skyllh.core.random import RandomChoice
    p = np.array(case['p'], dtype=np.float64)
    p = p / np.sum(p)
    rc = RandomChoice(items=np.arange(len(p)), probabilities=p)

    class Inner(object):
        def __init__(s, us):
            s.us = np.array(us, dtype=np.float64)

        def random(s, size):                    # RandomChoice calls rss.random.random(size)
            return s.us[:size].copy()
        random_sample = random

    class R(object):
        def __init__(s, us):
            s.random = Inner(us)
    res = rc(R(case['us']), len(case['us']))
    cdf = np.cumsum(p)
    for u, i in zip(case['us'], res):
        if p[i] <= 0:
            return 'RandomChoice(p=%r) returned item %d of probability 0 for u=%r' % (p.tolist(), int(i), u)
        lo = cdf[i - 1] if i > 0 else 0.0
        if not (lo - 1e-12 <= u <= cdf[i] + 1e-12):
            return 'RandomChoice(p=%r) returned item %d for u=%r, CDF interval (%r, %r)' % (p.tolist(), int(i), u, lo, cdf[i])
    return None


def o_change_shg(ctx, case):
    """fresh-vs-used: after change_shg_mgr(new manager) the candidate table is the one of a generator built
    directly on the new manager (no stale candidates / weight sum / CDF)"""
    cfg = fx.make_cfg()
    mcs = _mc_fields(case)
    lts = [d['livetime'] for d in case['dss']]
    for key in ('groups', 'groups2'):
        cc = dict(case, groups=case[key])
        if not _has_positive_row(cc, mcs, _ref_table(cc, mcs)[0]):
            SKIPS['change_shg:nothing-to-inject(skipped)'] += 1
            return None
    try:
        (used, _, _) = fx.make_mc_generator(cfg, case['groups'], mcs, lts)
        (fresh, mgr2, _) = fx.make_mc_generator(cfg, case['groups2'], mcs, lts)
    except ValueError:
        return None                 # one of the set-ups has no candidate at all
    try:
        used.change_shg_mgr(mgr2)
    except Exception as e:  # noqa
        return 'MCMultiDatasetSignalGenerator.change_shg_mgr raised %s: %s' % (type(e).__name__, e)
    # public behaviour: same flux conversion and, with the same random numbers, the same injected events
    for mu, per in ((2.0, False), (2.0, True)):
        if not np.allclose(np.asarray(used.mu2flux(mu, per_source=per)), np.asarray(fresh.mu2flux(mu, per_source=per)),
                           rtol=1e-12, atol=0.0, equal_nan=True):
            return ('after change_shg_mgr mu2flux(%r, per_source=%r)=%r differs from %r of a generator built on the new '
                    'source hypothesis groups (stale candidates / weight sum)' % (
                        mu, per, used.mu2flux(mu, per_source=per), fresh.mu2flux(mu, per_source=per)))
    n = int(case.get('n', 20)) or 20
    outs = []
    for g in (used, fresh):
        try:
            (ns, d) = g.generate_signal_events(fx.make_rss(case['seed']), n, poisson=False)
        except Exception as e:  # noqa
            return 'after change_shg_mgr generate_signal_events raised %s: %s' % (type(e).__name__, e)
        outs.append((int(ns), dict((int(k), dict((f, np.asarray(v[f]).tobytes()) for f in v.field_name_list))
                                   for k, v in d.items())))
    if outs[0] != outs[1]:
        return ('after change_shg_mgr generate_signal_events(mean=%d, seed=%d) returns other events than a generator built on '
                'the new source hypothesis groups (stale candidates)' % (n, case['seed']))
    # history on one generator object: use / change_shg_mgr(manager object) / a source replaced IN PLACE inside a manager object
    # (what Analysis.change_source does before it hands the same manager over again), in random order.  Every operation must
    # work with the candidates of the manager — object and content — in force since the last change_shg_mgr; observed through
    # mu2flux, identified against fresh generators for every (object, content version).
    try:
        from skyllh.core.source_model import PointLikeSource
        (freshA, mgrA, _) = fx.make_mc_generator(cfg, case['groups'], mcs, lts)
        objs = {0: (mgrA, case['groups']), 1: (mgr2, case['groups2'])}

        KINDS = ('weight0', 'dec', 'weight', 'weight0', 'dec', 'weight')

        def desc(obj, ver):
            """groups description of manager object `obj` after `ver` in-place replacements of its first source.  The k-th
            replacement changes, in turn, what the candidates depend on besides the position: the source WEIGHT (to 0 when
            another source of the group keeps a positive weight, else halved; or multiplied by 2.5) or the declination."""
            gs = [dict(G, sources=[tuple(x) for x in G['sources']]) for G in objs[obj][1]]
            for k_ in range(1, ver + 1):
                (ra0, dec0, w0) = gs[0]['sources'][0]
                w0 = 1.0 if w0 is None else float(w0)
                kind = KINDS[(k_ + obj) % len(KINDS)]
                if kind == 'dec':
                    dec0 = max(-1.4, min(1.4, dec0 + 0.11 * (1 if dec0 < 0 else -1)))
                elif kind == 'weight':
                    w0 = 2.5 * w0 if w0 > 0 else 1.5
                else:
                    others = [x for x in gs[0]['sources'][1:] if x[2] is None or x[2] > 0]
                    w0 = 0.0 if (others and w0 > 0) else (0.5 * w0 if w0 > 0 else 1.0)
                gs[0]['sources'][0] = (ra0, dec0, w0)
            return gs
        vals = {}

        def val(obj, ver):
            """per-source mu2flux of a fresh generator on that content (nan = no candidate at all)"""
            if (obj, ver) not in vals:
                try:
                    vals[(obj, ver)] = np.asarray(
                        fx.make_mc_generator(cfg, desc(obj, ver), mcs, lts)[0].mu2flux(2.0, per_source=True), dtype=np.float64)
                except Exception:  # noqa  (no candidate at all for this content)
                    vals[(obj, ver)] = np.array([float('nan')])
            return vals[(obj, ver)]

        def same(a_, b_):
            return a_.shape == b_.shape and not np.any(np.isnan(b_)) and bool(np.allclose(a_, b_, rtol=1e-9, atol=0.0))
        hr = np.random.RandomState(case['seed'] % (2 ** 31))
        ops = [['u', 'c0', 'c1', 'm0', 'm1', 'm1'][int(x)] for x in hr.randint(0, 6, size=7)]
        if True:
            ver = {0: 0, 1: 0}
            force = (1, 0)                     # `used` was switched to manager object 1 above
            seen_, want, ok_ident = [], [], True
            for op in ops:
                if op[0] == 'm':
                    o_ = int(op[1])
                    ver[o_] += 1
                    src = desc(o_, ver[o_])[0]['sources'][0]
                    objs[o_][0].shg_list[0].source_list[0] = PointLikeSource(
                        ra=float(src[0]), dec=float(src[1]), weight=(None if src[2] is None else float(src[2])))
                elif op[0] == 'c':
                    o_ = int(op[1])
                    cc_ = dict(case, groups=desc(o_, ver[o_]))
                    if not _has_positive_row(cc_, mcs, _ref_table(cc_, mcs)[0]):
                        # the content handed over has no signal candidate of positive weight (e.g. the moved source's band is
                        # empty): outside the quantifier; the code refuses loudly (ValueError) and the generator is unusable
                        # afterwards — the history ends here, like the other oracles treat "nothing to inject"
                        SKIPS['change_shg:history-stopped-at-content-without-candidates'] += 1
                        try:
                            used.change_shg_mgr(objs[o_][0])
                        except Exception:  # noqa
                            pass
                        ok_ident = False
                        break
                    used.change_shg_mgr(objs[o_][0])
                    force = (o_, ver[o_])
                v = np.asarray(used.mu2flux(2.0, per_source=True), dtype=np.float64)
                cands_ = [(o_, k_) for o_ in (0, 1) for k_ in range(ver[o_] + 1)]
                if np.any(np.isnan(val(*force))):
                    ok_ident = False                # the content in force has no candidates: nothing to identify
                    break
                match = [c_ for c_ in cands_ if same(v, val(*c_))]
                match = [force] if force in match else (match if len(match) == 1 else [(-1, -1)])
                seen_.append(match[0])
                want.append(force)
            # leave both manager objects and the generator as they were handed in
            for o_ in (0, 1):
                src = desc(o_, 0)[0]['sources'][0]
                objs[o_][0].shg_list[0].source_list[0] = PointLikeSource(
                    ra=float(src[0]), dec=float(src[1]), weight=(None if src[2] is None else float(src[2])))
            used.change_shg_mgr(mgr2)
            if ok_ident and len(seen_) == len(ops):
                CACHE_HIST.append((['c1'] + ops, [(1, 0)] + seen_, dict(case)))
                if seen_ != want:
                    return ('history %r on one MCMultiDatasetSignalGenerator (c<k> = change_shg_mgr(manager object k), m<k> = first source '
                            'of manager object k replaced in place — other weight (incl. 0) or other declination —, u = use; after every operation the per-source mu2flux is read): the generator works '
                            'with the candidates of (object, content version) %r, in force are %r (stale candidates)' % (
                                ops, seen_, want))
            else:
                SKIPS['change_shg:history-not-identifiable(skipped)'] += 1
    except Exception as e:  # noqa
        return 'history of change_shg_mgr / in-place source replacement / mu2flux raised %s: %s' % (type(e).__name__, e)
    # implementation-private state, when it can be seen
    (a, b) = (_private(used, '_sig_candidates'), _private(fresh, '_sig_candidates'))
    if a is not None and b is not None and (len(a) != len(b) or a.tobytes() != b.tobytes()):
        return ('after change_shg_mgr the signal candidates (%d rows) differ from those of a generator built on the new '
                'source hypothesis groups (%d rows)' % (len(a), len(b)))
    return None


def o_corr(ctx, case):
    """re-run the model/implementation comparison of one correspondence case"""
    k = case['kind']
    if k == 'dist':
        r = run_dist_impl(case)
        return dist_compare(case, r, ctx.driver('C18', [dist_lines(case, r)])[0])[0]
    if k == 'mc':
        run = McRun(case).generate()
        (d, amb, _) = run.compare(ctx.driver('C18', run.lines()))
        return None if amb else d
    if k == 'reloc':
        return reloc_compare(case, ctx.driver('C18', ['reloc ' + ' '.join(f2b(x) for x in case['v'])])[0])
    if k == 'band':
        (req, impl) = band_lines(case)
        for a, b in zip(ctx.driver('C18', req), impl):
            if any(abs(b2f(x) - b2f(y)) > 1e-12 for x, y in zip(a.split(','), b.split(','))):
                return 'band: implementation %s, model %s' % (b, a)
        return None
    raise ValueError(k)


def _guard(fn):
    """an exception of the harness itself is a machinery error (exit 2), never a verdict"""
    import functools
    import traceback

    @functools.wraps(fn)
    def wrapped(*a, **kw):
        try:
            return fn(*a, **kw)
        except MachineryError:
            raise
        except Exception as e:  # noqa
            raise MachineryError('harness/props/c18.py: %s: %s\n%s' % (type(e).__name__, e, traceback.format_exc()[-1500:]))
    return wrapped


ORACLES = {k: _guard(v) for k, v in {'dist': o_dist, 'inject': o_inject, 'change_shg': o_change_shg, 'reloc': o_reloc,
                                     'band': o_band, 'choice': o_choice, 'corr': o_corr}.items()}


def _classify(res):
    import re
    if 'negative number' in res:
        return 'negative-count'
    if 'endless redraw loop, no valid candidate' in res:
        return 'redraw-endless-no-valid-candidate'
    if 'does not terminate' in res:
        return 'redraw-does-not-terminate'
    if 'on top of events handed in' in res:
        return 'bookkeeping-of-handed-in-events'
    if 'reuses one sig_kwargs dictionary' in res:
        return 'shared-sig_kwargs-keeps-stale-total'
    if 'same generator object' in res:
        return 'history-dependent-count'
    if 'events lost without an error' in res:
        return 'short-generator-list-loses-events'
    if 'weight zero' in res:
        return 'zero-weight-candidate-injected'
    m = re.search(r'raised (\w+)', res)
    if m:
        return 'raises-' + m.group(1)
    for key, tag in (('add up to', 'sum-differs'), ('zero weight', 'zero-weight-gets-events'),
                     ('reported n_signal', 'count-not-conserved'), ('signal candidates', 'candidate-table'),
                     ('valid range', 'invalid-event'), ('true-to-reco', 'offset-not-preserved'),
                     ('position angle', 'offset-not-preserved'), ('distance to the source', 'offset-not-preserved'),
                     ('not linear', 'mu2flux-not-linear'), ('mu2flux', 'mu2flux'), ('altered', 'mc-altered'),
                     ('leaves the MC coverage', 'band-outside-coverage'), ('band', 'band'),
                     ('weight', 'weights'), ('source band', 'event-outside-band')):
        if key in res:
            return tag
    return 'wrong-result'


_SITE = {'dist': 'MultiDatasetSignalGenerator.generate_signal_events',
         'inject': 'MCMultiDatasetSignalGenerator', 'change_shg': 'MCMultiDatasetSignalGenerator.change_shg_mgr', 'reloc': 'rotate_signal_events_on_sphere',
         'band': 'PointLikeSourceI3SignalGenerationMethod._get_src_dec_bands', 'choice': 'RandomChoice'}


def _report(ctx, name, case, res, **kw):
    ctx.violation(name, case, res, signature='C18/%s/%s' % (_SITE[name], _classify(res)), **kw)


def run(ctx):
    return _guard(_run)(ctx)


def _run(ctx):
    rng = ctx.rng
    ctx.rule = ('dist: DIRECTED class always generated: rounding overshoot >= 2 with a dataset holding exactly one event (5..6 datasets, '
                'shares just above 1/2), per configuration one seed for which the mask update between two removals decides and one '
                'arbitrary seed; error branches of the entry (nan / inf total, negative Poisson mean); '
                'dist: 2..6 datasets, yields from 7 families (equal, (3,…,3,1), small integers, random, tiny 1e-9..1e-300, with zeros, '
                'exact halves), totals 0..50 given as int / as float (truncated) / drawn by poisson=True, any seed, generator list '
                'complete or one short; mc: 1..3 synthetic MC datasets (60..500 events, coverage edges attained, events exactly on '
                'energy-range limits; dyadic family with events exactly on / one ulp beside the band edges), 1..2 groups of 1..3 '
                'sources inside / near / at the coverage edges / outside the coverage / at a celestial pole, source weights incl. 0, '
                'live time incl. 0, MC weights incl. 0, optional energy range, source batch sizes 128/1/2, totals 0..50 (int or Poisson), '
                'validity ranges on one or two fields (untouched or relocated) with requested rejection 0/20/50/80/95 % — the evidence '
                'counts the *effective* invalid probability mass and the ranges dropped to keep ≥ 1 % valid mass — plus the class '
                '"a drawn (dataset, group) has no valid candidate" under a deviate budget; reloc: random, tiny, zero, polar, exact pole, '
                'far offsets; a case is non-trivial when distinct by its full description')
    ctx.trusted_base += ['correspondence harness harness/props/c18.py + harness/siggen_fixtures.py (stub detector signal yields, '
                         'recording per-dataset generators, twin RandomState recording the uniform deviates and the Poisson draw)',
                         'numpy RandomState.choice(p) = searchsorted(cumsum(p)/sum, u, right), np.round half-to-even, np.unique, '
                         'np.searchsorted semantics re-implemented in Model/SigGen.lean and compared on every run',
                         'astropy position_angle / separation / offset_by formulas transcribed into the model (compared at 1e-9, '
                         'pole branch included)',
                         'validity bits: computed by the model from the ranges and from field values the harness obtains with its own '
                         'vector-algebra relocation (limits of relocated fields are placed in gaps ≥ 1e-6 of these values)',
                         'IEEE rounding is outside the theorems (ordered-field / real statements)']
    ctx.assumptions += ['the total is an input of the model: the harness feeds the integer the code works with (argument, truncated float, or '
                        'the recorded Poisson draw — numpy\'s Poisson sampler itself is not modelled)',
                        'dataset weights are non-negative with positive sum; uniform deviates lie in [0,1)',
                        'TERMINATION of the redraw loop is assumed by every theorem about generate (fuel in the model); it holds only if each '
                        'drawn (dataset, group) owns a valid candidate of positive probability — otherwise the code loops forever '
                        '(open finding redraw-endless-no-valid-candidate)',
                        'exact agreement on the consumption of the random stream is a diagnostic, not a verdict (see notes)',
                        'the rounding the driver runs on doubles (rintF = round-half-even, then to int) is ASSUMED to satisfy RoundOK (0 -> 0, '
                        'non-negative -> non-negative): Float is opaque to the kernel; proved for the rational version (c18_rintQ_ok), compared on every run',
                        'c18_full_pipeline: inputs non-negative (MC weights, flux values, source weights, live times, unit factors), half band '
                        'width > 0, batch sizes > 0, some candidate of positive weight — the quantifier of the property; weights >= 0 is then proved '
                        '(c18_table_weights_nonneg), not assumed',
                        'sources not within 1e-12 (in cos dec) of a pole for c18_rotation_preserves_sep; exact poles: c18_offset_cos_sep_pole']

    # ---------------- A. dist
    dist_cases = [{'Y': [3.0, 3.0, 3.0, 1.0], 'mean': 5, 'seed': 4}]          # the design's witness
    dist_cases += gen_surplus2_cases(rng, ctx.n(20, 300))                     # directed (round 7): always generated
    dist_cases += [gen_dist_case(rng) for _ in range(ctx.n(600, 15000))]
    reqs, runs = [], []
    agg_reqs = []
    for c in dist_cases:
        r = run_dist_impl(c)
        runs.append(r)
        reqs.append(dist_lines(c, r))
        # aggregation (n_signal += …, dictionaries merged by key) on the counts the implementation used
        ok_counts = r['exc'] is None and c.get('ngens') is None and all(x is not None for x in r['counts'])
        agg_reqs.append('agg %s %d' % (','.join(str(x) for x in r['counts']), len(r['counts'])) if ok_counts else 'agg 0 1')
        _dist_branches(c, r)
        tt = r['total'] or 0
        s = sum(int(round(tt * w)) for w in r['weights']) if all(w == w for w in r['weights']) else 0
        ctx.count('dist:rounding-' + ('exact' if s == tt else 'up' if s > tt else 'down'))
        ctx.count('dist:mode=' + ('short-generator-list' if c.get('ngens') is not None else c.get('mode', 'int')))
        ctx.count('dist:n-datasets=%d' % len(r['weights']))
        if c.get('hist'):
            ctx.count('dist:history-on-one-generator-object')
        if c.get('directed'):
            ctx.count('dist:directed:' + c['directed'])
        if s >= tt + 2 and all(w == w for w in r['weights']):
            ctx.count('dist:rounding-overshoot>=2')
            if any(int(round(tt * w)) == 1 for w in r['weights']):
                ctx.count('dist:rounding-overshoot>=2-with-a-single-event-dataset')
        if r['other_draws']:
            ctx.count('dist:other-random-primitives-used')
        if any(w == 0.0 for w in r['weights']):
            ctx.count('dist:has-zero-weight')
        if any(0 < w < 1e-6 for w in r['weights']):
            ctx.count('dist:has-tiny-weight')
    models = ctx.driver('C18', reqs)
    aggs = ctx.driver('C18', agg_reqs)
    suspicious = []
    # round 7: the whole method as one model function (entry incl. int_cast / Poisson branch, distribute, aggregate)
    for c, r, m in zip(dist_cases, runs, ctx.driver('C18', [mgen_line(c, r) for c, r in zip(dist_cases, runs)])):
        if r['total'] is None:
            continue
        (d, stream_only) = mgen_compare(c, r, m)
        if d:
            suspicious.append(('dist', c, d, m, stream_only))
    # error branches of the entry, both sides must refuse
    ent = [('float', 'nan'), ('float', 'inf'), ('float', '-inf'), ('poisson', '-1.0'), ('poisson', '-0.25')]
    ent_ans = ctx.driver('C18', ['mgen %d %s 3 %s %s 2' % (1 if mo == 'poisson' else 0, f2b(float(mr)), flist([1 / 3., 2 / 3.]),
                                                           flist([0.5] * 4)) for (mo, mr) in ent])
    for (mo, mr), a_ in zip(ent, ent_ans):
        ce = {'kind': 'entry-error', 'mode': mo, 'mean': mr, 'Y': [1.0, 2.0]}
        ctx.case(key=('entry', mo, mr))
        ctx.count('dist:entry-error-branch:' + mo)
        BR['entryTotal:poisson-negative-mean-error' if mo == 'poisson' else 'entryTotal:int_cast-error(nan/inf)'] += 1
        impl_ = _entry_error_impl(mo, mr)
        if (a_ == 'ERR') != (impl_ == 'ERR'):
            ctx.violation('corr', ce, 'generate_signal_events(mean=%s, poisson=%s): implementation %s, model %s' % (
                mr, mo == 'poisson', impl_, a_), kind='correspondence', relation='error behaviour of the entry (int_cast / Poisson mean)',
                model_output=a_, signature='C18/corr/entry', no_failing_input=True)
    # the stale-mask variant of the model (decrHoisted, NOT the code) = the harness' stale-mask twin that directs the seeds
    hs_cases = [(c, r) for c, r in zip(dist_cases, runs)
                if r['exc'] is None and c.get('ngens') is None and r['total'] is not None and all(w == w for w in r['weights'])
                and sum(int(np.round(r['total'] * w)) for w in r['weights']) >= r['total'] + 2]
    hs_ans = ctx.driver('C18', ['disth 1 %d %s %s' % (r['total'], flist(r['weights']), flist(r['us'])) for c, r in hs_cases])
    for (c, r), a_ in zip(hs_cases, hs_ans):
        (_, stale) = _stale_mask_counts(r['weights'], r['total'], r['us'])
        want = '%s;%d' % (','.join(str(int(x)) for x in stale), len(r['us']))
        ctx.count('dist:stale-mask-twin-compared-with-decrHoisted')
        if a_ != want:
            raise MachineryError('stale-mask twin of the harness %s differs from the model decrHoisted %s on %r' % (want, a_, c))
    for c, r, a_req, a_ans in zip(dist_cases, runs, agg_reqs, aggs):
        if a_req != 'agg 0 1':
            BR['aggregate:ok'] += 1
            want = '%d;%s' % (r['n_signal'], ','.join('%d=%d' % (j, r['lens'].get(j, 0)) for j in range(len(r['counts']))))
            if a_ans != want:
                suspicious.append(('dist', c, 'aggregation of the per-dataset results: implementation %s, model %s' % (want, a_ans),
                                   a_ans, False))
    for c, r, m in zip(dist_cases, runs, models):
        ctx.case(key=('dist', c), desc={'kind': 'dist', **c} if ctx.evaluations % 1499 == 0 else None)
        (d, stream_only) = dist_compare(c, r, m)
        if d:
            suspicious.append(('dist', c, d, m, stream_only))
        res = o_dist(ctx, c, r)
        if res:
            _report(ctx, 'dist', c, res, model_output=m)

    # ---------------- D. bands
    band_cases = [gen_band_case(rng) for _ in range(ctx.n(40, 600))]
    reqs, impls, owner = [], [], []
    for c in band_cases:
        (rq, im) = band_lines(c)
        reqs += rq
        impls += im
        owner += [c] * len(rq)
    bitdiff = 0
    for c, a, b in zip(owner, ctx.driver('C18', reqs), impls):
        if a != b:
            bitdiff += 1
            if any(abs(b2f(x) - b2f(y)) > 1e-12 for x, y in zip(a.split(','), b.split(','))):
                suspicious.append(('band', c, 'band: implementation %s, model %s' % (b, a), a, False))
    ctx.extra['band_bit_differences'] = bitdiff
    for c in band_cases:
        ctx.case(key=('band', c))
        ctx.count('band')
        res = o_band(ctx, c)
        if res:
            _report(ctx, 'band', c, res)

    # ---------------- C. relocation
    reloc_cases = [gen_reloc_case(rng) for _ in range(ctx.n(150, 4000))]
    models = ctx.driver('C18', ['reloc ' + ' '.join(f2b(x) for x in c['v']) for c in reloc_cases])
    for c, m in zip(reloc_cases, models):
        ctx.case(key=('reloc', c['v']), desc={'kind': 'reloc', **c} if ctx.evaluations % 997 == 0 else None)
        ctx.count('reloc:' + c['kind'])
        BR['offsetBy:pole-branch' if abs(math.cos(c['v'][1])) < 1e-12 else 'offsetBy:regular'] += 1
        res = o_reloc(ctx, c)
        if res:
            _report(ctx, 'reloc', c, res, model_output=m)
            continue
        d = reloc_compare(c, m)
        if d:
            suspicious.append(('reloc', c, d, m, False))

    # ---------------- RandomChoice
    for _ in range(ctx.n(40, 1000)):
        n = rng.choice([1, 2, 3, 5, 9])
        p = [rng.choice([0.0, 0.0, 1.0, 2.0, rng.random()]) for _ in range(n)]
        p[rng.randrange(n)] = 1.0
        c = {'p': p, 'us': [0.0, 1.0 - 2 ** -53] + [rng.random() for _ in range(6)]}
        ctx.case(key=('choice', c))
        ctx.count('choice')
        res = o_choice(ctx, c)
        if res:
            _report(ctx, 'choice', c, res)

    # ---------------- B. mc
    n_amb = 0
    mc_runs, all_lines = [], []
    it = 0
    while it < ctx.n(30, 400):
        c = gen_mc_case(rng, small=not ctx.thorough, force_simple=(it in (1, 2, 3, 4)),
                        force=('three_groups' if it in (5, 6) else 'short_batch' if it == 7 else None))
        if it == 0:
            c['n'] = 0                       # directed: nothing requested
        if not _ref_table(c, _mc_fields(c))[0]:
            ctx.count('mc:no-candidate-at-all(skipped)')
            continue
        it += 1
        ctx.case(key=('mc', c), desc={'kind': 'mc', **c} if it % 97 == 1 else None)
        ctx.count('mc:requested-reject=%s' % c['reject'])
        ctx.count('mc:datasets=%d' % len(c['dss']))
        ctx.count('mc:mode=' + c.get('mode', 'int'))
        for dim in ('layout', 'ranges_form', 'mean_form', 'nlist_form'):
            ctx.count('mc:%s=%s' % (dim, c.get(dim, 'default')))
        if c.get('extra_field'):
            ctx.count('mc:field-of-one-dataset-only')
        if c.get('same_rss'):
            ctx.count('mc:history-on-one-rss-object')
        for G in c['groups']:
            ctx.count('mc:sources-per-group=%d' % len(G['sources']))
            for s_ in G['sources']:
                if s_[2] == 0.0:
                    ctx.count('mc:zero-weight-source')
                if abs(abs(s_[1]) - math.pi / 2) < 1e-12:
                    ctx.count('mc:polar-source')
        if any(d['livetime'] == 0.0 for d in c['dss']):
            ctx.count('mc:zero-livetime-dataset')
        if any(d.get('zero_mcw') for d in c['dss']):
            ctx.count('mc:zero-mcweight-events')
        if c.get('vfield2'):
            ctx.count('mc:two-validity-fields')
        (res, run_) = _inject(c)
        if res:
            _report(ctx, 'inject', c, res)
            continue
        if run_ is None:
            continue
        # what was really rejected: invalid probability mass after dropping ranges that would leave < 1 % valid mass
        m_ = run_.invalid_mass
        ctx.count('mc:effective-invalid-mass=' + ('0' if m_ == 0 else '<5%' if m_ < 0.05 else '5-50%' if m_ < 0.5
                                                    else '50-80%' if m_ < 0.8 else '80-95%' if m_ < 0.95 else '>95%'))
        if run_.vinfo['dropped']:
            ctx.count('mc:ranges-dropped(<1%-valid-mass)', run_.vinfo['dropped'])
        if it % 10 == 0 and run_.impl_rows:
            # the class the generator otherwise avoids: a drawn (dataset, group) without any valid candidate
            j0 = max(range(len(c['dss'])), key=lambda j: sum(w for r, w in zip(run_.rows, run_.ref_wnorm) if r[0] == j))
            ce = dict(c, valid_ranges=[({'ang_err': (-2.0, -1.0)} if j == j0 else {}) for j in range(len(c['dss']))],
                      budget=1200, n=max(5, int(c['n'])), mode='int')
            ctx.case(key=('endless', ce))
            ctx.count('mc:no-valid-candidate-in-a-drawn-group')
            res = o_inject(ctx, ce)
            if res:
                _report(ctx, 'inject', ce, res)
        ctx.count('mc:deviates', len(run_.us))
        ctx.count('mc:candidates', len(run_.impl_rows))
        ctx.count('mc:invalid-candidates', int(np.sum(~run_.valid)))
        ctx.count('mc:events', run_.n_signal)
        if it % 3 == 0:
            c2 = dict(c, groups2=gen_mc_case(rng, small=True)['groups'])
            ctx.case(key=('change_shg', c2))
            ctx.count('change_shg')
            res = o_change_shg(ctx, c2)
            if res:
                _report(ctx, 'change_shg', c2, res)
        ls = run_.lines()
        mc_runs.append((c, run_, len(all_lines), len(ls)))
        all_lines += ls
    answers = ctx.driver('C18', all_lines)
    for (c, run_, off, k) in mc_runs:
        (d, amb, stream_only) = run_.compare(answers[off:off + k])
        _mc_branches(run_)
        if run_.kw_hist is not None and run_.kw_hist[1] is not None:
            BR['kwCall:early-return(mean 0)'] += sum(1 for m in run_.kw_hist[0] if m == 0)
            BR['kwCall:overwrite'] += sum(1 for m in run_.kw_hist[0] if m != 0)
        if d and amb:
            n_amb += 1
        elif d:
            suspicious.append(('mc', c, d, None, stream_only))
    ctx.extra['mc_numerically_ambiguous_skipped'] = n_amb
    # the cached candidate table as state: histories of change_shg_mgr / use on one object vs. the model's state machine
    if CACHE_HIST:
        answers_c = ctx.driver('C18', ['cache ' + ','.join(ops) for (ops, _, _) in CACHE_HIST])
        for (ops, seen_, cc), a_ in zip(CACHE_HIST, answers_c):
            ctx.count('change_shg:history-compared-with-model')
            if ','.join('%d:%d' % x for x in seen_) != a_:
                suspicious.append(('change_shg', cc, 'history %r: candidates in use per operation — implementation %r, model %s' % (
                    ops, seen_, a_), a_, False))
        del CACHE_HIST[:]
    # directed: a source batch size 0 is an error on both sides (ZeroDivisionError / model ERR)
    if mc_runs:
        (c0, run0, off0, k0) = mc_runs[0]
        cz = dict(c0, groups=[dict(G, batch=0) for G in c0['groups']])
        ctx.case(key=('batch0', cz))
        try:
            fx.make_mc_generator(run0.cfg, cz['groups'], run0.mcs, run0.lts)
            impl0 = 'ok'
        except Exception:  # noqa
            impl0 = 'ERR'
        ls0 = [(' '.join(t.split(' ')[:8] + ['0'] + t.split(' ')[9:]) if t.startswith('grp ') else t)
               for t in all_lines[off0:off0 + run0.i_table + 1]]
        mod0 = 'ERR' if ctx.driver('C18', ls0)[-1] == 'ERR' else 'ok'
        BR['batchedIdx:batch-size-0-error'] += 1
        if impl0 != mod0:
            suspicious.append(('mc', cz, 'source batch size 0: implementation %s, model %s' % (impl0, mod0), None, False))

    # ---------------- disagreements model / implementation: look for a failing input, else report the relation
    seen = set()
    oracle_of = {'dist': 'dist', 'mc': 'inject', 'reloc': 'reloc', 'band': 'band', 'change_shg': 'change_shg'}
    n_stream = 0
    for (k, c, d, m, stream_only) in suspicious:
        if (k, stream_only) in seen:
            continue
        seen.add((k, stream_only))
        name = oracle_of[k]
        res = ORACLES[name](ctx, c)
        if res:
            _report(ctx, name, c, res, model_output=m)
        elif stream_only:
            # The property asks for counts / validity / origin of the events, not for a particular way of consuming the
            # random numbers: with every output oracle silent, a different (equally seeded) use of the stream is a
            # diagnostic, not a violation.
            n_stream += 1
            ctx.note('diagnostic: model and implementation use the random numbers differently (%s); all property oracles '
                     'pass on this input' % d[:200])
        else:
            ctx.violation('corr', dict(c, kind=k), 'model and implementation disagree (%s) but no property oracle fails on this input' % d,
                          kind='correspondence', relation={'dist': 'error behaviour of the aggregation',
                                                           'mc': 'exact table, 1e-9 weights / mu2flux',
                                                           'reloc': 'angular distance <= 1e-9',
                                                           'band': '1e-12', 'change_shg': 'exact manager per operation'}[k],
                          model_output=m, signature='C18/corr/' + k, no_failing_input=True)
    ctx.extra['diagnostic_random_stream_disagreements'] = sum(1 for x in suspicious if x[4])
    ctx.extra['correspondence_disagreements'] = len(suspicious)
    for k, v in SKIPS.items():
        ctx.count(k, v)
    SKIPS.clear()
    ctx.extra['branch_hits'] = dict((b, int(BR[b])) for b in BRANCHES)
    ctx.extra['zero_hit_branches'] = [b for b in BRANCHES if BR[b] == 0]
    ctx.extra['error_branches_not_exercised'] = UNREACHABLE
    for b in BRANCHES:
        ctx.count('branch:' + b, int(BR[b]))
    BR.clear()


MANIFEST = dict(
    text=('Lean theorems about the executable model of the signal injection (66; round 7: the whole MultiDatasetSignalGenerator.generate_signal_events as one model function multiGenerate — entry with Poisson branch and int_cast, rounding and correction, aggregation — with c18_multi_generate_conserved / _no_error, the proved share bound c18_share_bound, and the stale-mask variant decrHoisted with its counterexample; whole pipeline: c18_full_pipeline — batched candidate table, normalisation, CDF, draw, relocation, validity of the relocated event, redraw, output buffers; object state: shared sig_kwargs dictionary, cached candidates across change_shg_mgr; position angle and separation kept as angles): per-dataset numbers add up to the total (any scalar type), '
          'are non-negative and zero for zero-weight datasets (with machine-checked counterexamples for the two repaired defects: negative '
          'count, events lost through zip with a short generator list); aggregation over the per-dataset generators conserves the count; '
          'weighted choice never returns an item of zero probability; end to end (c18_injected_from_band): generation fed with the table '
          'the model builds returns only valid events of existing datasets that lie in the closed band of their source and the closed energy '
          'range and whose source weight, live time and MC weight are non-zero; the code-shaped buffered generation equals the list model; '
          'reported number = number returned; validity mask = all fields inside their closed ranges; the band stays inside the coverage and '
          'contains the source; relocation keeps the true-to-reco separation as an angle (off the poles and exactly at a pole); mu2flux is '
          'linear (refN ≠ 0). The model is compared on every run with MultiDatasetSignalGenerator, MCMultiDatasetSignalGenerator, '
          'PointLikeSourceI3SignalGenerationMethod, rotate_signal_events_on_sphere and Analysis.generate_signal_events (int, float and Poisson '
          'totals) on synthetic set-ups; output oracles search the implementation for failing inputs.'),
    note=('Termination of the redraw loop is assumed (fuel in the model); the code loops forever when a drawn (dataset, group) has no valid '
          'candidate (open finding). Poisson sampler, flux-model values, detector signal yields and astropy itself are inputs / compared '
          'numerically; the per-source loop of the post-processing is modelled row by row; RA wrapping into [0, 2pi) and the Poisson sampler are not modelled. Theorems are over ordered fields / the reals, not '
          'IEEE doubles; position-angle preservation is checked by the oracle only. Agreement on the use of the random stream is diagnostic.'),
    design='DESIGN.md section 4 C18; design.d/C18.md',
    technique='Lean 4 proof (induction over deviate lists / event lists / buffers, real algebra and trigonometry) + model/implementation '
              'correspondence with recorded random deviates + output oracles')
