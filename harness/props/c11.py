"""C11 — minimisers return an in-bounds optimum consistent with the objective.

Correspondence (model = lean/SkyllhModel/Model/Minimizer.lean through Driver/C11.lean):
  * real `NR1dNsMinimizerImpl.minimize` on (a) the negated real `ZeroSigH0SingleDatasetTCLLHRatio` built from
    synthetic trial data and (b) synthetic objectives of every shape (convex, non-convex, flat, linear, slowly
    converging, oscillating, exact-threshold): every objective call of the implementation is recorded and the
    model is driven with the same (f, f', f'') triples; query points, x, fmin, warnflag, niter, last_nr_step are
    compared bit by bit (IEEE operations in the same order), then — if that fails — decisions exactly and values
    to 1e-9 (a behaviour-preserving rewrite stays silent);
  * real `NRNsScan2dMinimizerImpl.minimize` (numpy linspace, per-scan-value NR, strict best-of) the same way;
  * real `Minimizer.minimize` around a scripted `MinimizerImpl` (arbitrary sequences of outcomes: converged /
    repeatable / out of bounds; objectives returning f, (f, g) or (f, g, g2)) and around the real NR
    implementations through `LLHRatio.maximize` (negation of value and derivatives).
Every implementation additionally runs on 2/3-parameter box-constrained quadratics with the optimum on a bound of the first / middle /
last parameter (exact reference by active-set enumeration); the COBYLA constraint closures are compared with the model.
Histories: one Minimizer/implementation object minimises the same function object several times with new arguments (fresh-vs-used),
random get_f/get_grads sequences on the real FuncWithGradsFunctor vs the model.
Property oracles (implementation only): bounds, fmin == func(xmin), flag semantics, exception instead of a silent
non-converged result, stationary point within tolerance / active bound with outward slope against a bisection
reference, llh(x*) >= llh(x0); wrapper contract for L-BFGS-B, generic scipy methods and iminuit.
"""
import math
import warnings

import numpy as np

from harness import extract
from harness import llh_fixtures as fx
from harness import c11_r7_fixtures as r7
from harness.core import b2f, f2b, flist, parse_flist

MODEL_MODULES = ['SkyllhModel.Model.Minimizer', 'SkyllhModel.Model.MinimizerR7']

# which Python callables have an executable Lean counterpart that the theorems are about and that run(ctx) compares
# with the real callable on every run
MODEL_MAP = {
    'skyllh/core/minimizer.py::NR1dNsMinimizerImpl.minimize': ['Minimizer.nr', 'Minimizer.nrLoop', 'Minimizer.newtonStep', 'Minimizer.clipNs',
                                                               'Minimizer.keepGoing', 'Minimizer.outward', 'Minimizer.nrLayout'],
    'skyllh/core/minimizer.py::NR1dNsMinimizerImpl.has_converged': ['Minimizer.nrConverged', 'Minimizer.nrConvergedG', 'Minimizer.implConverged'],
    'skyllh/core/minimizer.py::NR1dNsMinimizerImpl.is_repeatable': ['Minimizer.implRepeatable'],
    'skyllh/core/minimizer.py::NRNsScan2dMinimizerImpl.minimize': ['Minimizer.scan', 'Minimizer.scanFold', 'Minimizer.linspace', 'Minimizer.scanCountFloatE'],
    'skyllh/core/minimizer.py::Minimizer.minimize': ['Minimizer.wrapper', 'Minimizer.wrapLoop', 'Minimizer.clipAll', 'Minimizer.anyOut', 'Minimizer.hasNaN',
                                                     'Minimizer.wrapperE', 'Minimizer.wrapLoopE', 'Minimizer.wrapperRet', 'Minimizer.reevalValue'],
    'skyllh/core/minimizer.py::ScipyMinimizerImpl.minimize': ['Minimizer.scipyBoundsMode', 'Minimizer.scipyBoundsModeG', 'Minimizer.cobylaConstraints'],
    'skyllh/core/minimizer.py::ScipyMinimizerImpl.has_converged': ['Minimizer.implConverged'],
    'skyllh/core/minimizer.py::ScipyMinimizerImpl.is_repeatable': ['Minimizer.implRepeatable'],
    'skyllh/core/minimizer.py::LBFGSMinimizerImpl.has_converged': ['Minimizer.lbfgsConverged', 'Minimizer.lbfgsConvergedG'],
    'skyllh/core/minimizer.py::LBFGSMinimizerImpl.is_repeatable': ['Minimizer.lbfgsRepeatable', 'Minimizer.lbfgsRepeatableG', 'Minimizer.contains'],
    'skyllh/core/minimizers/iminuit.py::IMinuitMinimizerImpl.has_converged': ['Minimizer.implConverged'],
    'skyllh/core/minimizers/iminuit.py::IMinuitMinimizerImpl.is_repeatable': ['Minimizer.implRepeatable'],
    'skyllh/core/minimizers/iminuit.py::FuncWithGradsFunctor.get_f': ['Minimizer.functorStep', 'Minimizer.functorRun'],
    'skyllh/core/minimizers/iminuit.py::FuncWithGradsFunctor.get_grads': ['Minimizer.functorStep', 'Minimizer.functorRun'],
    'skyllh/core/minimizers/crs.py::CRSMinimizerImpl.minimize': ['Minimizer.crsSuccess', 'Minimizer.crsSuccessG'],
    'skyllh/core/minimizers/crs.py::CRSMinimizerImpl.has_converged': ['Minimizer.implConverged'],
    'skyllh/core/minimizers/crs.py::CRSMinimizerImpl.is_repeatable': ['Minimizer.implRepeatable'],
    'skyllh/core/llhratio.py::LLHRatio.maximize': ['Minimizer.maximize', 'Minimizer.negFunc'],
    'skyllh/core/llhratio.py::TCLLHRatio.maximize': ['Minimizer.maximizePath', 'Minimizer.objectiveArity'],
    'skyllh/core/llhratio.py::TCLLHRatio.maximize_with_1d_newton_rapson_minimizer': ['Minimizer.negNrFunc', 'Minimizer.maximize'],
}

SRC = 'skyllh/core/minimizer.py'
RECORDED = dict(ns_tol=1e-3, slope_thr=1e-1, fp_init=1000.0, max_steps=100, max_reps=100)


# --------------------------------------------------------------------------------------------------
# translator part: literal constants of the current source

def _nr_loop_literals():
    """(slope threshold in the while condition, initial fprime) of NR1dNsMinimizerImpl.minimize"""
    import ast
    cls = extract.find_class(extract.parse(SRC), 'NR1dNsMinimizerImpl')
    fn = extract.find_func(cls, 'minimize')
    thr = fp0 = None
    for node in ast.walk(fn):
        if isinstance(node, ast.While) and thr is None:
            for c in ast.walk(node.test):
                if isinstance(c, ast.Compare) and len(c.comparators) == 1:
                    sides = [c.left, c.comparators[0]]
                    calls = [s for s in sides if isinstance(s, ast.Call) and any(
                        isinstance(a, ast.Name) and a.id == 'fprime' for a in s.args)]
                    lits = [s for s in sides if not isinstance(s, ast.Call)]
                    if calls and lits:
                        try:
                            thr = float(extract.literal(lits[0]))
                        except Exception:  # noqa
                            pass
        if isinstance(node, ast.Assign) and fp0 is None:
            for t in node.targets:
                if isinstance(t, ast.Name) and t.id == 'fprime':
                    try:
                        fp0 = float(extract.literal(node.value))
                    except Exception:  # noqa
                        pass
    if thr is None:
        raise LookupError('slope threshold of the NR loop condition not found')
    if fp0 is None:
        raise LookupError('initial fprime of the NR loop not found')
    return thr, fp0


_CONST = None


def constants(ctx=None):
    global _CONST
    if _CONST is not None and ctx is None:
        return _CONST
    c, fallbacks = dict(RECORDED), []

    def tryset(key, fn):
        try:
            c[key] = fn()
        except Exception as e:  # noqa
            fallbacks.append('%s: %s' % (key, e))
    tryset('ns_tol', lambda: float(extract.arg_default(SRC, 'NR1dNsMinimizerImpl', '__init__', 'ns_tol')))
    tryset('max_steps', lambda: int(extract.arg_default(SRC, 'NR1dNsMinimizerImpl', '__init__', 'max_steps')))
    tryset('max_reps', lambda: int(extract.arg_default(SRC, 'Minimizer', '__init__', 'max_repetitions')))
    try:
        c['slope_thr'], c['fp_init'] = _nr_loop_literals()
    except Exception as e:  # noqa
        fallbacks.append('nr loop literals: %s' % e)
    if ctx is not None:
        for f in fallbacks:
            ctx.note('constant extraction failed, using the recorded value (%s)' % f)
            ctx.proof['generated_fallbacks'].append(f)
    _CONST = c
    return c


def generated(ctx):
    c = constants(ctx)
    return ('/- generated by harness/props/c11.py from skyllh/core/minimizer.py; do not edit -/\n'
            'namespace Gen.C11\n'
            '/-- default of `NR1dNsMinimizerImpl(ns_tol=...)` -/\n'
            'def nsTol {F : Type} [OfScientific F] : F := %s\n'
            '/-- literal in the loop condition `np.fabs(fprime) > ...` of `NR1dNsMinimizerImpl.minimize` -/\n'
            'def slopeThr {F : Type} [OfScientific F] : F := %s\n'
            '/-- literal `fprime = ...` before the loop of `NR1dNsMinimizerImpl.minimize` -/\n'
            'def fpInit {F : Type} [OfScientific F] : F := %s\n'
            '/-- default of `NR1dNsMinimizerImpl(max_steps=...)` -/\n'
            'def maxSteps : Nat := %d\n'
            '/-- default of `Minimizer(max_repetitions=...)` -/\n'
            'def maxRepetitions : Nat := %d\n'
            '%s'
            'end Gen.C11\n') % (extract.lean_float(c['ns_tol']), extract.lean_float(c['slope_thr']),
                                extract.lean_float(c['fp_init']), c['max_steps'], c['max_reps'], r7.generated_r7(ctx))


# --------------------------------------------------------------------------------------------------
# objectives
#
# a case:  {'kind': 'nr'|'scan'|'wrap'|'ext',
#           'obj': objective spec, 'ns0', 'lo', 'hi', 'tol', 'max_steps',            (nr, scan, ext)
#           'p2lo', 'p2hi', 'p2step', 'p20'                                           (scan)
#           'impl': name of the external implementation                              (ext) ... }
# objective spec: {'shape': 'llh', 'R': [...], 'N': int, 'c': [...] (scan: R_i(gamma) = R_i exp(c_i (gamma-2)))}
#                 {'shape': 'quad'|'quartic'|'sqrt'|'cos'|'linear'|'flat'|'explicit'|'quad2'|'flat2', 'p': [...]}

F64 = np.float64


def syn_eval(spec, x, p2=None):
    """(f, f', f'') as numpy float64 of a synthetic objective at ns = x (and second parameter p2)."""
    sh, p = spec['shape'], spec.get('p', [])
    x = F64(x)
    with np.errstate(all='ignore'):
        if sh == 'explicit':
            for (q, f, fp, fpp) in spec['points']:
                if F64(q) == x:
                    return F64(f), F64(fp), F64(fpp)
            sh, p = 'quad', spec['p']
        if sh == 'quad':
            a, m, b = (F64(v) for v in p)
            d = x - m
            return a * d * d + b, 2 * a * d, 2 * a
        if sh == 'quartic':
            a, m = (F64(v) for v in p)
            d = x - m
            return a * d ** 4, 4 * a * d ** 3, 12 * a * d * d
        if sh == 'sqrt':
            (m,) = (F64(v) for v in p)
            d = x - m
            s = np.sqrt(1 + d * d)
            return s, d / s, 1 / (s * s * s)
        if sh == 'cos':
            a, w = (F64(v) for v in p)
            return a * np.cos(w * x), -a * w * np.sin(w * x), -a * w * w * np.cos(w * x)
        if sh == 'linear':
            a, b = (F64(v) for v in p)
            return a * x + b, a, F64(0.0)
        if sh == 'flat':
            (b,) = (F64(v) for v in p)
            return b, F64(0.0), F64(0.0)
        if sh == 'quad2':
            a, m0, m1, c, w = (F64(v) for v in p)
            p2 = F64(p2)
            d = x - (m0 + m1 * p2)
            return a * d * d + w * (p2 - c) * (p2 - c), 2 * a * d, 2 * a
        if sh == 'flat2':
            a, m = (F64(v) for v in p)
            d = x - m
            return a * d * d, 2 * a * d, 2 * a
    raise ValueError(sh)


def is_convex(spec):
    sh, p = spec['shape'], spec.get('p', [])
    if sh == 'llh':
        return True
    if sh in ('quad', 'quad2', 'flat2'):
        return p[0] > 0
    if sh in ('sqrt',):
        return True
    return False


_CFG = None


def cfg():
    global _CFG
    if _CFG is None:
        _CFG = fx.make_cfg()
    return _CFG


def layout(case):
    """(order of the floating parameters, index of ns, index of the scanned / second parameter or None).
    names: 'ns', 'p2' (gamma: the llh ratios depend on it when obj['c'] is given), 'd' (an inert parameter)."""
    order = case.get('order')
    if not order:
        two = case['kind'] == 'scan' or (case['kind'] == 'ext' and case['obj'].get('c') is not None)
        order = ['ns', 'p2'] if two else ['ns']
    return order, order.index('ns'), (order.index('p2') if 'p2' in order else None)


def init_bounds(case):
    order = layout(case)[0]
    vals = {'ns': (case['ns0'], case['lo'], case['hi']),
            'p2': (case.get('p20'), case.get('p2lo'), case.get('p2hi')), 'd': (0.5, 0.0, 1.0)}
    return ([float(vals[n][0]) for n in order], [[float(vals[n][1]), float(vals[n][2])] for n in order])


def with_ns(case, x, v, p2=None):
    """copy of the parameter vector x with ns (and p2) replaced"""
    (_, i, j) = layout(case)
    y = np.array(x, dtype=np.float64)
    y[i] = v
    if p2 is not None and j is not None:
        y[j] = p2
    return y


def build_llh(case, impl):
    """real single-dataset llh-ratio with prescribed per-event ratios; floating parameters in the order of the
    case's layout (ns mapped to the detector model, gamma / delta to the source)."""
    from skyllh.core.minimizer import Minimizer
    from skyllh.core.model import DetectorModel
    from skyllh.core.parameters import Parameter, ParameterModelMapper
    o = case['obj']
    R = np.array(o['R'], dtype=np.float64)
    E = len(R)
    srcs = fx.make_sources(1)
    shg = fx.make_shg_mgr(cfg(), srcs)
    (order, _, _) = layout(case)
    (init, bounds) = init_bounds(case)
    det = DetectorModel('det')
    pmm = ParameterModelMapper(models=[det] + list(srcs))
    names = {'ns': 'ns', 'p2': 'gamma', 'd': 'delta'}
    for n, v, b in zip(order, init, bounds):
        pmm.map_param(Parameter(names[n], v, b[0], b[1]), models=det if n == 'ns' else list(srcs))
    tdm = fx.make_tdm(shg, pmm, E, n_events=int(o['N']))
    if 'p2' in order:
        cvec = np.array(o['c'] if o.get('c') is not None else [0.0] * E, dtype=np.float64)

        def Rf(par):
            return (R * np.exp(cvec * (par['gamma'][0] - 2.0)))[None, :]

        def dRf(par):
            return (cvec * R * np.exp(cvec * (par['gamma'][0] - 2.0)))[None, :]
        pr = fx.StubPDFRatio(cfg(), Rf, dR={'gamma': dRf})
    else:
        pr = fx.StubPDFRatio(cfg(), R[None, :])
    llh = fx.make_single_llhratio(cfg(), pmm, shg, tdm, pr, minimizer=Minimizer(impl, max_repetitions=case.get('max_reps', 100)))
    llh.initialize_for_new_trial()
    got = [q.name for q in pmm.global_paramset.floating_params]
    if got != [names[n] for n in order]:
        from harness.core import MachineryError
        raise MachineryError('C11 fixture: floating parameters %r, wanted %r' % (got, [names[n] for n in order]))
    return llh


def llh_triple(llh, x, idx=0):
    """what TCLLHRatio.maximize_with_1d_newton_rapson_minimizer hands to the NR minimiser (re-stated here):
    value, first and second derivative w.r.t. the ns parameter (index idx) of the negated llh ratio"""
    x = np.asarray(x, dtype=np.float64)
    (f, grads) = llh.evaluate(x)
    g2 = llh.calculate_ns_grad2(ns=x[idx], ns_pidx=idx, src_params_recarray=None)
    return (-f, -grads[idx], -g2)


class Objective(object):
    """objective of a case with call recording; returns (f, f', f'') — `ret` elements of it."""

    def __init__(self, case, llh=None, ret=3):
        self.case, self.spec, self.llh, self.ret = case, case['obj'], llh, ret
        self.calls = []       # (x array, (f, fp, fpp))

    def triple(self, x):
        (_, i, j) = layout(self.case)
        if self.spec['shape'] == 'llh':
            return llh_triple(self.llh, x, i)
        return syn_eval(self.spec, x[i], x[j] if j is not None else None)

    def __call__(self, x, *args):
        x = np.array(x, dtype=np.float64)
        t = self.triple(x)
        self.calls.append((x, t))
        if self.ret == 3:
            return t
        if self.ret == 2:
            g = np.zeros(len(x))
            g[layout(self.case)[1]] = t[1]
            return (t[0], g)
        return t[0]


def _snapshot(a):
    """content + form of an argument (to see whether a call changed it)"""
    if isinstance(a, np.ndarray):
        return ('nd', str(a.dtype), a.shape, a.tobytes())
    return (type(a).__name__, repr([list(v) if isinstance(v, (list, tuple, np.ndarray)) else v for v in a]))


def arg_forms(case, init, bounds):
    """the initials / bounds of a direct implementation call in the argument form of the case:
    forms['init'] in f64 | list | tuple | int | f32 | strided, forms['bounds'] in f64 | list | tuples | forder | strided
    (int / f32 are only generated with values that are exact in that type)"""
    fm = case.get('forms') or {}
    fi, fb = fm.get('init', 'f64'), fm.get('bounds', 'f64')
    a = np.array(init, dtype=np.float64)
    # a form must never change a value: int / f32 only when every initial value is exact in that type
    # (generators that edit ns0 after the form was chosen would otherwise hand different numbers to code and model)
    if (fi == 'int' and not np.array_equal(a.astype(np.int64).astype(np.float64), a)) or \
       (fi == 'f32' and not np.array_equal(a.astype(np.float32).astype(np.float64), a)):
        fi = 'list'
    if fi == 'list':
        i2 = [float(v) for v in a]
    elif fi == 'tuple':
        i2 = tuple(float(v) for v in a)
    elif fi == 'int':
        i2 = a.astype(np.int64)
    elif fi == 'f32':
        i2 = a.astype(np.float32)
    elif fi == 'strided':
        i2 = np.repeat(a, 2)[::2]
    else:
        i2 = a
    b = np.array(bounds, dtype=np.float64)
    if fb == 'list':
        b2 = [[float(u), float(v)] for (u, v) in b]
    elif fb == 'tuples':
        b2 = [(float(u), float(v)) for (u, v) in b]
    elif fb == 'forder':
        b2 = np.asfortranarray(b)
    elif fb == 'strided':
        b2 = np.repeat(b, 2, axis=1)[:, ::2]
    else:
        b2 = b
    return i2, b2


def gen_forms(rng, cs):
    """choose an argument form for a direct NR / scan call; makes the initial values exact for int / f32"""
    fi = rng.choice(['f64', 'f64', 'list', 'tuple', 'int', 'f32', 'strided'])
    if fi in ('int', 'f32'):
        def snap(v, lo, hi):
            w = float(np.float32(v)) if fi == 'f32' else float(round(v))
            return w if lo <= w <= hi else None
        ns0 = snap(cs['ns0'], cs['lo'], cs['hi'])
        p20 = snap(cs['p20'], cs['p2lo'], cs['p2hi']) if 'p20' in cs else 0.0
        if ns0 is None or p20 is None or 'd' in (cs.get('order') or []):
            fi = 'list'
        else:
            cs['ns0'] = ns0
            if 'p20' in cs:
                cs['p20'] = p20
    cs['forms'] = {'init': fi, 'bounds': rng.choice(['f64', 'f64', 'list', 'tuples', 'forder', 'strided']),
                   'args': rng.choice(['none', 'tuple', 'list'])}
    return cs


def nr_impl(case, scan=False):
    from skyllh.core.minimizer import NR1dNsMinimizerImpl, NRNsScan2dMinimizerImpl
    if scan:
        return NRNsScan2dMinimizerImpl(p2_scan_step=case['p2step'], ns_tol=case['tol'], max_steps=case['max_steps'], cfg=cfg())
    return NR1dNsMinimizerImpl(ns_tol=case['tol'], max_steps=case['max_steps'], cfg=cfg())


def run_nr_direct(case):
    """-> (result dict, Objective)   result: {'err': name} | {'x','f','flag','niter','step','status'}"""
    scan = case['kind'] == 'scan'
    impl = nr_impl(case, scan)
    llh = build_llh(case, impl) if case['obj']['shape'] == 'llh' else None
    obj = Objective(case, llh)
    (init, bounds) = init_bounds(case)
    (init, bounds) = arg_forms(case, init, bounds)
    snap = (_snapshot(init), _snapshot(bounds))
    idx = layout(case)[1]
    kw = {'ns_pidx': idx} if idx != 0 else {}
    fa = {'none': None, 'tuple': (), 'list': []}[(case.get('forms') or {}).get('args', 'none')]
    with warnings.catch_warnings():
        warnings.simplefilter('ignore')
        try:
            (x, f, st) = impl.minimize(init, bounds, obj, fa, **kw) if fa is not None else impl.minimize(init, bounds, obj, **kw)
        except Exception as e:  # noqa
            return {'err': type(e).__name__, 'msg': str(e)[:200]}, obj
    res = {'x': [float(v) for v in x], 'f': float(f), 'flag': int(st['warnflag']), 'niter': int(st['niter']),
           'step': float(st['last_nr_step']), 'nsteps': int(st.get('p2_n_steps', 0)), 'status': st,
           'converged': bool(impl.has_converged(st))}
    # glue: the arrays / sequences handed in are unchanged, what is handed out is not a view of them
    res['mutated'] = [n for n, a, sn in (('initials', init, snap[0]), ('bounds', bounds, snap[1])) if _snapshot(a) != sn]
    res['aliased'] = [n for n, a in (('initials', init), ('bounds', bounds))
                      if isinstance(a, np.ndarray) and isinstance(x, np.ndarray) and np.shares_memory(x, a)]
    res['xtype'] = '%s:%s' % (type(x).__name__, getattr(x, 'dtype', None))
    return res, obj


# --------------------------------------------------------------------------------------------------
# model requests

def _rec(*xs):
    return ':'.join(xs)


def nr_request(case, obj):
    c = constants()
    head = [f2b(case['tol']), f2b(c['slope_thr']), f2b(c['fp_init']), str(int(case['max_steps'])),
            f2b(case['lo']), f2b(case['hi']), f2b(case['ns0'])]
    (_, ii, jj) = layout(case)
    if case['kind'] == 'scan':
        seen, recs = set(), []
        for (x, t) in obj.calls:
            k = (f2b(x[jj]), f2b(x[ii]))
            if k not in seen:
                seen.add(k)
                recs.append(_rec(k[0], k[1], f2b(t[0]), f2b(t[1]), f2b(t[2])))
        return ' '.join(['scan'] + head + [f2b(case['p2lo']), f2b(case['p2hi']), f2b(case['p2step']),
                                           ';'.join(recs) if recs else '-'])
    seen, recs = set(), []
    for (x, t) in obj.calls:
        k = f2b(x[ii])
        if k not in seen:
            seen.add(k)
            recs.append(_rec(k, f2b(t[0]), f2b(t[1]), f2b(t[2])))
    return ' '.join(['nr'] + head + [';'.join(recs) if recs else '-'])


def _same(a, b):
    return a == b or (a != a and b != b)


def _close(a, b):
    if _same(a, b):
        return True
    if math.isinf(a) or math.isinf(b) or a != a or b != b:
        return False
    return abs(a - b) <= 1e-9 * (1.0 + abs(a) + abs(b))


def nr_compare(case, res, obj, ans):
    """-> (None | text of a bit-level difference, None | text of a property-level difference)"""
    tk = ans.split(' ')
    if 'err' in res:
        if tk[0] == 'err':      # where an exception leaves the call matters, not its incidental class
            return None, None
        d = 'implementation raised %s (%s), model answers %s' % (res['err'], res.get('msg'), ans[:80])
        return d, d
    if tk[0] != 'ok':
        d = 'implementation returned x=%r flag=%d, model raises %s' % (res['x'], res['flag'], ans)
        return d, d
    scan = case['kind'] == 'scan'
    (_, ii, jj) = layout(case)
    if scan:
        (_, p2, x, f, flag, niter, nsteps, step, p2s, qs) = tk
        m = {'x': [b2f(x), b2f(p2)], 'f': b2f(f), 'flag': int(flag), 'niter': int(niter), 'step': b2f(step),
             'nsteps': int(nsteps), 'q': parse_flist(qs)}
        iq = [v for (xx, _) in obj.calls for v in (float(xx[jj]), float(xx[ii]))]
        ix = [res['x'][ii], res['x'][jj]]
    else:
        (_, x, f, flag, niter, step, atb, qs) = tk
        m = {'x': [b2f(x)], 'f': b2f(f), 'flag': int(flag), 'niter': int(niter), 'step': b2f(step), 'nsteps': 0,
             'q': parse_flist(qs)}
        iq = [float(xx[ii]) for (xx, _) in obj.calls]
        ix = [res['x'][ii]]
    dec = []      # decisions: compared exactly in both relations
    for k in ('flag', 'niter', 'nsteps'):
        if res[k] != m[k]:
            dec.append('%s: implementation %r, model %r' % (k, res[k], m[k]))
    bit, tol = list(dec), list(dec)
    if len(iq) != len(m['q']):
        # the number of objective calls is cost, not part of the property: diagnostic only
        bit.append('number of objective calls: implementation %d, model %d' % (len(iq), len(m['q'])))
    pairs = [('ns' if i == 0 else 'p2', a, b) for i, (a, b) in enumerate(zip(ix, m['x']))]
    pairs += [('fmin', res['f'], m['f']), ('last_nr_step', res['step'], m['step'])]
    if len(iq) == len(m['q']):
        pairs += [('query %d' % i, a, b) for i, (a, b) in enumerate(zip(iq, m['q']))]
    for (name, a, b) in pairs:
        if not _same(a, b):
            bit.append('%s: implementation %r, model %r' % (name, a, b))
            if not _close(a, b):
                tol.append('%s: implementation %r, model %r' % (name, a, b))
    return ('; '.join(bit[:4]) or None), ('; '.join(tol[:4]) or None)


# --------------------------------------------------------------------------------------------------
# property oracles (implementation only)

def _bisect_opt(fp, lo, hi):
    """argmin over [lo, hi] of a convex function with derivative fp (monotone non-decreasing)."""
    a, b = lo, hi
    fa, fb = fp(a), fp(b)
    if not (fa < 0):
        return lo
    if not (fb > 0):
        return hi
    for _ in range(200):
        m = 0.5 * (a + b)
        if m == a or m == b:
            break
        if fp(m) < 0:
            a = m
        else:
            b = m
    return 0.5 * (a + b)


def o_nr_contract(ctx, case):
    """NR-1D / NR+scan called directly: bounds, consistency, flag semantics, optimality for convex objectives;
    only ns (and the scanned parameter) may differ from the initial values."""
    res, obj = run_nr_direct(case)
    lo, hi, tol, ms = case['lo'], case['hi'], case['tol'], case['max_steps']
    (order, ii, jj) = layout(case)
    (init, bounds) = init_bounds(case)
    tag = 'NRNsScan2dMinimizerImpl' if case['kind'] == 'scan' else 'NR1dNsMinimizerImpl'
    if len(order) > 1:
        tag += '[parameters %s]' % ','.join(order)
    if 'err' in res:
        if res['err'] == 'ValueError' and case['ns0'] < lo:
            return None
        if case['kind'] == 'scan':
            with np.errstate(all='ignore'):
                q = (F64(case['p2hi']) - F64(case['p2lo'])) / F64(case['p2step'])
            if not np.isfinite(q) or int(q) + 1 <= 0:
                return None          # no scan grid (zero / negative step, reversed bounds): any exception is a loud failure
        return '%s.minimize raised %s: %s (objective %s, ns0=%r, bounds [%r, %r])' % (
            tag, res['err'], res.get('msg'), case['obj']['shape'], case['ns0'], lo, hi)
    if case['ns0'] < lo:
        return '%s.minimize accepted the initial value %r below ns_min=%r' % (tag, case['ns0'], lo)
    x, f, flag, niter, step = res['x'], res['f'], res['flag'], res['niter'], res['step']
    ns = x[ii]
    forms = case.get('forms') or {}
    if res.get('mutated'):
        return '%s.minimize changed the %s handed in by the caller (argument forms %r): after the call %r' % (
            tag, ' and '.join(res['mutated']), forms, arg_forms(case, init, bounds)[0 if 'initials' in res['mutated'] else 1].__class__.__name__)
    if res.get('aliased'):
        return '%s.minimize returns an xmin that shares memory with the %s handed in (argument forms %r)' % (tag, ' and '.join(res['aliased']), forms)
    if res.get('xtype') and res['xtype'] != 'ndarray:float64':
        return '%s.minimize returns xmin as %s for argument forms %r, not a float64 ndarray' % (tag, res['xtype'], forms)
    for k, name in enumerate(order):
        if k != ii and not (k == jj and case['kind'] == 'scan') and not _same(x[k], init[k]):
            return '%s: parameter %d (%s), which this minimiser must not vary, moved from %r to %r (ns = parameter %d stayed at %r)' % (
                tag, k, name, init[k], x[k], ii, ns)
    if case['ns0'] <= hi:
        if not (lo <= ns <= hi):
            return '%s: reported ns=%r outside the bounds [%r, %r] (flag %d, objective %s, ns0=%r)' % (
                tag, ns, lo, hi, flag, case['obj']['shape'], case['ns0'])
        for (xx, _) in obj.calls:
            if not (lo <= xx[ii] <= hi):
                return '%s: objective evaluated at ns=%r outside the bounds [%r, %r]' % (tag, float(xx[ii]), lo, hi)
    if case['kind'] == 'scan' and not (case['p2lo'] <= x[jj] <= case['p2hi']):
        return '%s: reported second parameter %r outside its bounds' % (tag, x[jj])
    ref = Objective(case, obj.llh)
    t = ref.triple(np.array(x))
    if not _same(float(t[0]), f):
        return '%s: reported fmin=%r but func(xmin=%r)=%r (flag %d)' % (tag, f, x, float(t[0]), flag)
    if flag not in (-2, -1, 0, 1):
        return '%s: unknown warnflag %r' % (tag, flag)
    if case['kind'] == 'nr':
        if (flag == 1) != (niter >= ms):
            return '%s: warnflag=%d with niter=%d, max_steps=%d%s' % (
                tag, flag, niter, ms, ' (a result without any Newton step reported as converged)' if ms < 0 else '')
        if niter > max(ms, 0):
            return '%s: %d steps taken with max_steps=%d' % (tag, niter, ms)
    if flag == -2 and lo < hi and not (ns == lo and step < 0):
        return '%s: warnflag -2 but ns=%r (ns_min=%r), last step %r' % (tag, ns, lo, step)
    if flag == -1 and lo < hi and not (ns == hi and step > 0):
        return '%s: warnflag -1 but ns=%r (ns_max=%r), last step %r' % (tag, ns, hi, step)
    if flag == 0 and not (abs(step) <= tol):
        return '%s: warnflag 0 (converged) but the last step %r exceeds ns_tol=%r' % (tag, step, tol)
    if res['converged'] != (flag <= 0):
        return '%s.has_converged=%s for warnflag %d' % (tag, res['converged'], flag)
    # ---- optimality in the ns coordinate for convex objectives (the negative of a concave log-likelihood)
    if is_convex(case['obj']) and flag <= 0 and lo < hi and case['ns0'] <= hi:
        def trip(v):
            return ref.triple(with_ns(case, x, v))
        xt = _bisect_opt(lambda v: float(trip(v)[1]), lo, hi)
        fpp = abs(float(t[2]))
        if flag == 0:
            # stationary point within the configured tolerance (Newton's error after a step <= tol is far below
            # tol; 2*tol leaves room for large third derivatives) -- or, on a flat stretch, an equally good value
            ft = float(trip(xt)[0])
            if abs(ns - xt) > 2 * tol + 1e-9 * (1 + abs(xt)) and f > ft + 1e-12 * (1 + abs(ft)):
                return '%s: converged (flag 0) at ns=%r but the stationary point of the convex objective is %r (ns_tol=%r)' % (
                    tag, ns, xt, tol)
        else:
            bound = lo if flag == -2 else hi
            if abs(xt - bound) > 1e-9 * (1 + abs(bound)):
                return '%s: warnflag %d (forced to bound %r) but the optimum of the convex objective is %r' % (tag, flag, bound, xt)
            sl = float(t[1])
            if (flag == -2 and sl < 0) or (flag == -1 and sl > 0):
                return '%s: warnflag %d but the slope %r at the bound points inward' % (tag, flag, sl)
        # never worse than the initial ns (at the reported value of the other parameters)
        f0 = float(trip(case['ns0'])[0])
        slack = (abs(float(t[1])) + fpp * tol) * 2 * tol + 1e-9 * (1 + abs(f) + abs(f0))
        if f > f0 + slack:
            return '%s: objective at the reported optimum %r = %r is above its value %r at the initial point %r' % (
                tag, ns, f, f0, case['ns0'])
    if case['kind'] == 'scan':
        r = _scan_brute_force(ctx, case, res, obj, tag)
        if r:
            return r
    return None


def _ulp_shift(v, k):
    v = F64(v)
    for _ in range(abs(k)):
        v = np.nextafter(v, F64(np.inf) if k > 0 else F64(-np.inf))
    return float(v)


def _scan_brute_force(ctx, case, res, obj, tag):
    """NR+scan against a brute force over the scan grid.  Verdict relation (the property speaks of a grid of the second
    parameter within its bounds and of the best NR result, not of the last bits of interior grid values):
      * the reported p2 lies in [p2lo, p2hi] and within a few ulp (of the bound magnitudes / the range) of a member k* of the
        ideal grid lo + k (hi - lo) / (n - 1);
      * (ns, fmin) equal the NR-1D result *at the reported p2* (1e-9; bit equality is only counted);
      * no other grid member is better by more than the conditioning of its NR result under a few ulp of p2; a *robust* exact
        tie (the NR minimum does not move at all under that perturbation) must be resolved in favour of the first member;
      * p2_n_steps exact, summed niter within what those perturbations explain."""
    from skyllh.core.minimizer import NR1dNsMinimizerImpl
    lo, hi, tol, ms = case['lo'], case['hi'], case['tol'], case['max_steps']
    (order, ii, jj) = layout(case)
    (init, bounds) = init_bounds(case)
    x, f, niter = res['x'], res['f'], res['niter']
    ns = x[ii]
    p2lo, p2hi = float(case['p2lo']), float(case['p2hi'])
    n = int((p2hi - p2lo) / case['p2step']) + 1
    ideal = np.linspace(p2lo, p2hi, n)
    kw = {'ns_pidx': ii} if ii != 0 else {}

    def nr_at(p2):
        with warnings.catch_warnings():
            warnings.simplefilter('ignore')
            (xx, ff, st) = NR1dNsMinimizerImpl(ns_tol=tol, max_steps=ms, cfg=cfg()).minimize(
                with_ns(case, init, case['ns0'], p2), np.array(bounds), Objective(case, obj.llh), **kw)
        return (float(xx[ii]), float(ff), int(st['niter']))
    p2r = float(x[jj])
    if not (p2lo <= p2r <= p2hi):
        return '%s: the reported value %r of the scanned parameter lies outside its bounds [%r, %r]' % (tag, p2r, p2lo, p2hi)
    ks = int(np.argmin(np.abs(ideal - p2r)))
    grid_tol = 8 * np.finfo(np.float64).eps * max(abs(p2lo), abs(p2hi), p2hi - p2lo) + 1e-300
    if abs(float(ideal[ks]) - p2r) > grid_tol:
        return ('%s: the reported value %r of the scanned parameter is no member of the scan grid of %d equidistant values over [%r, %r] '
                '(nearest member %r)') % (tag, p2r, n, p2lo, p2hi, float(ideal[ks]))
    ctx.count('scan:p2-bit-equal-to-linspace' if _same(float(ideal[ks]), p2r) else 'scan:p2-within-ulps-of-linspace')
    ref = [nr_at(p2r) if k == ks else nr_at(float(ideal[k])) for k in range(n)]
    (rns, rf, _) = ref[ks]
    if not (_close(rf, f) and _close(rns, ns)):
        return '%s: reported (ns, p2, fmin) = (%r, %r, %r), the NR-1D result at that value of the scanned parameter is (%r, %r)' % (
            tag, ns, p2r, f, rns, rf)
    if not (_same(rf, f) and _same(rns, ns)):
        ctx.count('scan:result-differs-in-last-bits')
    pert = {}

    def sens(k):
        """how much the NR minimum at grid member k moves under +-4 ulp of p2 (and the niter values seen there)"""
        if k not in pert:
            c0 = p2r if k == ks else float(ideal[k])
            around = [nr_at(min(max(_ulp_shift(c0, d), p2lo), p2hi)) for d in (-4, 4)]
            d = max(abs(a[1] - ref[k][1]) for a in around)
            its = [a[2] for a in around] + [ref[k][2]]
            if len(set(its)) > 1:        # the Newton iteration stops one step earlier / later next to this point
                t3 = Objective(case, obj.llh).triple(np.array(with_ns(case, init, ref[k][0], c0), dtype=np.float64))
                d += (abs(float(t3[1])) + abs(float(t3[2])) * tol) * 2 * tol
            pert[k] = (d, min(its), max(its))
        return pert[k]
    for k in range(n):
        if k == ks:
            continue
        fk = ref[k][1]
        if fk > f or (k > ks and fk == f):
            continue                      # clearly worse, or an exact tie at a later member
        slack = 4 * (sens(k)[0] + sens(ks)[0])
        if slack > 0:
            slack += 1e-13 * (1 + abs(f))
        if fk < f - slack or (k < ks and slack == 0 and fk == f):
            return '%s: reported (ns, p2, fmin) = (%r, %r, %r), the first best NR result over the %d scan values is (%r, %r, %r)' % (
                tag, ns, p2r, f, n, ref[k][0], float(ideal[k]), fk)
        ctx.count('scan:tie-within-conditioning')
    tot = sum(r_[2] for r_ in ref)
    if res['nsteps'] != n:
        return '%s: status p2_n_steps=%d niter=%d, expected %d and %d' % (tag, res['nsteps'], niter, n, tot)
    if niter != tot:
        (tmin, tmax) = (sum(sens(k)[1] for k in range(n)), sum(sens(k)[2] for k in range(n)))
        if not (tmin <= niter <= tmax):
            return '%s: status p2_n_steps=%d niter=%d, expected %d and %d' % (tag, res['nsteps'], niter, n, tot)
        ctx.count('scan:niter-within-conditioning')
    return None


def _scan_points(case, llh):
    """NR result at every scan value (reference loop with the real NR-1D implementation)"""
    from skyllh.core.minimizer import NR1dNsMinimizerImpl
    (_, ii, jj) = layout(case)
    (init, bounds) = init_bounds(case)
    p2s = np.linspace(case['p2lo'], case['p2hi'], int((case['p2hi'] - case['p2lo']) / case['p2step']) + 1)
    out = []
    for p2 in p2s:
        with warnings.catch_warnings():
            warnings.simplefilter('ignore')
            (xx, ff, st) = NR1dNsMinimizerImpl(ns_tol=case['tol'], max_steps=case['max_steps'], cfg=cfg()).minimize(
                with_ns(case, init, case['ns0'], p2), np.array(bounds), Objective(case, llh), **({'ns_pidx': ii} if ii else {}))
        out.append((float(p2), float(ff), int(st['warnflag'])))
    return out


def o_scan_ge_initial(ctx, case):
    """NR+scan, convex objective: the reported minimum is not above the objective at the caller's initial point
    (ns0, p20) — "the maximised likelihood is never below its value at the initial point"."""
    res, obj = run_nr_direct(case)
    if 'err' in res or res['flag'] > 0 or not is_convex(case['obj']) or not (case['lo'] <= case['ns0'] <= case['hi']):
        return None
    (init, _) = init_bounds(case)
    f0 = float(Objective(case, obj.llh).triple(np.array(init))[0])
    tol = case['tol']
    t = Objective(case, obj.llh).triple(np.array(res['x']))
    slack = (abs(float(t[1])) + abs(float(t[2])) * tol) * 2 * tol + 1e-9 * (1 + abs(res['f']) + abs(f0))
    if res['f'] > f0 + slack:
        return ('NRNsScan2dMinimizerImpl: reported minimum %r at %r is above the objective %r at the initial point %r '
                '(the scan ignores the initial value of the second parameter; scan values %s..%s step %r)') % (
                    res['f'], res['x'], f0, init, case['p2lo'], case['p2hi'], case['p2step'])
    return None


def o_scan_all_converged(ctx, case):
    """NR+scan: a result is returned as converged although the NR minimisation at another scan value hit max_steps."""
    res, obj = run_nr_direct(case)
    if 'err' in res or res['flag'] > 0:
        return None
    bad = [(p2, fl) for (p2, ff, fl) in _scan_points(case, obj.llh) if fl == 1]
    if bad:
        return ('NRNsScan2dMinimizerImpl: reports warnflag %d (converged) at %r although the Newton-Raphson minimisation did not '
                'converge within max_steps=%d at %d scan value(s), e.g. p2=%r; those scan points are dropped silently') % (
                    res['flag'], res['x'], case['max_steps'], len(bad), bad[0][0])
    return None


def o_corr_nr(ctx, case):
    """model vs implementation on one NR / scan case (replay of a correspondence disagreement)."""
    res, obj = run_nr_direct(case)
    ans = ctx.driver('C11', [nr_request(case, obj)])[0]
    return nr_compare(case, res, obj, ans)[1]


# ---- through LLHRatio.maximize (wrapper + negation), NR implementations

def run_maximize(case, impl, twice=False):
    """-> (result dict, llh, raw records of evaluate / calculate_ns_grad2 calls)"""
    from skyllh.core.random import RandomStateService
    llh = build_llh(case, impl)
    rec = {'eval': [], 'g2': []}
    ev, g2 = llh.evaluate, llh.calculate_ns_grad2

    def evaluate(fitparam_values, src_params_recarray=None, tl=None):
        r = ev(fitparam_values, src_params_recarray=src_params_recarray, tl=tl)
        rec['eval'].append((np.array(fitparam_values, dtype=np.float64), float(r[0]), np.array(r[1], dtype=np.float64)))
        return r

    def calculate_ns_grad2(*a, **k):
        r = g2(*a, **k)
        rec['g2'].append(float(r))
        return r
    llh.evaluate = evaluate
    llh.calculate_ns_grad2 = calculate_ns_grad2
    with warnings.catch_warnings():
        warnings.simplefilter('ignore')
        try:
            (v, x, st) = llh.maximize(RandomStateService(case.get('rss', 1)))
        except Exception as e:  # noqa
            res = {'err': type(e).__name__, 'msg': str(e)[:300]}
        else:
            res = {'v': float(v), 'x': [float(t) for t in x], 'status': st,
                   'converged': bool(impl.has_converged(st)), 'reps': int(st.get('skyllh_minimizer_n_reps', -1))}
            if twice:
                try:
                    (v2, x2, _) = llh.maximize(RandomStateService(case.get('rss', 1)))
                    res['again'] = ('ok', float(v2), [float(t) for t in x2])
                except Exception as e:  # noqa
                    res['again'] = ('err', type(e).__name__)
    llh.evaluate, llh.calculate_ns_grad2 = ev, g2
    return res, llh, rec


def max_request(case, dres, llh):
    """request for the model's `maximize` (wrapper around the recorded outcome of the NR implementation, objective
    = negated llh): attempts carry the negated function, the table the llh value at the reported point"""
    (_, bounds) = init_bounds(case)
    bs = ';'.join(_rec(f2b(b[0]), f2b(b[1])) for b in bounds)
    at = _rec('1' if dres['flag'] <= 0 else '0', '0', f2b(dres['f']), flist(dres['x']))
    ll = float(llh.evaluate(np.array(dres['x'], dtype=np.float64))[0])
    return 'max %d %s %s %s' % (int(case.get('max_reps', 100)), bs, at, _rec(f2b(ll), flist(dres['x'])))


def o_maximize_nr(ctx, case, ans=None):
    """LLHRatio.maximize with Minimizer(NR-1D | NR+scan): equals the directly called NR implementation on the
    negated llh and the model's `maximize` of that outcome, raises exactly when NR reports flag 1,
    log_lambda_max = llh.evaluate(x)[0], and a second maximize on the same objects gives the same result."""
    scan = case['kind'] == 'scan'
    res, llh, rec = run_maximize(case, nr_impl(case, scan), twice=True)
    dres, dobj = run_nr_direct(case)
    if 'err' in dres:
        return None if 'err' in res else 'maximize returned although the NR implementation raises %s' % dres['err']
    if ans is None:
        ans = ctx.driver('C11', [max_request(case, dres, dobj.llh)])[0]
    tk = ans.split(' ')
    if 'err' in res:
        if res['err'] == 'ValueError' and dres['flag'] == 1:
            return None if tk[0] == 'err' else 'LLHRatio.maximize raises, the model of maximize returns %s' % ans[:80]
        return 'LLHRatio.maximize raised %s: %s although NR reports warnflag %d' % (res['err'], res['msg'], dres['flag'])
    if dres['flag'] == 1:
        return 'LLHRatio.maximize returned silently (x=%r) although NR did not converge (warnflag 1, niter %d)' % (res['x'], dres['niter'])
    if not all(_same(a, b) for a, b in zip(res['x'], dres['x'])) or not _same(res['v'], -dres['f']):
        return ('LLHRatio.maximize = (log_lambda_max=%r, x=%r) but NR on the negated llh gives fmin=%r at x=%r '
                '(negation of value / derivatives, index of ns, or wrapper clipping)') % (res['v'], res['x'], dres['f'], dres['x'])
    ll = float(llh.evaluate(np.array(res['x']))[0])
    if not _same(ll, res['v']):
        return 'log_lambda_max=%r but llh.evaluate(%r)=%r' % (res['v'], res['x'], ll)
    if tk[0] != 'ok' or not _same(b2f(tk[2]), res['v']) or not all(_same(a, b) for a, b in zip(parse_flist(tk[3]), res['x'])):
        return 'LLHRatio.maximize = (%r, %r), model of maximize on the recorded NR outcome: %s' % (res['v'], res['x'], ans[:120])
    lo, hi = case['lo'], case['hi']
    if not (lo <= res['x'][layout(case)[1]] <= hi):
        return 'maximize: ns=%r outside [%r, %r]' % (res['x'][layout(case)[1]], lo, hi)
    if res.get('again') != ('ok', res['v'], res['x']):
        return 'a second LLHRatio.maximize on the same objects gives %r, the first one (%r, %r)' % (res.get('again'), res['v'], res['x'])
    return None


# ---- wrapper around a scripted implementation

def _fl(v):
    """floats of a replayed case: NaN / inf are stored as strings in the replay files"""
    from harness.core import unjson_float
    if isinstance(v, (list, tuple)):
        return [_fl(t) for t in v]
    return unjson_float(v) if isinstance(v, str) else float(v)


def _func_value(case, x):
    t = np.array(case['target'], dtype=np.float64)
    x = np.asarray(_fl(list(x)), dtype=np.float64)
    return F64(np.sum((x - t) * (x - t)))


def run_wrapper(case):
    """real Minimizer.minimize around a scripted MinimizerImpl.
    case: {'kind':'wrap', 'bounds': [[lo,hi],..], 'init': [..], 'script': [{'x','f','conv','rep'},..],
           'max_reps', 'ret': 1|2|3, 'target': [..]}"""
    from skyllh.core.minimizer import Minimizer, MinimizerImpl
    from skyllh.core.parameters import Parameter, ParameterSet
    from skyllh.core.random import RandomStateService
    script = case['script']
    state = {'calls': [], 'fcalls': []}

    class ScriptImpl(MinimizerImpl):
        def minimize(self, initials, bounds, func, func_args=None, **kwargs):
            k = len(state['calls'])
            state['calls'].append(np.array(initials, dtype=np.float64))
            a = script[min(k, len(script) - 1)]
            return (np.array(_fl(a['x']), dtype=np.float64), F64(_fl(a['f'])), {'conv': a['conv'], 'rep': a['rep'], 'k': k})

        def get_niter(self, status):
            return 0

        def has_converged(self, status):
            return bool(status['conv'])

        def is_repeatable(self, status):
            return bool(status['rep'])

    ps = ParameterSet([Parameter('p%d' % i, v, b[0], b[1]) for i, (v, b) in enumerate(zip(case['init'], case['bounds']))])
    ret = case.get('ret', 2)

    def func(x, *args):
        v = _func_value(case, x)
        state['fcalls'].append((np.array(x, dtype=np.float64), float(v)))
        if ret == 1:
            return v
        if ret == 2:
            return (v, np.zeros(len(x)))
        return (v, F64(0.0), F64(1.0))
    m = Minimizer(ScriptImpl(cfg=cfg()), max_repetitions=int(case['max_reps']))
    try:
        (x, f, st) = m.minimize(RandomStateService(case.get('rss', 1)), ps, func)
    except Exception as e:  # noqa
        return {'err': type(e).__name__, 'msg': str(e)[:200]}, state
    return {'x': [float(v) for v in x], 'f': float(f), 'reps': int(st['skyllh_minimizer_n_reps']), 'k': int(st['k'])}, state


def wrap_request(case, state):
    bs = ';'.join(_rec(f2b(b[0]), f2b(b[1])) for b in case['bounds'])
    at = ';'.join(_rec('1' if a['conv'] else '0', '1' if a['rep'] else '0', f2b(_fl(a['f'])), flist(_fl(a['x']))) for a in case['script'])
    tab = ';'.join(_rec(f2b(v), flist(x)) for (x, v) in state['fcalls']) or '-'
    return 'wrap %d %s %s %s' % (int(case['max_reps']), bs, at, tab)


def wrap_compare(case, res, state, ans):
    tk = ans.split(' ')
    if 'err' in res:
        if res['err'] == 'ValueError' and tk[0] == 'err':
            return None
        return 'implementation raised %s (%s), model answers %s' % (res['err'], res['msg'], ans[:80])
    if tk[0] != 'ok':
        return 'implementation returned x=%r after %d repetitions, model raises (%s)' % (res['x'], res['reps'], ans)
    (_, reps, reev, f, xs) = tk
    mx = parse_flist(xs)
    diffs = []
    if int(reps) != res['reps']:
        diffs.append('repetitions: implementation %d, model %s' % (res['reps'], reps))
    if len(state['calls']) != int(reps) + 1:
        diffs.append('implementation called %d times, model %d' % (len(state['calls']), int(reps) + 1))
    if (reev == '1') != (len(state['fcalls']) > 0):
        diffs.append('re-evaluation: implementation %d objective calls, model reevaluated=%s' % (len(state['fcalls']), reev))
    if len(mx) != len(res['x']) or not all(_same(a, b) for a, b in zip(res['x'], mx)):
        diffs.append('xmin: implementation %r, model %r' % (res['x'], mx))
    if not _same(res['f'], b2f(f)):
        diffs.append('fmin: implementation %r, model %r' % (res['f'], b2f(f)))
    return '; '.join(diffs) or None


def o_wrapper_contract(ctx, case):
    """Minimizer.minimize around an arbitrary implementation: never a silent non-converged result, in bounds,
    fmin == func(xmin) (for consistent attempts), at most max_repetitions repetitions, first attempt with the
    initials of the parameter set, later ones inside the bounds."""
    res, state = run_wrapper(case)
    script, mr = case['script'], int(case['max_reps'])
    # the attempt the loop must stop at
    k = 0
    while k < mr and (not script[min(k, len(script) - 1)]['conv']) and script[min(k, len(script) - 1)]['rep']:
        k += 1
    last = script[min(k, len(script) - 1)]
    if 'err' in res:
        if res['err'] == 'ValueError':
            if last['conv'] and not any(v != v for v in _fl(last['x'])):
                return 'Minimizer.minimize raised ValueError (%s) although attempt %d converged' % (res['msg'][:60], k)
            return None
        return 'Minimizer.minimize raised %s: %s (objective returning %d value(s), attempt x=%r, bounds %r)' % (
            res['err'], res['msg'], case.get('ret', 2), last['x'], case['bounds'])
    if not last['conv']:
        return 'Minimizer.minimize returned x=%r silently although the last attempt (%d) did not converge' % (res['x'], k)
    if res['reps'] != k or len(state['calls']) != k + 1:
        return 'Minimizer.minimize made %d repetitions / %d calls, expected %d / %d (max_repetitions=%d)' % (
            res['reps'], len(state['calls']), k, k + 1, mr)
    if any(v != v for v in res['x']):
        return ('Minimizer.minimize returned xmin=%r containing NaN silently: the converged attempt %d reported x=%r and NaN is '
                'neither below nor above a bound, so it is passed on unchecked') % (res['x'], k, last['x'])
    for v, b in zip(res['x'], case['bounds']):
        if not (b[0] <= v <= b[1]):
            return 'Minimizer.minimize: xmin=%r outside the bounds %r' % (res['x'], case['bounds'])
    consistent = _same(float(_func_value(case, last['x'])), _fl(last['f']))
    if consistent or len(state['fcalls']) > 0:
        if not _same(float(_func_value(case, res['x'])), res['f']):
            return 'Minimizer.minimize: fmin=%r but func(xmin=%r)=%r' % (res['f'], res['x'], float(_func_value(case, res['x'])))
    if not all(_same(float(a), float(b)) for a, b in zip(state['calls'][0], case['init'])):
        return 'first attempt started at %r, not at the initials %r' % (state['calls'][0].tolist(), case['init'])
    for c in state['calls'][1:]:
        for v, b in zip(c, case['bounds']):
            if not (b[0] <= v <= b[1]):
                return 'repetition started at %r outside the bounds' % (c.tolist(),)
    return None


def o_corr_wrap(ctx, case):
    res, state = run_wrapper(case)
    ans = ctx.driver('C11', [wrap_request(case, state)])[0]
    return wrap_compare(case, res, state, ans)


# ---- external optimisers: wrapper contract only

BOUNDED = ('lbfgs', 'L-BFGS-B', 'SLSQP', 'TNC', 'COBYLA', 'iminuit')


def ext_impl(name):
    from skyllh.core.minimizer import LBFGSMinimizerImpl, ScipyMinimizerImpl
    if name == 'lbfgs':
        return LBFGSMinimizerImpl(cfg=cfg())
    if name == 'iminuit':
        from skyllh.core.minimizers.iminuit import IMinuitMinimizerImpl
        return IMinuitMinimizerImpl(cfg=cfg())
    return ScipyMinimizerImpl(name, cfg=cfg())


def o_external_contract(ctx, case):
    """LLHRatio.maximize with L-BFGS-B / a generic scipy method / iminuit on a concave llh landscape."""
    impl = ext_impl(case['impl'])
    res, llh, rec = run_maximize(case, impl)
    tag = 'maximize[%s]' % case['impl']
    if 'err' in res:
        if res['err'] == 'ValueError':
            return None          # loud failure is allowed (how often: see the success_floor oracle)
        return '%s raised %s: %s' % (tag, res['err'], res['msg'])
    st = res['status']
    raw_ok = (st.get('warnflag') == 0) if 'warnflag' in st else bool(st.get('success'))
    if not raw_ok:
        return '%s returned x=%r silently although the optimiser reports no success (%r)' % (
            tag, res['x'], {k: st.get(k) for k in ('warnflag', 'task', 'success', 'message') if k in st})
    (init, bounds) = init_bounds(case)
    for v, b in zip(res['x'], bounds):
        if not (b[0] <= v <= b[1]):
            return '%s: fit value %r outside its bounds %r' % (tag, v, b)
    ll = float(llh.evaluate(np.array(res['x']))[0])
    if abs(ll - res['v']) > 1e-12 * (1 + abs(ll)):
        return '%s: log_lambda_max=%r but llh.evaluate(%r)=%r' % (tag, res['v'], res['x'], ll)
    l0 = float(llh.evaluate(np.array(init))[0])
    # only for implementations that are given the bounds: an unconstrained method (BFGS, Nelder-Mead, Powell;
    # skyllh warns "continue at your own risk") is clipped by the wrapper afterwards, which may lose value
    if case['impl'] in BOUNDED and ll < l0 - 1e-9 * (1 + abs(l0)):
        return '%s: maximised llh %r at %r is below its value %r at the initial point %r' % (tag, ll, res['x'], l0, init)
    return None


# ---- box-constrained convex quadratics with 2..3 parameters: every implementation, active bounds on any parameter

def box_func(case):
    """f(x) = 1/2 (x-m)^T A (x-m), A symmetric positive definite; returns (f, grad) or f only."""
    A = np.array(case['A'], dtype=np.float64)
    m = np.array(case['m'], dtype=np.float64)

    def fg(x):
        d = np.asarray(x, dtype=np.float64) - m
        g = A @ d
        return (F64(0.5 * d @ g), g)
    return fg


def box_optimum(case):
    """exact constrained minimiser of the convex quadratic over the box: enumerate the 3^n active sets."""
    import itertools
    A = np.array(case['A'], dtype=np.float64)
    m = np.array(case['m'], dtype=np.float64)
    B = np.array(case['bounds'], dtype=np.float64)
    n = len(m)
    fg = box_func(case)
    best = None
    for act in itertools.product((0, 1, 2), repeat=n):        # 0 free, 1 at lower, 2 at upper
        x = np.where(np.array(act) == 1, B[:, 0], B[:, 1])
        free = [i for i in range(n) if act[i] == 0]
        fixed = [i for i in range(n) if act[i] != 0]
        if free:
            # A_ff (x_f - m_f) + A_fc (x_c - m_c) = 0
            rhs = -A[np.ix_(free, fixed)] @ (x[fixed] - m[fixed]) if fixed else np.zeros(len(free))
            x[free] = m[free] + np.linalg.solve(A[np.ix_(free, free)], rhs)
        if np.any(x < B[:, 0] - 1e-12) or np.any(x > B[:, 1] + 1e-12):
            continue
        x = np.clip(x, B[:, 0], B[:, 1])
        f = float(fg(x)[0])
        if best is None or f < best[1]:
            best = (x, f)
    return best


def run_box(case):
    """-> dict(impl_x, impl_err, x, f, err, ...) for `Minimizer(<impl>).minimize` on the quadratic"""
    from skyllh.core.minimizer import Minimizer
    from skyllh.core.parameters import Parameter, ParameterSet
    from skyllh.core.random import RandomStateService
    fg = box_func(case)
    grads = case.get('grads', True)
    func = (lambda x, *a: fg(x)) if grads else (lambda x, *a: fg(x)[0])
    kw = {} if grads else {'func_provides_grads': False}
    B = np.array(case['bounds'], dtype=np.float64)
    out = {}
    with warnings.catch_warnings():
        warnings.simplefilter('ignore')
        try:
            (xi, fi, st) = ext_impl(case['impl']).minimize(np.array(case['init'], dtype=np.float64), B.copy(), func, **dict(kw))
            out['impl_x'] = [float(v) for v in xi]
            out['impl_conv'] = bool(ext_impl(case['impl']).has_converged(st))
        except Exception as e:  # noqa
            out['impl_err'] = '%s: %s' % (type(e).__name__, str(e)[:150])
        ps = ParameterSet([Parameter('p%d' % i, v, b[0], b[1]) for i, (v, b) in enumerate(zip(case['init'], case['bounds']))])
        try:
            (x, f, st) = Minimizer(ext_impl(case['impl']), max_repetitions=3).minimize(
                RandomStateService(case.get('rss', 1)), ps, func, kwargs=dict(kw))
            out.update(x=[float(v) for v in x], f=float(f))
        except Exception as e:  # noqa
            out.update(err=type(e).__name__, msg=str(e)[:200])
    return out


# accuracy asked from the bounded implementations on a well-conditioned quadratic (they stop at ~1e-4..1e-6;
# measured maxima on the clean tree: 4.5e-4 and 2e-7, i.e. > 20x below these numbers)
BOX_XTOL = 1e-2
BOX_FTOL = 5e-4


def o_box_contract(ctx, case):
    """every implementation on a 2/3-parameter convex quadratic whose constrained optimum lies on a bound of the
    first / a middle / the last parameter or in a corner: implementations that are given the bounds stay inside
    them, the wrapper's result is inside the bounds with fmin == func(xmin), not worse than the initial point and
    (bounded implementations) at the exactly known constrained optimum."""
    r = run_box(case)
    B = case['bounds']
    tag = 'Minimizer[%s]' % case['impl']
    span = max(b[1] - b[0] for b in B)
    bounded = case['impl'] in BOUNDED
    if bounded and 'impl_x' in r:
        for i, (v, b) in enumerate(zip(r['impl_x'], B)):
            if not (b[0] - 1e-4 * (1 + span) <= v <= b[1] + 1e-4 * (1 + span)):
                return ('%s: the implementation, which is given the bounds, returns x[%d]=%r outside the bounds %r of parameter %d '
                        '(xmin=%r, bounds %r)') % (tag, i, v, b, i, r['impl_x'], B)
    if 'err' in r:
        if r['err'] == 'ValueError':
            return None          # loud failure is allowed (how often: see the success_floor oracle)
        return '%s.minimize raised %s: %s' % (tag, r['err'], r['msg'])
    fg = box_func(case)
    for i, (v, b) in enumerate(zip(r['x'], B)):
        if not (b[0] <= v <= b[1]):
            return '%s: xmin[%d]=%r outside its bounds %r' % (tag, i, v, b)
    fx_ = float(fg(np.array(r['x']))[0])
    if abs(fx_ - r['f']) > 1e-12 * (1 + abs(fx_)):
        return '%s: fmin=%r but func(xmin=%r)=%r' % (tag, r['f'], r['x'], fx_)
    if bounded:
        f0 = float(fg(np.array(case['init']))[0])
        (xo, fo) = box_optimum(case)
        scale = 1 + abs(f0) + abs(fo)
        if r['f'] > f0 + 1e-9 * scale:
            return '%s: objective at the reported optimum %r = %r is above its value %r at the initial point %r' % (
                tag, r['x'], r['f'], f0, case['init'])
        if r['f'] > fo + BOX_FTOL * scale or max(abs(a - b) for a, b in zip(r['x'], xo)) > BOX_XTOL * (1 + span):
            return ('%s: reported optimum %r (f=%r) is not the constrained optimum %r (f=%r) of the quadratic over the box %r '
                    '(implementation returned %r)') % (tag, r['x'], r['f'], [float(v) for v in xo], fo, B, r.get('impl_x'))
    return None


class _CaptureMinimize(object):
    """temporarily replaces scipy.optimize.minimize (and a `minimize` name imported into skyllh.core.minimizer, if
    any) to see what ScipyMinimizerImpl hands to scipy"""

    def __enter__(self):
        import scipy.optimize
        import skyllh.core.minimizer as skm
        self.seen = {}

        def fake(fun, x0, *a, **kw):
            self.seen.update(kw)
            return scipy.optimize.OptimizeResult(x=np.array(x0), fun=0.0, success=True, nit=0)
        self.saved = [(scipy.optimize, scipy.optimize.minimize)]
        scipy.optimize.minimize = fake
        if hasattr(skm, 'minimize'):
            self.saved.append((skm, skm.minimize))
            skm.minimize = fake
        return self

    def __exit__(self, *a):
        for (mod, orig) in self.saved:
            mod.minimize = orig


def _feasible(seen, x):
    """does x satisfy everything (constraints of any scipy kind, native bounds) that was handed to scipy?
    -> (feasible, list of values of dict-type inequality constraints | None)"""
    import scipy.optimize as so
    x = np.array(x, dtype=np.float64)
    ok, vals = True, []
    cons = seen.get('constraints')
    cons = [] if cons is None else (list(cons) if isinstance(cons, (list, tuple)) else [cons])
    for c in cons:
        if isinstance(c, dict):
            v = np.atleast_1d(np.asarray(c['fun'](x, *c.get('args', ())), dtype=np.float64))
            ok = ok and bool(np.all(v >= 0) if c.get('type') == 'ineq' else np.all(v == 0))
            vals += [float(t) for t in v] if c.get('type') == 'ineq' else [None]
        else:
            v = np.atleast_1d(c.A @ x if isinstance(c, so.LinearConstraint) else c.fun(x))
            ok = ok and bool(np.all(v >= np.atleast_1d(c.lb)) and np.all(v <= np.atleast_1d(c.ub)))
            vals.append(None)
    b = seen.get('bounds')
    if b is not None:
        (lb, ub) = (b.lb, b.ub) if isinstance(b, so.Bounds) else (np.array(b, dtype=np.float64)[:, 0], np.array(b, dtype=np.float64)[:, 1])
        ok = ok and bool(np.all(x >= lb) and np.all(x <= ub))
    return ok, (vals if (vals and None not in vals and b is None) else None)


def cobyla_constraint_values(case):
    """per case['xs']: (feasible for what ScipyMinimizerImpl('COBYLA') hands to scipy, values of the inequality
    constraints if they are plain dict constraints)"""
    from skyllh.core.minimizer import ScipyMinimizerImpl
    B = np.array(case['bounds'], dtype=np.float64)
    with _CaptureMinimize() as cap:
        ScipyMinimizerImpl('COBYLA', cfg=cfg()).minimize(np.array(case['xs'][0], dtype=np.float64), B, lambda x: (0.0, np.zeros(len(x))))
    if cap.seen.get('constraints') is None and cap.seen.get('bounds') is None:
        from harness.core import MachineryError
        if not cap.seen:
            raise MachineryError('C11: could not intercept the scipy call of ScipyMinimizerImpl (COBYLA)')
    return [_feasible(cap.seen, x) for x in case['xs']]


def cobyla_reqs(case):
    B = case['bounds']
    return ['cobyla %s %s' % (';'.join(_rec(f2b(b[0]), f2b(b[1])) for b in B), flist(x)) for x in case['xs']]


def o_cobyla_constraints(ctx, case, ans=None):
    """what ScipyMinimizerImpl hands to scipy for COBYLA (inequality constraints of any kind, or native bounds)
    is feasible at x exactly when every x[i] lies within its own bounds (implementation only); if the constraints
    are the 2n plain `x[i]-lb`, `ub-x[i]` closures their values equal the model's `cobylaConstraints` bit by bit."""
    got = cobyla_constraint_values(case)
    B = case['bounds']
    for x, (feas, v) in zip(case['xs'], got):
        inb = all(b[0] <= t <= b[1] for t, b in zip(x, B))
        if inb != feas:
            return ('ScipyMinimizerImpl[COBYLA]: at x=%r (%s the bounds %r) the inequality constraints handed to scipy have the '
                    'values %r (%s)') % (x, 'inside' if inb else 'outside', B, v, 'all satisfied' if feas else 'violated')
    if all(v is not None and len(v) == 2 * len(B) for (_, v) in got):
        if ans is None:
            ans = ctx.driver('C11', cobyla_reqs(case))
        for x, (_, v), a in zip(case['xs'], got, ans):
            mv = [float('nan') if t == 'ERR' else b2f(t) for t in a.split(',')]
            if sorted(v) != sorted(mv) and not all(_same(p, q) for p, q in zip(sorted(v), sorted(mv))):
                return 'COBYLA constraints at x=%r, bounds %r: implementation %r, model %r' % (x, B, v, mv)
    else:
        ctx.count('cobyla:constraints-not-plain-closures')
    return None


def o_success_floor(ctx, case):
    """an implementation that is given the bounds must actually return (not raise "did not converge") on
    well-conditioned box-constrained quadratics: at least 90 % of case['n'] problems drawn from case['seed']."""
    import random
    rng = random.Random(case['seed'])
    n, ok, errs = int(case['n']), 0, []
    for _ in range(n):
        r = run_box(gen_box_case(rng, case['impl']))
        if 'err' in r:
            errs.append('%s: %s' % (r['err'], r['msg'][:80]))
        else:
            ok += 1
    if ok < 0.9 * n:
        return 'Minimizer[%s] returned a result for only %d of %d well-conditioned box-constrained quadratics (e.g. %s)' % (
            case['impl'], ok, n, errs[0])
    return None


# ---- CRS (nlopt) through a stub nlopt module

class _StubNlopt(object):
    """stand-in for the nlopt module (not installed): opt(algorithm, n) with the calls CRSMinimizerImpl makes.
    optimize() minimises the objective with a bounded scipy method within the scripted evaluation budget and
    reports the scripted nlopt result code (1..4 success kinds, 5 maxeval reached, 6 maxtime reached)."""
    GN_CRS2_LM = 19
    script = {'status': 4, 'budget': 2000}

    class opt(object):
        def __init__(self, alg, n):
            self.n, self.lb, self.ub, self.f, self.nev, self.val, self.res = n, None, None, None, 0, None, None

        def _chk(self, v):
            if len(v) != self.n:
                raise ValueError('nlopt invalid argument: dimension mismatch')
            return np.array(v, dtype=np.float64)

        def set_lower_bounds(self, v):
            self.lb = self._chk(v)

        def set_upper_bounds(self, v):
            self.ub = self._chk(v)

        def set_ftol_abs(self, v):
            pass

        def set_stopval(self, v):
            pass

        def set_xtol_abs(self, v):
            pass

        def set_maxtime(self, v):
            pass

        def set_min_objective(self, f):
            self.f = f

        def optimize(self, x0):
            import scipy.optimize
            x0 = self._chk(x0)
            budget = int(_StubNlopt.script['budget'])

            def fun(x):
                self.nev += 1
                return float(self.f(np.array(x, dtype=np.float64), np.empty(0)))
            r = scipy.optimize.minimize(fun, x0, method='L-BFGS-B', bounds=list(zip(self.lb, self.ub)),
                                        options={'maxfun': budget})
            self.val, self.res = float(r.fun), int(_StubNlopt.script['status'])
            return np.array(r.x, dtype=np.float64)

        def last_optimum_value(self):
            return self.val

        def last_optimize_result(self):
            return self.res

        def get_numevals(self):
            return self.nev


def run_crs(case, raw=False):
    """Minimizer(CRSMinimizerImpl) on a 2-parameter quadratic with the stub nlopt reporting case['status']"""
    import contextlib
    import io
    import sys
    from skyllh.core.minimizer import Minimizer
    from skyllh.core.parameters import Parameter, ParameterSet
    from skyllh.core.random import RandomStateService
    had = sys.modules.get('nlopt')
    sys.modules['nlopt'] = _StubNlopt
    _StubNlopt.script = {'status': int(case['status']), 'budget': int(case['budget'])}
    try:
        from skyllh.core.minimizers.crs import CRSMinimizerImpl
        fg = box_func(case)
        ps = ParameterSet([Parameter('p%d' % i, v, b[0], b[1]) for i, (v, b) in enumerate(zip(case['init'], case['bounds']))])
        out = io.StringIO()
        with warnings.catch_warnings(), contextlib.redirect_stdout(out):
            warnings.simplefilter('ignore')
            try:
                if raw:
                    (_, _, st) = CRSMinimizerImpl(cfg=cfg()).minimize(np.array(case['init'], dtype=np.float64),
                                                                     np.array(case['bounds'], dtype=np.float64), lambda x, *a: fg(x))
                    return st['success']
                (x, f, st) = Minimizer(CRSMinimizerImpl(cfg=cfg()), max_repetitions=2).minimize(
                    RandomStateService(case.get('rss', 1)), ps, lambda x, *a: fg(x))
                return {'x': [float(v) for v in x], 'f': float(f), 'status': int(st['status'])}
            except Exception as e:  # noqa
                return {'err': type(e).__name__, 'msg': str(e)[:200]}
    finally:
        if had is None:
            sys.modules.pop('nlopt', None)
        else:
            sys.modules['nlopt'] = had


def o_crs_contract(ctx, case):
    """CRSMinimizerImpl through Minimizer.minimize: nlopt result codes 1..4 -> result in bounds, consistent;
    codes 5 / 6 (maxeval / maxtime reached = not converged) -> exception, never a silent result."""
    r = run_crs(case)
    st = int(case['status'])
    if st in (5, 6):
        if 'err' in r:
            return None if r['err'] == 'ValueError' else 'Minimizer[CRS] raised %s: %s' % (r['err'], r['msg'])
        (xo, fo) = box_optimum(case)
        return ('Minimizer[CRS] returned xmin=%r (f=%r; the optimum is %r, f=%r) silently although nlopt stopped with result '
                'code %d (%s reached, evaluation budget %d): not converged') % (
                    r['x'], r['f'], [float(v) for v in xo], fo, st, 'maxeval' if st == 5 else 'maxtime', case['budget'])
    if 'err' in r:
        return 'Minimizer[CRS] raised %s: %s although nlopt reports success code %d' % (r['err'], r['msg'], st)
    for v, b in zip(r['x'], case['bounds']):
        if not (b[0] <= v <= b[1]):
            return 'Minimizer[CRS]: xmin=%r outside the bounds %r' % (r['x'], case['bounds'])
    fx_ = float(box_func(case)(np.array(r['x']))[0])
    if abs(fx_ - r['f']) > 1e-12 * (1 + abs(fx_)):
        return 'Minimizer[CRS]: fmin=%r but func(xmin=%r)=%r' % (r['f'], r['x'], fx_)
    return None


def gen_crs_case(rng):
    cs = gen_box_case(rng, 'crs', n=2)
    st = rng.choice([1, 2, 3, 4, 4, 5, 5, 6])
    cs.update(kind='crs', status=st, budget=(rng.choice([2, 3, 5]) if st in (5, 6) else 2000), grads=True,
              cls='crs:status=%d' % st)
    return cs


# ---- histories on one object: the same Minimizer / implementation object minimises the *same function object*
#      several times with different func_args (trial data), initials and bounds; each result must equal the
#      one of a fresh object.  The objectives are module-level functions on purpose (identical object per call).

def _hist_fg(x, A, m):
    d = np.asarray(x, dtype=np.float64) - m
    g = A @ d
    return (F64(0.5 * d @ g), g)


def _hist_f(x, A, m):
    return _hist_fg(x, A, m)[0]


def _hist_f3(x, A, m):
    (f, g) = _hist_fg(x, A, m)
    return (f, g[0], A[0, 0])


def _hist_objects(case):
    from skyllh.core.minimizer import Minimizer, NR1dNsMinimizerImpl
    impl = NR1dNsMinimizerImpl(cfg=cfg()) if case['impl'] == 'nr' else ext_impl(case['impl'])
    return Minimizer(impl, max_repetitions=3)


def run_history(case, fresh):
    """results of the steps of a history, on one Minimizer object (fresh=False) or on a new one per step"""
    from skyllh.core.parameters import Parameter, ParameterSet
    from skyllh.core.random import RandomStateService
    nr = case['impl'] == 'nr'
    func = _hist_f3 if nr else (_hist_fg if case.get('grads', True) else _hist_f)
    kw = {} if (nr or case.get('grads', True)) else {'func_provides_grads': False}
    mini = None if fresh else _hist_objects(case)
    out = []
    for st in case['steps']:
        m = _hist_objects(case) if fresh else mini
        ps = ParameterSet([Parameter('p%d' % i, v, b[0], b[1]) for i, (v, b) in enumerate(zip(st['init'], st['bounds']))])
        args = (np.array(st['A'], dtype=np.float64), np.array(st['m'], dtype=np.float64))
        if case.get('argform') == 'list':
            args = list(args)
        with warnings.catch_warnings():
            warnings.simplefilter('ignore')
            try:
                (x, f, _) = m.minimize(RandomStateService(case.get('rss', 1)), ps, func, args=args,
                                       kwargs=(dict(kw) if (kw or case.get('kwform') != 'none') else None))
                out.append({'x': [float(v) for v in x], 'f': float(f)})
            except Exception as e:  # noqa
                out.append({'err': type(e).__name__, 'msg': str(e)[:160]})
    return out


def o_history_contract(ctx, case):
    """one Minimizer / implementation object used for several minimisations of the same function object with
    different arguments, initials and bounds: every result is consistent with *that call's* objective
    (fmin == func(xmin, *args), in bounds) and equals the result of a fresh object on the same problem."""
    used = run_history(case, fresh=False)
    new = run_history(case, fresh=True)
    tag = 'Minimizer[%s]' % case['impl']
    for k, (st, u, n) in enumerate(zip(case['steps'], used, new)):
        where = '%s, minimisation %d of %d on the same object (same function object, new arguments)' % (tag, k + 1, len(used))
        if ('err' in u) != ('err' in n):
            return '%s: %s, a fresh object %s' % (where, 'raised %s: %s' % (u['err'], u['msg']) if 'err' in u else 'returned %r' % u['x'],
                                                  'raised %s' % n['err'] if 'err' in n else 'returns %r' % n['x'])
        if 'err' in u:
            if u['err'] != 'ValueError':
                return '%s: raised %s: %s' % (where, u['err'], u['msg'])
            continue
        args = (np.array(st['A'], dtype=np.float64), np.array(st['m'], dtype=np.float64))
        fx_ = float(_hist_fg(np.array(u['x']), *args)[0])
        if abs(fx_ - u['f']) > 1e-12 * (1 + abs(fx_)):
            return ('%s: fmin=%r but func(xmin=%r, *args of this call)=%r; a fresh object gives xmin=%r, fmin=%r '
                    '(state of an earlier minimisation survives in the object)') % (where, u['f'], u['x'], fx_, n['x'], n['f'])
        for i, (v, b) in enumerate(zip(u['x'], st['bounds'])):
            if not (b[0] <= v <= b[1]):
                return '%s: xmin[%d]=%r outside its bounds %r' % (where, i, v, b)
        if not (all(_close(a, b) for a, b in zip(u['x'], n['x'])) and _close(u['f'], n['f'])):
            return '%s: result (%r, %r) differs from the result (%r, %r) of a fresh object on the same problem' % (
                where, u['x'], u['f'], n['x'], n['f'])
    return None


def gen_history_case(rng, impl):
    n = 1 if impl == 'nr' else rng.choice([2, 2, 3])
    steps = []
    for k in range(rng.choice([2, 3, 4])):
        if steps and rng.random() < 0.2:
            steps.append(dict(steps[rng.randrange(len(steps))]))      # the very same problem again
            continue
        cs = gen_box_case(rng, impl, n=max(n, 2))
        st = {k2: cs[k2] for k2 in ('bounds', 'm', 'A', 'init')}
        if n == 1:
            st = {'bounds': st['bounds'][:1], 'm': st['m'][:1], 'A': [[st['A'][0][0]]], 'init': st['init'][:1]}
        steps.append(st)
    return {'kind': 'history', 'impl': impl, 'grads': rng.random() < 0.75, 'steps': steps, 'rss': rng.randrange(1, 1000),
            'argform': rng.choice(['tuple', 'list']), 'kwform': rng.choice(['dict', 'none']), 'cls': 'history:%s' % impl}


# ---- FuncWithGradsFunctor: random get_f / get_grads sequences on one functor

def functor_run(case):
    """-> (outputs of the real functor, number of calls of the wrapped function, table of the function)"""
    from skyllh.core.minimizers.iminuit import FuncWithGradsFunctor
    args = (np.array(case['A'], dtype=np.float64), np.array(case['m'], dtype=np.float64))
    calls = []

    def func(x, *a):
        calls.append(np.array(x, dtype=np.float64))
        return _hist_fg(x, *a)
    fun = FuncWithGradsFunctor(cfg=cfg(), func=func, func_args=args)
    outs = []
    for (op, x) in case['ops']:
        x = np.array(x, dtype=np.float64)
        r = fun.get_f(x) if op == 'f' else fun.get_grads(x)
        outs.append(float(r) if op == 'f' else [float(v) for v in np.asarray(r)])
    return outs, len(calls), args


def functor_reqs(case):
    args = (np.array(case['A'], dtype=np.float64), np.array(case['m'], dtype=np.float64))
    seen, tab = set(), []
    for (_, x) in case['ops']:
        k = flist(x)
        if k not in seen:
            seen.add(k)
            (f, g) = _hist_fg(np.array(x, dtype=np.float64), *args)
            tab.append(_rec(k, f2b(f), flist(g)))
    return ['functor %s %s' % (';'.join(tab), ';'.join(flist(x) for (_, x) in case['ops']))]


def o_functor_history(ctx, case, ans=None):
    """any sequence of get_f / get_grads calls on one FuncWithGradsFunctor returns the wrapped function's value /
    gradients at the point asked for (implementation only) and what the model's `functorRun` returns."""
    outs, ncalls, args = functor_run(case)
    for k, ((op, x), o) in enumerate(zip(case['ops'], outs)):
        (f, g) = _hist_fg(np.array(x, dtype=np.float64), *args)
        want = float(f) if op == 'f' else [float(v) for v in g]
        if o != want:
            return 'FuncWithGradsFunctor: call %d, get_%s(%r) = %r but func(x)%s = %r (calls so far: %r)' % (
                k, 'f' if op == 'f' else 'grads', x, o, '[0]' if op == 'f' else '[1]', want, case['ops'][:k])
    if ans is None:
        ans = ctx.driver('C11', functor_reqs(case))
    (body, mcalls) = ans[0].rsplit(' ', 1)
    for k, ((op, x), o, rec) in enumerate(zip(case['ops'], outs, body.split(';'))):
        (mf, mg) = rec.split(':')
        mo = b2f(mf) if op == 'f' else parse_flist(mg)
        if (o != mo):
            return 'FuncWithGradsFunctor call %d get_%s(%r): implementation %r, model %r' % (k, op, x, o, mo)
    ctx.count('branch:functorStep:' + ('hit' if ncalls < len(case['ops']) else 'no-hit-in-this-case'))
    if int(mcalls) != ncalls:
        ctx.count('functor:call-count-differs-from-model(diagnostic)')
    return None


def gen_functor_case(rng):
    cs = gen_box_case(rng, 'functor', n=rng.choice([2, 3]))
    pool = [[b[0] + (b[1] - b[0]) * rng.random() for b in cs['bounds']] for _ in range(rng.choice([2, 3, 4]))]
    pool.append([0.0] * len(cs['bounds']))
    pool.append([-0.0] + [0.0] * (len(cs['bounds']) - 1))
    ops = [[rng.choice('fg'), list(rng.choice(pool))] for _ in range(rng.choice([3, 6, 12]))]
    return {'kind': 'functor', 'A': cs['A'], 'm': cs['m'], 'ops': ops, 'cls': 'functor-history'}


# ---- status -> decision tables, scripted optimiser inside the real LBFGSMinimizerImpl, exceptions, generic objective

def _hex(t):
    t = t if isinstance(t, str) else str(t)
    return t.encode('ascii', 'replace').hex() or '-'


LBFGS_TASKS = ['CONVERGENCE: NORM OF PROJECTED GRADIENT <= PGTOL', 'CONVERGENCE: RELATIVE REDUCTION OF F <= FACTR*EPSMCH',
               'STOP: TOTAL NO. OF ITERATIONS REACHED LIMIT', 'STOP: TOTAL NO. OF F,G EVALUATIONS EXCEEDS LIMIT', 'ABNORMAL',
               'ABNORMAL_TERMINATION_IN_LNSRCH', 'CONVERGENCE: REL_REDUCTION_OF_F_<=_FACTR*EPSMCH', 'ERROR: FACTR < 0', '']


def status_rows():
    """(implementation object, status dict, model request, optimiser's own success indication | None)"""
    from skyllh.core.minimizer import LBFGSMinimizerImpl, NR1dNsMinimizerImpl, ScipyMinimizerImpl
    rows = []
    lb = LBFGSMinimizerImpl(cfg=cfg())
    for wf in (0, 1, 2):
        for task in LBFGS_TASKS + [b'ABNORMAL']:
            rows.append(('LBFGS', lb, {'warnflag': wf, 'task': task, 'nit': 3}, 'status lbfgs %d %s' % (wf, _hex(task)), wf == 0))
    sc = ScipyMinimizerImpl('SLSQP', cfg=cfg())
    for ok in (True, False, np.True_, np.False_):
        rows.append(('Scipy', sc, {'success': ok, 'nit': 1}, 'status scipy %d -' % int(bool(ok)), bool(ok)))
    try:
        from skyllh.core.minimizers.iminuit import IMinuitMinimizerImpl
        im = IMinuitMinimizerImpl(cfg=cfg())
        for ok in (True, False):
            rows.append(('IMinuit', im, {'success': ok, 'nfev': 1}, 'status iminuit %d -' % int(ok), ok))
    except Exception:  # noqa
        pass
    nr = NR1dNsMinimizerImpl(cfg=cfg())
    for wf in (-2, -1, 0, 1):
        rows.append(('NR1d', nr, {'warnflag': wf, 'niter': 1}, 'status nr %d -' % wf, wf <= 0))
    return rows


def status_reqs(case):
    return [r[3] for r in status_rows()] + ['status crs %d -' % c for c in range(-5, 7)]


def o_status_tables(ctx, case, ans=None):
    """has_converged / is_repeatable of every implementation on synthetic status records: converged exactly for
    the optimiser's own success indication (L-BFGS-B warnflag 0; scipy / iminuit success; nlopt result codes 1..4),
    an abnormal line-search termination of L-BFGS-B is repeatable, and both decisions equal the model's tables."""
    rows = status_rows()
    if ans is None:
        ans = ctx.driver('C11', status_reqs(case))
    for (name, impl, st, _, want), a in zip(rows, ans):
        got = bool(impl.has_converged(dict(st)))
        rep_ = bool(impl.is_repeatable(dict(st)))
        if got != want:
            return '%sMinimizerImpl.has_converged(%r) = %s, the optimiser\'s own status says %s' % (name, st, got, want)
        if want and rep_ and name in ('LBFGS', 'NR1d', 'Scipy'):
            return '%sMinimizerImpl.is_repeatable(%r) is True for a converged status' % (name, st)
        if name == 'LBFGS' and st['warnflag'] == 2 and 'ABNORMAL' in str(st['task']) and not rep_:
            return ('LBFGSMinimizerImpl.is_repeatable(%r) is False: an abnormal termination of the line search (what the code '
                    'repeats with new initials for) is not recognised from this task message') % (st,)
        (mc, mr) = a.split(' ')
        if (mc == '1') != got or (mr == '1') != rep_:
            return '%sMinimizerImpl on %r: has_converged=%s is_repeatable=%s, model %s %s' % (name, st, got, rep_, mc, mr)
    # nlopt result codes through CRSMinimizerImpl.minimize (stub nlopt): res['success'] vs the model's crsSuccess
    for code, a in zip(range(-5, 7), ans[len(rows):]):
        if code == 0:
            continue
        cs = {'status': code, 'budget': 50, 'bounds': [[0.0, 1.0], [0.0, 1.0]], 'm': [0.5, 0.5], 'A': [[1.0, 0.0], [0.0, 1.0]],
              'init': [0.2, 0.2]}
        succ = run_crs(cs, raw=True)
        if succ is not None and bool(succ) != (a.split(' ')[0] == '1'):
            return 'CRSMinimizerImpl: nlopt result code %d gives success=%s, model %s' % (code, succ, a)
    return None


def run_lbfgs_scripted(case):
    """real Minimizer(LBFGSMinimizerImpl) whose `_fmin_l_bfgs_b` is a scripted optimiser returning
    (x, f, scipy-style status dict) per call.  -> (result, state)"""
    from skyllh.core.minimizer import LBFGSMinimizerImpl, Minimizer
    from skyllh.core.parameters import Parameter, ParameterSet
    from skyllh.core.random import RandomStateService
    state = {'calls': [], 'fcalls': []}
    script = case['script']

    def fmin(func, x0, **kw):
        k = len(state['calls'])
        state['calls'].append({'x0': np.array(x0, dtype=np.float64), 'kw': kw})
        a = script[min(k, len(script) - 1)]
        return (np.array(_fl(a['x']), dtype=np.float64), F64(_fl(a['f'])), {'warnflag': a['warnflag'], 'task': a['task'], 'nit': 1,
                                                                              'funcalls': 1, 'grad': np.zeros(len(a['x']))})
    # the implementation takes scipy.optimize.fmin_l_bfgs_b when it is built / called: replace it there (no private
    # attribute of the implementation is touched); the stand-in has the signature of the real function
    import inspect
    import scipy.optimize
    import skyllh.core.minimizer as skm
    real = scipy.optimize.fmin_l_bfgs_b
    fmin.__signature__ = inspect.signature(real)
    saved = [(scipy.optimize, real)] + ([(skm, skm.fmin_l_bfgs_b)] if hasattr(skm, 'fmin_l_bfgs_b') else [])
    for (mod, _) in saved:
        mod.fmin_l_bfgs_b = fmin
    try:
        return _run_lbfgs_scripted_inner(case, state, LBFGSMinimizerImpl, Minimizer, Parameter, ParameterSet, RandomStateService)
    finally:
        for (mod, orig) in saved:
            mod.fmin_l_bfgs_b = orig


def _run_lbfgs_scripted_inner(case, state, LBFGSMinimizerImpl, Minimizer, Parameter, ParameterSet, RandomStateService):
    impl = LBFGSMinimizerImpl(cfg=cfg())
    ps = ParameterSet([Parameter('p%d' % i, v, b[0], b[1]) for i, (v, b) in enumerate(zip(case['init'], case['bounds']))])
    grads = case.get('grads', True)

    def func(x, *args):
        v = _func_value(case, x)
        state['fcalls'].append((np.array(x, dtype=np.float64), float(v)))
        return (v, np.zeros(len(x))) if grads else v
    try:
        (x, f, st) = Minimizer(impl, max_repetitions=int(case['max_reps'])).minimize(
            RandomStateService(case.get('rss', 1)), ps, func, kwargs=({} if grads else {'func_provides_grads': False}))
    except Exception as e:  # noqa
        if not state['calls']:
            from harness.core import MachineryError
            raise MachineryError('C11: could not put a scripted optimiser into LBFGSMinimizerImpl (%s: %s)' % (type(e).__name__, e))
        return {'err': type(e).__name__, 'msg': str(e)[:200]}, state
    if not state['calls']:
        from harness.core import MachineryError
        raise MachineryError('C11: could not put a scripted optimiser into LBFGSMinimizerImpl')
    return {'x': [float(v) for v in x], 'f': float(f), 'reps': int(st['skyllh_minimizer_n_reps'])}, state


def lbfgs_scripted_reqs(case):
    (res, state) = run_lbfgs_scripted(case)
    bs = ';'.join(_rec(f2b(b[0]), f2b(b[1])) for b in case['bounds'])
    sc = list(case['script']) + [case['script'][-1]] * max(0, int(case['max_reps']) + 1 - len(case['script']))
    at = ';'.join(_rec('lbfgs', str(int(a['warnflag'])), _hex(a['task']), f2b(_fl(a['f'])), flist(_fl(a['x']))) for a in sc)
    tab = ';'.join(_rec(f2b(v), flist(x)) for (x, v) in state['fcalls']) or '-'
    return ['wrapst %d %s %s %s' % (int(case['max_reps']), bs, at, tab)]


def o_lbfgs_scripted(ctx, case, ans=None):
    """the real LBFGSMinimizerImpl + Minimizer around a scripted optimiser (scipy-style status records incl. the
    restart-provoking ones): result / exception / repetitions as the model's wrapper over the model's status tables;
    what reaches the optimiser: x0 = initials (then in-bounds random initials), the bounds, approx_grad = not
    func_provides_grads, factr = ftol / eps, no option the installed scipy does not know."""
    import inspect
    import scipy.optimize
    (res, state) = run_lbfgs_scripted(case)
    if ans is None:
        ans = ctx.driver('C11', lbfgs_scripted_reqs(case))
    d = wrap_compare(case, res, state, ans[0])
    if d:
        return 'Minimizer[LBFGS around a scripted optimiser, statuses %r]: %s' % ([(a['warnflag'], a['task']) for a in case['script']][:4], d)
    known = set(inspect.signature(scipy.optimize.fmin_l_bfgs_b).parameters)
    for k, c in enumerate(state['calls']):
        kw = c['kw']
        unknown = sorted(set(kw) - known)
        if unknown:
            return 'LBFGSMinimizerImpl passes the option(s) %r, which scipy.optimize.fmin_l_bfgs_b does not accept' % unknown
        if bool(kw.get('approx_grad')) != (not case.get('grads', True)):
            return 'LBFGSMinimizerImpl: approx_grad=%r for func_provides_grads=%r' % (kw.get('approx_grad'), case.get('grads', True))
        if not np.array_equal(np.asarray(kw.get('bounds'), dtype=np.float64), np.array(case['bounds'], dtype=np.float64)):
            return 'LBFGSMinimizerImpl hands the bounds %r to the optimiser, the parameter set has %r' % (kw.get('bounds'), case['bounds'])
        if abs(kw.get('factr', 0) - 1e-6 / np.finfo(float).eps) > 1e-3:
            return 'LBFGSMinimizerImpl: factr=%r, expected ftol/eps' % kw.get('factr')
        x0 = c['x0']
        if k == 0 and not all(_same(float(a), float(b)) for a, b in zip(x0, case['init'])):
            return 'first L-BFGS-B call starts at %r, not at the initials %r' % (x0.tolist(), case['init'])
        if any(not (b[0] <= v <= b[1]) for v, b in zip(x0, case['bounds'])):
            return 'L-BFGS-B call %d starts at %r outside the bounds' % (k, x0.tolist())
    return None


def gen_lbfgs_scripted_case(rng):
    cs = gen_wrap_case(rng)
    cs['kind'] = 'lbfgs_scripted'
    cs['grads'] = rng.random() < 0.7
    pattern = rng.choice(['converged', 'abnormal-then-ok', 'factr-then-ok', 'abnormal-forever', 'maxiter', 'mixed'])
    ok_task = LBFGS_TASKS[0]
    for k, a in enumerate(cs['script']):
        if pattern == 'converged':
            wf, task = 0, ok_task
        elif pattern in ('abnormal-then-ok', 'factr-then-ok'):
            bad = rng.choice(['ABNORMAL', 'ABNORMAL_TERMINATION_IN_LNSRCH']) if pattern[0] == 'a' else LBFGS_TASKS[6]
            (wf, task) = (2, bad) if k < min(2, cs['max_reps']) else (0, ok_task)
        elif pattern == 'abnormal-forever':
            wf, task = 2, 'ABNORMAL'
        elif pattern == 'maxiter':
            wf, task = 1, LBFGS_TASKS[2]
        else:
            wf = rng.choice([0, 1, 2])
            task = rng.choice(LBFGS_TASKS)
        a['warnflag'], a['task'] = wf, task
        a['conv'], a['rep'] = (wf == 0), None
    cs['cls'] = 'lbfgs-scripted:' + pattern
    return cs


# ---- exceptions raised by the implementation / the objective inside Minimizer.minimize

class _Boom(Exception):
    pass


def run_wrapper_exc(case):
    """like run_wrapper, but script entries with 'raise': True make the implementation raise, and
    case['func_raises'] makes the objective raise when it is re-evaluated"""
    from skyllh.core.minimizer import Minimizer, MinimizerImpl
    from skyllh.core.parameters import Parameter, ParameterSet
    from skyllh.core.random import RandomStateService
    script = case['script']
    state = {'calls': [], 'fcalls': []}

    class ScriptImpl(MinimizerImpl):
        def minimize(self, initials, bounds, func, func_args=None, **kwargs):
            k = len(state['calls'])
            state['calls'].append(np.array(initials, dtype=np.float64))
            a = script[min(k, len(script) - 1)]
            if a.get('raise'):
                raise _Boom('implementation call %d' % k)
            return (np.array(_fl(a['x']), dtype=np.float64), F64(_fl(a['f'])), {'conv': a['conv'], 'rep': a['rep'], 'k': k})

        def get_niter(self, status):
            return 0

        def has_converged(self, status):
            return bool(status['conv'])

        def is_repeatable(self, status):
            return bool(status['rep'])

    ps = ParameterSet([Parameter('p%d' % i, v, b[0], b[1]) for i, (v, b) in enumerate(zip(case['init'], case['bounds']))])

    def func(x, *args):
        state['fcalls'].append((np.array(x, dtype=np.float64), None if case.get('func_raises') else float(_func_value(case, x))))
        if case.get('func_raises'):
            raise _Boom('objective')
        return (_func_value(case, x), np.zeros(len(x)))
    try:
        (x, f, st) = Minimizer(ScriptImpl(cfg=cfg()), max_repetitions=int(case['max_reps'])).minimize(
            RandomStateService(case.get('rss', 1)), ps, func)
    except _Boom as e:
        return {'err': '_Boom', 'msg': str(e)}, state
    except Exception as e:  # noqa
        return {'err': type(e).__name__, 'msg': str(e)[:200]}, state
    return {'x': [float(v) for v in x], 'f': float(f), 'reps': int(st['skyllh_minimizer_n_reps'])}, state


def wrapper_exc_reqs(case):
    (res, state) = run_wrapper_exc(case)
    bs = ';'.join(_rec(f2b(b[0]), f2b(b[1])) for b in case['bounds'])
    at = ';'.join('E' if a.get('raise') else _rec('1' if a['conv'] else '0', '1' if a['rep'] else '0', f2b(_fl(a['f'])), flist(_fl(a['x'])))
                  for a in case['script'])
    tab = ';'.join(_rec('E' if v is None else f2b(v), flist(x)) for (x, v) in state['fcalls']) or '-'
    return ['wrape %d %s %s %s' % (int(case['max_reps']), bs, at, tab)]


def o_wrapper_exceptions(ctx, case, ans=None):
    """an exception raised by the implementation (any call) or by the objective (re-evaluation after clipping)
    leaves Minimizer.minimize unchanged — never swallowed, never turned into a result — exactly where the model's
    `wrapperE` raises; otherwise the result is the model's."""
    (res, state) = run_wrapper_exc(case)
    if ans is None:
        ans = ctx.driver('C11', wrapper_exc_reqs(case))
    tk = ans[0].split(' ')
    ctx.count('branch:wrapE:' + ('no-exception' if res.get('err') != '_Boom' else 'objective-raises' if case.get('func_raises')
                                 else 'first-call-raises' if len(state['calls']) == 1 else 'later-call-raises'))
    raised_at = [k for k, a in enumerate(case['script']) if a.get('raise')]
    if res.get('err') == '_Boom':
        if tk[0] == 'err' and tk[1] == 'raised':
            return None
        return 'Minimizer.minimize let the exception "%s" through, the model answers %s' % (res['msg'], ans[0][:80])
    if tk[0] == 'err' and tk[1] == 'raised':
        return ('Minimizer.minimize %s although the %s raised (implementation calls made: %d, raising calls in the script: %r): '
                'the exception was swallowed') % ('returned %r' % res.get('x') if 'err' not in res else 'raised %s' % res['err'],
                                                 'objective' if case.get('func_raises') else 'implementation', len(state['calls']), raised_at)
    return wrap_compare(case, res, {'calls': state['calls'], 'fcalls': [c for c in state['fcalls'] if c[1] is not None]}, ans[0])


def gen_wrapper_exc_case(rng):
    cs = gen_wrap_case(rng)
    cs['kind'] = 'wrap_exc'
    mode = rng.choice(['impl-first', 'impl-later', 'impl-later', 'objective', 'none'])
    if mode == 'impl-first':
        cs['script'][0]['raise'] = True
    elif mode == 'impl-later':
        cs['script'][rng.randrange(len(cs['script']))]['raise'] = True
    elif mode == 'objective':
        cs['func_raises'] = True
    cs['ret'] = 2
    cs['cls'] = 'wrap-exc:' + mode
    return cs


# ---- the generic objective of LLHRatio.maximize (value and gradients negated, calls counted)

def run_generic_objective(case):
    """real LLHRatio.maximize (generic path) around a stub implementation that evaluates the objective at the
    scripted points, records what it gets and returns the best of them.  -> records"""
    from skyllh.core.minimizer import MinimizerImpl
    from skyllh.core.random import RandomStateService
    rec = {'got': [], 'kw': None}
    pts = case['points']

    class Probe(MinimizerImpl):
        def minimize(self, initials, bounds, func, func_args=None, **kwargs):
            rec['kw'] = dict(kwargs)
            rec['init'] = np.array(initials, dtype=np.float64)
            best = None
            for p_ in pts:
                x = np.array(p_, dtype=np.float64)
                (f, g) = func(x, *(func_args or ()))
                rec['got'].append((x, float(f), [float(v) for v in np.asarray(g)]))
                if best is None or f < best[1]:
                    best = (x, f)
            return (best[0], best[1], {'success': True})

        def get_niter(self, status):
            return 0

        def has_converged(self, status):
            return True

        def is_repeatable(self, status):
            return False
    llh = build_llh(case, Probe(cfg=cfg()))
    (v, x, st) = llh.maximize(RandomStateService(1))
    rec.update(v=float(v), x=[float(t) for t in x], ncalls=int(st.get('n_llhratio_func_calls', -1)))
    rec['ev'] = [(float(llh.evaluate(np.array(p_, dtype=np.float64))[0]), [float(t) for t in llh.evaluate(np.array(p_, dtype=np.float64))[1]])
                 for p_ in pts]
    return rec


def generic_objective_reqs(case):
    rec = run_generic_objective(case)
    return ['neg %s %s' % (f2b(f), flist(g)) for (f, g) in rec['ev']]


def o_generic_objective(ctx, case, ans=None):
    """the objective LLHRatio.maximize hands to a generic implementation is (-log_lambda, -grads) of evaluate at
    the very point asked for (= the model's `negFunc`), func_provides_grads=True is announced, every call is
    counted in n_llhratio_func_calls, and log_lambda_max is the negated minimum."""
    rec = run_generic_objective(case)
    if ans is None:
        ans = ctx.driver('C11', generic_objective_reqs(case))
    if rec['kw'].get('func_provides_grads') is not True:
        return 'LLHRatio.maximize calls the implementation with kwargs %r (func_provides_grads=True expected)' % rec['kw']
    (init, _) = init_bounds(case)
    if not all(_same(float(a), float(b)) for a, b in zip(rec['init'], init)):
        return 'LLHRatio.maximize starts the implementation at %r, the parameter set has the initials %r' % (rec['init'].tolist(), init)
    for (x, f, g), (ef, eg), a in zip(rec['got'], rec['ev'], ans):
        (mf, mg) = a.split(' ')
        if not (_same(f, -ef) and len(g) == len(eg) and all(_same(a_, -b_) for a_, b_ in zip(g, eg))):
            return ('the objective handed to the implementation returns (%r, %r) at %r, evaluate gives (%r, %r): not the '
                    'negated value and gradients') % (f, g, x.tolist(), ef, eg)
        if not (_same(f, b2f(mf)) and all(_same(a_, b_) for a_, b_ in zip(g, parse_flist(mg)))):
            return 'objective at %r: implementation (%r, %r), model negFunc (%r, %r)' % (x.tolist(), f, g, b2f(mf), parse_flist(mg))
    if rec['ncalls'] != len(rec['got']):
        return 'n_llhratio_func_calls=%d after %d calls of the objective' % (rec['ncalls'], len(rec['got']))
    best = min(range(len(rec['got'])), key=lambda i: rec['got'][i][1])
    if not _same(rec['v'], rec['ev'][best][0]):
        return 'log_lambda_max=%r, the llh at the reported point %r is %r' % (rec['v'], rec['x'], rec['ev'][best][0])
    return None


def gen_generic_objective_case(rng):
    cs = gen_ext_case(rng, 'probe')
    (init, bounds) = init_bounds(cs)
    cs['points'] = [list(init)] + [[b[0] + (b[1] - b[0]) * rng.random() for b in bounds] for _ in range(rng.choice([1, 3, 5]))]
    cs['kind'] = 'ext'
    cs['cls'] = 'generic-objective:n%d' % len(init)
    return cs


# ---- the hypotheses `ns_min <= ns_max`, `ns_min <= ns0 <= ns_max` of the NR theorems are established by the code

def o_parameter_guard(ctx, case):
    """Parameter(name, initial, valmin, valmax) — the only source of initials and bounds of Minimizer.minimize —
    rejects valmin > valmax and an initial value outside [valmin, valmax]; a NaN initial value (which it lets
    through) ends in an exception of Minimizer.minimize, not in a result."""
    from skyllh.core.minimizer import Minimizer, NR1dNsMinimizerImpl
    from skyllh.core.parameters import Parameter, ParameterSet
    from skyllh.core.random import RandomStateService
    (v, lo, hi) = (_fl(case['initial']), _fl(case['lo']), _fl(case['hi']))
    ok = lo <= hi and lo <= v <= hi
    try:
        p_ = Parameter('ns', v, lo, hi)
        acc = True
    except (ValueError, TypeError):
        acc = False
    if acc and not ok and v == v:
        return 'Parameter(initial=%r, valmin=%r, valmax=%r) is accepted: the bounds / initial hypotheses of the minimisers are not guaranteed' % (v, lo, hi)
    if not acc and ok:
        return 'Parameter(initial=%r, valmin=%r, valmax=%r) is rejected' % (v, lo, hi)
    if acc:
        ps = ParameterSet([p_])
        if not (np.array_equal(ps.floating_param_bounds, np.array([[lo, hi]])) and
                (ps.floating_param_initials[0] == v or v != v)):
            return 'ParameterSet hands out initials %r / bounds %r for Parameter(%r, %r, %r)' % (
                ps.floating_param_initials, ps.floating_param_bounds, v, lo, hi)
        a1, a2 = ps.floating_param_initials, ps.floating_param_initials
        if np.shares_memory(a1, a2):
            return 'ParameterSet.floating_param_initials hands out the same array twice (a minimiser writing into it would change the next start)'
        if v != v:
            with warnings.catch_warnings():
                warnings.simplefilter('ignore')
                try:
                    r = Minimizer(NR1dNsMinimizerImpl(cfg=cfg())).minimize(RandomStateService(1), ps, lambda x: ((x[0] - 1) ** 2, 2 * (x[0] - 1), 2.0))
                    return 'a NaN initial value gives the silent result %r' % (r[:2],)
                except ValueError:
                    pass
    return None


def gen_parameter_case(rng):
    lo = rng.choice([0.0, -1.0, 2.5])
    hi = lo + rng.choice([0.0, 1.0, 10.0, -1.0])
    v = rng.choice([lo, hi, 0.5 * (lo + hi), lo - 1.0, hi + 1.0, float(np.nextafter(hi, np.inf)), float(np.nextafter(lo, -np.inf)), float('nan')])
    return {'kind': 'parameter', 'initial': v, 'lo': lo, 'hi': hi, 'cls': 'parameter-guard'}


# ---- the objective of the Newton-Raphson path of LLHRatio.maximize, probed at arbitrary points

def run_nr_objective(case):
    """real LLHRatio.maximize (NR path: the implementation *is a* NR1dNsMinimizerImpl) around a probing implementation
    that evaluates the objective at the scripted points — which differ in every parameter, also the source-mapped
    ones — records what it gets and returns the best of them."""
    from skyllh.core.minimizer import NR1dNsMinimizerImpl
    from skyllh.core.random import RandomStateService
    rec = {'got': [], 'kw': None}
    pts = case['points']

    class ProbeNR(NR1dNsMinimizerImpl):
        def minimize(self, initials, bounds, func, func_args=None, **kwargs):
            rec['kw'] = dict(kwargs)
            best = None
            for p_ in pts:
                x = np.array(p_, dtype=np.float64)
                t = func(x, *(func_args or ()))
                rec['got'].append((x, tuple(float(v) for v in t)))
                if best is None or t[0] < best[1]:
                    best = (x, t[0])
            return (best[0], best[1], {'warnflag': 0, 'warnreason': '', 'niter': 0, 'last_nr_step': 0.0})
    llh = build_llh(case, ProbeNR(cfg=cfg()))
    (v, x, st) = llh.maximize(RandomStateService(1))
    idx = layout(case)[1]
    rec.update(v=float(v), x=[float(t) for t in x], idx=idx)
    rec['ev'] = []
    for p_ in pts:      # fresh evaluations, each on its own
        x_ = np.array(p_, dtype=np.float64)
        (f, g) = llh.evaluate(x_)
        g2 = llh.calculate_ns_grad2(ns=x_[idx], ns_pidx=idx, src_params_recarray=None)
        rec['ev'].append((float(f), [float(t) for t in g], float(g2)))
    return rec


def nr_objective_reqs(case):
    rec = run_nr_objective(case)
    return ['negnr %s %s %d %s' % (f2b(f), flist(g), rec['idx'], f2b(g2)) for (f, g, g2) in rec['ev']]


def o_nr_objective(ctx, case, ans=None):
    """the objective LLHRatio.maximize hands to a Newton-Raphson implementation returns, at *every* point asked for
    (also points that differ from the initial values in the parameters mapped to the sources), the negated value,
    ns-gradient and second ns-derivative of a fresh llh evaluation at that point (= the model's `negNrFunc`), the
    index of ns is announced, and log_lambda_max is the llh at the reported point."""
    rec = run_nr_objective(case)
    if ans is None:
        ans = ctx.driver('C11', nr_objective_reqs(case))
    idx = rec['idx']
    if idx != 0 and rec['kw'].get('ns_pidx') != idx:
        return 'LLHRatio.maximize calls the NR implementation with kwargs %r, ns is fit parameter %d' % (rec['kw'], idx)
    for (x, t), (ef, eg, eg2), a in zip(rec['got'], rec['ev'], ans):
        want = (-ef, -eg[idx], -eg2)
        if not all(_same(p_, q_) for p_, q_ in zip(t, want)):
            return ('the objective LLHRatio.maximize hands to the NR implementation returns %r at %r, a fresh evaluation there gives '
                    '(-llh, -dllh/dns, -d2llh/dns2) = %r: it is not a function of the point asked for (parameter layout %s)') % (
                        t, x.tolist(), want, ','.join(layout(case)[0]))
        m = [b2f(v) for v in a.split(' ')] if a != 'ERR' else None
        if m is None or not all(_same(p_, q_) for p_, q_ in zip(t, m)):
            return 'NR objective at %r: implementation %r, model negNrFunc %r' % (x.tolist(), t, m)
    best = min(range(len(rec['got'])), key=lambda i: rec['got'][i][1][0])
    if not (_same(rec['v'], rec['ev'][best][0]) and all(_same(p_, q_) for p_, q_ in zip(rec['x'], rec['got'][best][0]))):
        return 'log_lambda_max=%r at %r, the llh evaluated at the point the implementation reported (%r) is %r' % (
            rec['v'], rec['x'], rec['got'][best][0].tolist(), rec['ev'][best][0])
    return None


def gen_nr_objective_case(rng):
    cls = rng.choice(['interior', 'interior', 'upper'])
    obj = gen_llh_obj(rng, cls)
    obj['c'] = [rng.uniform(-1, 1) for _ in obj['R']]
    lo, hi, ns0 = gen_bounds_llh(rng, obj, cls)
    cs = {'kind': 'nr', 'obj': obj, 'ns0': ns0, 'lo': lo, 'hi': hi, 'tol': 1e-3, 'max_steps': 100,
          'order': rng.choice([['ns', 'p2'], ['p2', 'ns'], ['ns', 'p2', 'd'], ['d', 'p2', 'ns']]),
          'p2lo': 1.0, 'p2hi': 4.0, 'p20': rng.choice([1.0, 2.0, 1.0 + 3 * rng.random()])}
    (init, bounds) = init_bounds(cs)
    cs['points'] = [list(init)] + [[b[0] + (b[1] - b[0]) * rng.random() for b in bounds] for _ in range(rng.choice([2, 4]))]
    cs['cls'] = 'nr-objective:' + ','.join(cs['order'])
    return cs


# ---- ScipyMinimizerImpl: what happens to the bounds, per method

SCIPY_METHODS = ['L-BFGS-B', 'TNC', 'SLSQP', 'COBYLA', 'Nelder-Mead', 'BFGS', 'Powell', 'CG', 'trust-constr', 'Newton-CG', 'COBYQA']


def bounds_mode_reqs(case):
    return ['bmode %s' % _hex(case['method'])]


def o_bounds_mode(ctx, case, ans=None):
    """per scipy method: the bounds reach scipy natively, as (COBYLA) inequality constraints, or are dropped —
    as the model's `scipyBoundsMode` says; when they reach scipy they are the bounds of the parameter set."""
    from skyllh.core.minimizer import ScipyMinimizerImpl
    B = np.array(case['bounds'], dtype=np.float64)
    with _CaptureMinimize() as cap, warnings.catch_warnings():
        warnings.simplefilter('ignore')
        try:
            ScipyMinimizerImpl(case['method'], cfg=cfg()).minimize(np.array([0.5 * (b[0] + b[1]) for b in B]), B,
                                                                   lambda x: (0.0, np.zeros(len(x))), **({} if case.get('grads', True) else {'func_provides_grads': False}))
        except AttributeError:
            pass      # logger.warn may be missing; what was captured before still counts
    if ans is None:
        ans = ctx.driver('C11', bounds_mode_reqs(case))
    b, c = cap.seen.get('bounds'), cap.seen.get('constraints')
    got = 'native' if b is not None else ('constraints' if c else 'dropped')
    if not cap.seen:
        got = 'dropped-before-call'
    if got != ans[0] and not (got == 'dropped-before-call' and ans[0] == 'dropped'):
        return 'ScipyMinimizerImpl[%s]: the bounds are %s, the model says %s' % (case['method'], got, ans[0])
    if b is not None and not np.array_equal(np.asarray(b, dtype=np.float64), B):
        return 'ScipyMinimizerImpl[%s] hands the bounds %r to scipy, given were %r' % (case['method'], b, case['bounds'])
    if cap.seen and cap.seen.get('jac') != case.get('grads', True):
        return 'ScipyMinimizerImpl[%s]: jac=%r for func_provides_grads=%r' % (case['method'], cap.seen.get('jac'), case.get('grads', True))
    return None


def gen_box_case(rng, impl, n=None, active=None):
    n = n or rng.choice([2, 3])
    bounds = []
    for _ in range(n):
        lo = rng.choice([0.0, -1.0, 1.0, 2.0])
        bounds.append([lo, lo + rng.choice([1.0, 2.0, 3.0])])
    # which parameters have their unconstrained optimum outside the box: first / middle / last / corner / none
    if active is None:
        active = rng.choice(['first', 'last', 'middle', 'corner', 'two', 'none'])
    idx = {'first': [0], 'last': [n - 1], 'middle': [n // 2 if n > 2 else 0], 'corner': list(range(n)),
           'two': rng.sample(range(n), 2), 'none': []}[active]
    m = []
    for i, b in enumerate(bounds):
        w = b[1] - b[0]
        if i in idx:
            m.append(rng.choice([b[0] - w * rng.uniform(0.5, 2.0), b[1] + w * rng.uniform(0.5, 2.0)]))
        else:
            m.append(b[0] + w * rng.uniform(0.15, 0.85))
    # SPD matrix with moderate condition number: D^(1/2) C D^(1/2), C a correlation matrix
    d = [math.exp(rng.uniform(-0.7, 0.7)) for _ in range(n)]
    rho = rng.choice([0.0, 0.0, rng.uniform(-0.6, 0.6), rng.uniform(-0.6, 0.6)])
    A = [[(d[i] if i == j else rho * math.sqrt(d[i] * d[j]) / (1 + abs(i - j))) for j in range(n)] for i in range(n)]
    where = rng.choice(['inside', 'inside', 'on-bound', 'corner'])
    init = []
    for b in bounds:
        if where == 'inside':
            init.append(b[0] + (b[1] - b[0]) * rng.uniform(0.1, 0.9))
        elif where == 'corner':
            init.append(rng.choice(b))
        else:
            init.append(rng.choice([b[0], b[1], b[0] + (b[1] - b[0]) * rng.random()]))
    return {'kind': 'box', 'impl': impl, 'bounds': bounds, 'm': m, 'A': A, 'init': init, 'grads': rng.random() < 0.7,
            'rss': rng.randrange(1, 1000), 'cls': 'box:%s:n%d:%s' % (impl, n, active)}


def gen_cobyla_case(rng):
    n = rng.choice([1, 2, 3, 4])
    bounds = []
    for _ in range(n):
        lo = rng.choice([0.0, -1.0, 2.0, rng.uniform(-5, 5)])
        bounds.append([lo, lo + rng.choice([0.0, 1.0, 2.5])])
    xs = []
    for _ in range(6):
        x = []
        for b in bounds:
            x.append(rng.choice([b[0], b[1], b[0] + (b[1] - b[0]) * rng.random(), b[0] - rng.random() - 1e-9, b[1] + rng.random() + 1e-9]))
        xs.append(x)
    # exactly one parameter outside, each parameter in turn
    for i, b in enumerate(bounds):
        for v in (b[0] - 0.5, b[1] + 0.5):
            x = [bb[0] + (bb[1] - bb[0]) * 0.5 for bb in bounds]
            x[i] = v
            xs.append(x)
    return {'kind': 'cobyla', 'bounds': bounds, 'xs': xs, 'cls': 'cobyla-constraints:n%d' % n}


def linspace_reqs(case):
    lo, hi, st = case['p2lo'], case['p2hi'], case['p2step']
    n = int((hi - lo) / st) + 1
    if case.get('n') is not None:     # directed: linspace alone with a given number of points
        return ['count %s %s %s' % (f2b(0.0), f2b(float(case['n'] - 1)), f2b(1.0)), 'linspace %s %s %d' % (f2b(lo), f2b(hi), case['n'])]
    return ['count %s %s %s' % (f2b(lo), f2b(hi), f2b(st)), 'linspace %s %s %d' % (f2b(lo), f2b(hi), n)]


def o_linspace(ctx, case, ans=None):
    """numpy.linspace / int((hi-lo)/step)+1 as modelled (used for the scan values) — model vs numpy."""
    lo, hi, st = case['p2lo'], case['p2hi'], case['p2step']
    n = int((hi - lo) / st) + 1 if case.get('n') is None else int(case['n'])
    if ans is None:
        ans = ctx.driver('C11', linspace_reqs(case))
    with np.errstate(all='ignore'):
        d = (hi - lo) / (n - 1) if n > 1 else None
    ctx.count('branch:linspace:' + ('single-point' if n <= 1 else 'step-underflows-to-zero' if (d == 0 and hi != lo) else 'regular'))
    if int(ans[0]) != n:
        return 'scan count: python %d, model %s' % (n, ans[0])
    got = parse_flist(ans[1])
    want = [float(v) for v in np.linspace(lo, hi, n)]
    if len(got) != len(want) or not all(_same(a, b) for a, b in zip(got, want)):
        return 'linspace(%r, %r, %d): numpy %r, model %r' % (lo, hi, n, want[:5], got[:5])
    return None


EXT_IMPLS = ['lbfgs', 'L-BFGS-B', 'SLSQP', 'TNC', 'COBYLA', 'Nelder-Mead', 'BFGS', 'Powell', 'CG', 'trust-constr']


ORACLES = {
    'nr_contract': o_nr_contract, 'maximize_nr': o_maximize_nr, 'wrapper_contract': o_wrapper_contract,
    'external_contract': o_external_contract, 'corr_nr': o_corr_nr, 'corr_wrap': o_corr_wrap, 'linspace': o_linspace,
    'box_contract': o_box_contract, 'cobyla_constraints': o_cobyla_constraints,
    'scan_ge_initial': o_scan_ge_initial, 'scan_all_converged': o_scan_all_converged, 'crs_contract': o_crs_contract,
    'success_floor': o_success_floor, 'status_tables': o_status_tables,
    'history_contract': o_history_contract, 'functor_history': o_functor_history,
    'lbfgs_scripted': o_lbfgs_scripted, 'wrapper_exceptions': o_wrapper_exceptions, 'generic_objective': o_generic_objective,
    'bounds_mode': o_bounds_mode, 'parameter_guard': o_parameter_guard, 'nr_objective': o_nr_objective,
    'reeval_shapes': r7.o_reeval_shapes, 'status_literals': r7.o_status_literals, 'nr_layout': r7.o_nr_layout, 'maximize_dispatch': r7.o_maximize_dispatch,
}


# --------------------------------------------------------------------------------------------------
# generators

def gen_llh_obj(rng, cls):
    """per-event ratios R_i and total event count N for the wanted class of landscape."""
    E = rng.choice([1, 2, 3, 5, 8, 20, 60])
    N = E + rng.choice([0, 0, 1, 5, 50, 1000])
    if cls == 'flat':
        return {'shape': 'llh', 'R': [1.0] * E, 'N': E}
    if cls == 'lower':          # all background like: llh decreasing in ns
        R = [rng.choice([0.0, rng.random(), rng.random() * 0.5, 1.0]) for _ in range(E)]
        if all(r == 1.0 for r in R) and N == E:
            R[0] = 0.5
        return {'shape': 'llh', 'R': R, 'N': N}
    if cls == 'upper':          # very signal like
        R = [math.exp(rng.uniform(2, 8)) for _ in range(E)]
        return {'shape': 'llh', 'R': R, 'N': N}
    R = [math.exp(rng.gauss(0, 1.5)) for _ in range(E)]
    R[rng.randrange(E)] = math.exp(rng.uniform(1, 5))
    if rng.random() < 0.3:
        R[rng.randrange(E)] = 0.0
    return {'shape': 'llh', 'R': R, 'N': N}


def gen_bounds_llh(rng, obj, cls):
    N = obj['N']
    lo = rng.choice([0.0, 0.0, 0.0, -0.5 * rng.random(), 0.25])
    hi = rng.choice([0.5 * N, 0.9 * N, min(N * 0.9, 10.0), lo + 1.0 + rng.random() * N * 0.4])
    if cls == 'upper':
        hi = rng.choice([lo + 0.5, lo + 0.05 * N + 0.1, 0.3 * N])
    hi = min(hi, 0.95 * N)
    if not lo < hi:
        lo, hi = 0.0, 0.5 * N
    ns0 = rng.choice([lo, hi, lo + (hi - lo) * rng.random(), lo + (hi - lo) * rng.random(), min(hi, lo + 1.0)])
    return lo, hi, ns0


def gen_tol_steps(rng):
    c = constants()
    tol = rng.choice([c['ns_tol'], c['ns_tol'], c['ns_tol'], 1e-6, 1e-1, 1.0])
    ms = rng.choice([c['max_steps'], c['max_steps'], c['max_steps'], 0, 1, 2, 3, 5, 10, -1, -4])
    return tol, ms


def gen_syn_case(rng):
    lo = rng.choice([0.0, -5.0, 1.0, -100.0])
    hi = lo + rng.choice([1.0, 10.0, 7.5, 1000.0])
    sh = rng.choice(['quad', 'quad', 'quadneg', 'quartic', 'sqrt', 'cos', 'linear', 'flat', 'opt_on_bound', 'threshold'])
    tol, ms = gen_tol_steps(rng)
    ns0 = rng.choice([lo, hi, lo + (hi - lo) * rng.random(), lo + (hi - lo) * rng.random()])
    span = hi - lo
    if sh == 'quad':
        m = rng.choice([lo + span * rng.random(), lo - span * rng.random(), hi + span * rng.random(), lo, hi])
        obj = {'shape': 'quad', 'p': [math.exp(rng.uniform(-3, 3)), m, rng.uniform(-5, 5)]}
    elif sh == 'quadneg':
        obj = {'shape': 'quad', 'p': [-math.exp(rng.uniform(-3, 3)), lo + span * rng.random(), 0.0]}
    elif sh == 'quartic':
        obj = {'shape': 'quartic', 'p': [math.exp(rng.uniform(-2, 2)), lo + span * rng.uniform(-0.5, 1.5)]}
    elif sh == 'sqrt':
        obj = {'shape': 'sqrt', 'p': [lo + span * rng.uniform(-0.5, 1.5)]}
    elif sh == 'cos':
        obj = {'shape': 'cos', 'p': [rng.uniform(0.5, 3), rng.uniform(0.1, 5)]}
    elif sh == 'linear':
        obj = {'shape': 'linear', 'p': [rng.choice([-1, 1]) * math.exp(rng.uniform(-3, 3)), 0.5]}
    elif sh == 'flat':
        obj = {'shape': 'flat', 'p': [rng.uniform(-2, 2)]}
    elif sh == 'opt_on_bound':
        # optimum exactly on a bound, start on that bound: step is exactly -0.0 / +0.0 there
        b = rng.choice([lo, hi])
        obj = {'shape': 'quad', 'p': [rng.choice([0.5, 1.0, 2.0]), b, 0.0]}
        ns0 = rng.choice([b, b, lo + span * rng.random()])
    else:
        # exact thresholds of the loop condition: |step| == ns_tol or |f'| == slope threshold at the first
        # evaluated point; elsewhere a quadratic whose minimum is the point reached by that step.  The threshold
        # steps use f'' = a power of two, so -f'/f'' is exact however the division is written (a rewrite like
        # -f'*(1/f'') does not flip the decision); the slope thresholds are values of the objective, not computed.
        thr = constants()['slope_thr']
        ns0 = lo + span * rng.choice([0.25, 0.5])
        which = rng.choice(['step', 'slope', 'step+', 'slope+'])
        sgn = rng.choice([-1.0, 1.0])
        if which == 'step':
            fp, fpp = sgn * tol * 4.0, 4.0          # step = -+tol exactly, |fp| = 4 tol
            if abs(fp) > thr:
                fp, fpp = sgn * tol * 2.0 ** -10, 2.0 ** -10
        elif which == 'step+':
            fp, fpp = sgn * float(np.nextafter(tol, 2 * tol)) * 2.0 ** -10, 2.0 ** -10
        elif which == 'slope':
            fp, fpp = sgn * thr, thr / (tol * 0.5) if tol * 0.5 > 0 else 1e6
        elif which == 'slope+':
            fp, fpp = sgn * float(np.nextafter(thr, 1.0)), thr / (tol * 0.5)
        else:
            fp, fpp = sgn * thr, thr / tol
        step = -F64(fp) / F64(fpp)
        nxt = float(F64(ns0) + step)
        obj = {'shape': 'explicit', 'points': [[ns0, 1.0, fp, fpp]], 'p': [1.0, nxt, 0.0]}
    cs = {'kind': 'nr', 'obj': obj, 'ns0': ns0, 'lo': lo, 'hi': hi, 'tol': tol, 'max_steps': ms, 'cls': 'syn:' + sh}
    if rng.random() < 0.15:
        cs['order'] = rng.choice([['d', 'ns'], ['ns', 'd'], ['d', 'd', 'ns']][:2])
    if rng.random() < 0.3 and sh != 'threshold':
        gen_forms(rng, cs)
    return cs


def gen_llh_case(rng):
    cls = rng.choice(['interior', 'interior', 'lower', 'upper', 'flat'])
    obj = gen_llh_obj(rng, cls)
    lo, hi, ns0 = gen_bounds_llh(rng, obj, cls)
    tol, ms = gen_tol_steps(rng)
    cs = {'kind': 'nr', 'obj': obj, 'ns0': ns0, 'lo': lo, 'hi': hi, 'tol': tol, 'max_steps': ms, 'cls': 'llh:' + cls}
    # NR-1D with more than one floating parameter, ns first / in the middle / last
    if rng.random() < 0.4:
        cs['order'] = rng.choice([['ns', 'p2'], ['p2', 'ns'], ['d', 'ns'], ['ns', 'd'], ['d', 'p2', 'ns'], ['p2', 'ns', 'd']])
        if 'p2' in cs['order']:
            cs.update(p2lo=1.0, p2hi=4.0, p20=rng.choice([1.0, 4.0, 1.0 + 3 * rng.random()]))
            if rng.random() < 0.7:
                obj['c'] = [rng.uniform(-1, 1) for _ in obj['R']]
    if rng.random() < 0.3:
        gen_forms(rng, cs)
    return cs


def gen_scan_case(rng):
    tol, ms = gen_tol_steps(rng)
    p2lo = rng.choice([1.0, 0.0, -2.0])
    p2hi = p2lo + rng.choice([0.0, 0.3, 1.0, 2.0, 3.0])
    p2step = rng.choice([0.1, 0.25, 0.5, 1.0, 0.3, 5.0])
    if rng.random() < 0.5:
        cls = rng.choice(['interior', 'interior', 'lower', 'upper'])
        obj = gen_llh_obj(rng, cls)
        obj['c'] = [rng.uniform(-1, 1) for _ in obj['R']]
        lo, hi, ns0 = gen_bounds_llh(rng, obj, cls)
        p2lo, p2hi = 1.0, rng.choice([1.0, 2.0, 4.0])
        tag = 'scan-llh:' + cls
    else:
        lo = rng.choice([0.0, -5.0])
        hi = lo + rng.choice([1.0, 10.0])
        ns0 = rng.choice([lo, hi, lo + (hi - lo) * rng.random()])
        if rng.random() < 0.4:
            obj = {'shape': 'flat2', 'p': [math.exp(rng.uniform(-2, 2)), lo + (hi - lo) * rng.uniform(-0.3, 1.3)]}
            tag = 'scan-syn:ties'
        else:
            obj = {'shape': 'quad2', 'p': [math.exp(rng.uniform(-2, 2)), lo + (hi - lo) * rng.random(), rng.uniform(-1, 1),
                                           p2lo + (p2hi - p2lo) * rng.uniform(-0.2, 1.2), rng.choice([0.0, 1.0, 3.0])]}
            tag = 'scan-syn:quad2'
    p20 = p2lo + (p2hi - p2lo) * rng.random()
    cs = {'kind': 'scan', 'obj': obj, 'ns0': ns0, 'lo': lo, 'hi': hi, 'tol': tol, 'max_steps': ms,
          'p2lo': p2lo, 'p2hi': p2hi, 'p2step': p2step, 'p20': p20, 'cls': tag}
    if rng.random() < 0.4:
        cs['order'] = rng.choice([['p2', 'ns'], ['p2', 'ns'], ['ns', 'p2', 'd'], ['p2', 'ns', 'd']])
    if rng.random() < 0.5:
        gen_forms(rng, cs)
    return cs


def gen_wrap_case(rng):
    n = rng.choice([1, 1, 2, 3])
    bounds = []
    for _ in range(n):
        lo = rng.choice([0.0, -1.0, 2.0])
        bounds.append([lo, lo + rng.choice([0.0, 1.0, 5.0])])
    init = [b[0] + (b[1] - b[0]) * rng.random() for b in bounds]
    mr = rng.choice([0, 1, 2, 3, 5, constants()['max_reps']])
    target = [rng.uniform(-2, 6) for _ in range(n)]
    pattern = rng.choice(['first', 'kth', 'never-rep', 'never-norep', 'exactly-max', 'max+1'])
    nfail = {'first': 0, 'kth': rng.randrange(0, 4), 'never-rep': 10 ** 6, 'never-norep': rng.randrange(0, 3),
             'exactly-max': mr, 'max+1': mr + 1}[pattern]
    L = min(nfail, mr + 1) + 2
    case = {'kind': 'wrap', 'bounds': bounds, 'init': init, 'max_reps': mr, 'ret': rng.choice([1, 2, 3]),
            'target': target, 'cls': 'wrap:' + pattern, 'rss': rng.randrange(1, 1000)}
    script = []
    for k in range(L):
        mode = rng.choice(['in', 'in', 'below', 'above', 'edge', 'mixed', 'mixed', 'nonfinite'])
        x = []
        for b in bounds:
            w = b[1] - b[0]
            m = mode if mode != 'mixed' else rng.choice(['in', 'below', 'above', 'edge'])
            if m == 'nonfinite':
                m = rng.choice(['in', 'nan', 'inf', '-inf']) if len(x) + 1 < len(bounds) or x else rng.choice(['nan', 'inf', '-inf'])
            if m in ('nan', 'inf', '-inf'):
                x.append(float(m))
                continue
            if m == 'in':
                x.append(b[0] + w * rng.random())
            elif m == 'below':
                x.append(b[0] - rng.choice([1e-12, 1e-3, 1.0]) * (1 + abs(b[0])))
            elif m == 'above':
                x.append(b[1] + rng.choice([1e-12, 1e-3, 1.0]) * (1 + abs(b[1])))
            else:
                x.append(rng.choice(b))
        conv = k >= nfail
        rep = True if pattern != 'never-norep' else (k < nfail - 1)
        if pattern == 'never-norep' and k >= nfail:
            conv = False
        f = float(_func_value(case, x)) if rng.random() < 0.85 else rng.choice([rng.uniform(-1, 1), float('nan')])
        if any(v != v or abs(v) == float('inf') for v in x):
            case['cls'] = 'wrap:nonfinite-attempt'

        script.append({'x': x, 'f': f, 'conv': bool(conv), 'rep': bool(rep)})
    case['script'] = script
    return case


def gen_ext_case(rng, impl):
    cls = rng.choice(['interior', 'interior', 'lower', 'upper', 'flat'])
    obj = gen_llh_obj(rng, cls)
    lo, hi, ns0 = gen_bounds_llh(rng, obj, cls)
    case = {'kind': 'ext', 'impl': impl, 'obj': obj, 'ns0': ns0, 'lo': lo, 'hi': hi, 'cls': 'ext:%s:%s' % (impl, cls),
            'tol': 1e-3, 'max_steps': 100}
    if cls != 'flat' and rng.random() < 0.4:
        obj['c'] = [rng.uniform(-1, 1) for _ in obj['R']]
        case.update(p2lo=1.0, p2hi=4.0, p20=rng.choice([1.0, 2.0, 4.0, 1.0 + 3 * rng.random()]))
    return case


def _classify(res):
    import re
    m = re.search(r'raised (\w+)', res)
    if m:
        return 'raises-' + m.group(1)
    for key, tag in (('not the function value', 'fmin-not-a-value'), ('no member of the scan grid', 'scan-grid'), ('outside', 'out-of-bounds'), ('func(xmin', 'fmin-inconsistent'), ('silently', 'silent-nonconverged'),
                     ('warnflag', 'flag'), ('stationary', 'not-stationary'), ('initial point', 'worse-than-initial'),
                     ('containing NaN', 'nan-passed-through'), ('must not vary', 'wrong-parameter-varied'), ('initial value of the second', 'scan-worse-than-initial'), ('dropped silently', 'scan-point-not-converged'), ('log_lambda_max', 'maximize-negation'), ('repetitions', 'repetitions'), ('first best', 'scan-best'),
                     ('on the same object', 'stale-state-between-minimisations'), ('FuncWithGradsFunctor', 'functor-cache'), ('swallowed', 'exception-swallowed'), ('scripted optimiser', 'lbfgs-restart-logic'), ('is_repeatable', 'status-table'), ('has_converged', 'status-table'), ('function of the point', 'objective-not-a-function-of-the-point'), ('negated value', 'objective-negation'), ('the bounds are', 'bounds-mode'), ('handed in', 'input-mutated-or-aliased'), ('float64 ndarray', 'xmin-type'), ('given the bounds', 'impl-out-of-bounds'), ('constrained optimum', 'not-constrained-optimum'),
                     ('inequality constraints', 'cobyla-constraints'), ('COBYLA constraints', 'cobyla-constraints')):
        if key in res:
            return tag
    return 'wrong-result'


# --------------------------------------------------------------------------------------------------

# ---- which branches of the modelled functions a run went through (an un-hit branch is an untied branch)

ALL_BRANCHES = [
    'nr:error-initial-below-ns_min', 'nr:exit-boundary-lower', 'nr:exit-boundary-upper', 'nr:exit-max_steps', 'nr:exit-converged',
    'nr:max_steps=0', 'nr:max_steps<0', 'nr:newtonStep-flat-guard', 'nr:newtonStep-division', 'nr:clip-low', 'nr:clip-high', 'nr:clip-none',
    'nr:keepGoing-by-step', 'nr:keepGoing-by-slope-only', 'nr:degenerate-ns_min=ns_max', 'nr:boundary-flag-lower-with-upward-step',
    'scan:later-value-better', 'scan:earlier-value-kept', 'scan:tie-first-kept', 'scan:error-propagates', 'scan:no-grid-error', 'scan:single-value',
    'linspace:single-point', 'linspace:regular', 'linspace:step-underflows-to-zero',
    'wrap:error-not-converged', 'wrap:error-nan', 'wrap:clipped-and-re-evaluated', 'wrap:passed-through',
    'wrap:stop-converged', 'wrap:stop-not-repeatable', 'wrap:stop-max_repetitions', 'wrap:max_repetitions=0',
    'clip1:above', 'clip1:below', 'clip1:inside',
    'wrapE:first-call-raises', 'wrapE:later-call-raises', 'wrapE:objective-raises', 'wrapE:no-exception',
    'functorStep:hit', 'functorStep:no-hit-in-this-case',
] + r7.R7_BRANCHES


def _newton(t):
    with np.errstate(all='ignore'):
        return F64(0.0) if (t[1] == 0 and t[2] == 0) else -F64(t[1]) / F64(t[2])


def nr_branches(ctx, cs, res, obj):
    """branches of `nr` / `nrLoop` / `scanFold` a case went through, from what the implementation did (it agrees with
    the model on every such case, else the correspondence has already complained)"""
    B = lambda b: ctx.count('branch:' + b)   # noqa
    lo, hi = cs['lo'], cs['hi']
    (_, ii, jj) = layout(cs)
    if 'err' in res:
        if cs['ns0'] < lo:
            B('nr:error-initial-below-ns_min')
            if cs['kind'] == 'scan':
                B('scan:error-propagates')
        elif cs['kind'] == 'scan':
            B('scan:no-grid-error')
        return
    if cs['kind'] == 'nr':
        B({-2: 'nr:exit-boundary-lower', -1: 'nr:exit-boundary-upper', 0: 'nr:exit-converged', 1: 'nr:exit-max_steps'}[res['flag']])
        if cs['max_steps'] == 0:
            B('nr:max_steps=0')
        if cs['max_steps'] < 0:
            B('nr:max_steps<0')
        if lo == hi:
            B('nr:degenerate-ns_min=ns_max')
            if res['flag'] == -2 and res['step'] > 0:
                B('nr:boundary-flag-lower-with-upward-step')
    calls = obj.calls
    thr, tol = constants()['slope_thr'], cs['tol']
    for k, (x, t) in enumerate(calls):
        st = _newton(t)
        if t[1] == 0 and t[2] == 0:
            B('nr:newtonStep-flat-guard')
        else:
            B('nr:newtonStep-division')
        same_run = k + 1 < len(calls) and (jj is None or calls[k + 1][0][jj] == x[jj])
        if same_run and not (k + 2 == len(calls) or (jj is not None and calls[k + 2][0][jj] != x[jj])) or (same_run and cs['kind'] == 'nr' and k + 2 < len(calls)):
            with np.errstate(all='ignore'):
                raw = F64(x[ii]) + st
            B('nr:clip-low' if raw < lo else 'nr:clip-high' if raw > hi else 'nr:clip-none')
            B('nr:keepGoing-by-step' if tol < abs(st) else 'nr:keepGoing-by-slope-only' if abs(t[1]) > thr else 'nr:clip-none')
    if cs['kind'] == 'scan':
        pts = _scan_points(cs, obj.llh)
        if len(pts) == 1:
            B('scan:single-value')
        best = None
        for (p2, ff, fl) in pts:
            if best is None:
                best = ff
            elif ff < best:
                B('scan:later-value-better')
                best = ff
            elif ff == best:
                B('scan:tie-first-kept')
            else:
                B('scan:earlier-value-kept')


def wrap_branches(ctx, cs, res, state):
    B = lambda b: ctx.count('branch:' + b)   # noqa
    script, mr = cs['script'], int(cs['max_reps'])
    k = 0
    while k < mr and (not script[min(k, len(script) - 1)]['conv']) and script[min(k, len(script) - 1)]['rep']:
        k += 1
    last = script[min(k, len(script) - 1)]
    if mr == 0:
        B('wrap:max_repetitions=0')
    B('wrap:stop-converged' if last['conv'] else 'wrap:stop-not-repeatable' if not last['rep'] else 'wrap:stop-max_repetitions')
    xs = _fl(last['x'])
    if not last['conv']:
        B('wrap:error-not-converged')
    elif any(v != v for v in xs):
        B('wrap:error-nan')
    else:
        out = [v < b[0] or v > b[1] for v, b in zip(xs, cs['bounds'])]
        B('wrap:clipped-and-re-evaluated' if any(out) else 'wrap:passed-through')
        if any(out):
            for v, b in zip(xs, cs['bounds']):
                B('clip1:above' if v > b[1] else 'clip1:below' if v < b[0] else 'clip1:inside')


def run(ctx):
    rng = ctx.rng
    c = constants()
    ctx.rule = ('NR-1D and NR+scan: real negated llh-ratio landscapes from synthetic trial data (optimum interior / at lower '
                'bound / at upper bound / flat; 1..60 events, zero ratios, pure-background counts) and synthetic objectives '
                '(convex, concave, quartic, sqrt (diverging Newton), cosine, linear (infinite steps), flat, optimum exactly on a '
                'bound, exact loop thresholds); random bounds, initial values incl. on a bound, ns_tol in {default,1e-6,0.1,1}, '
                'max_steps in {default,0,1,2,3,5,10}; wrapper: scripted attempt sequences (converged first / k-th / never, '
                'repeatable or not, exactly max_repetitions, in / below / above / on the bounds, objective returning 1, 2 or 3 '
                'values); external optimisers on llh landscapes. A case is non-trivial when distinct by its full input.')
    ctx.trusted_base += ['correspondence harness harness/props/c11.py (replay of the recorded objective triples, bit-exact then 1e-9)',
                         'numpy.linspace semantics re-implemented in Model/Minimizer.lean (compared on every run)',
                         'scipy.optimize (L-BFGS-B, generic methods), iminuit: wrapper contract observed only',
                         'IEEE rounding is outside the theorems; NaN-free objectives']
    ctx.assumptions += ['objectives return finite numbers (no NaN)', 'ns_min <= ns_max, ns_min <= initial value <= ns_max: established by Parameter (checked on every run by the parameter_guard oracle); direct callers of the implementations must provide it',
                        'wrapper: every implementation returns as many fit values as there are bounds (hlen)',
                        'CRSMinimizerImpl not exercised (nlopt is not installed)']
    cases = []
    for _ in range(ctx.n(140, 3000)):
        cases.append(gen_llh_case(rng))
    for _ in range(ctx.n(260, 6000)):
        cases.append(gen_syn_case(rng))
    for _ in range(ctx.n(60, 1200)):
        cases.append(gen_scan_case(rng))
    # a few initial values outside the bounds (ValueError below ns_min; above ns_max is pulled back)
    for _ in range(ctx.n(6, 60)):
        cs = gen_syn_case(rng)
        cs['ns0'] = cs['lo'] - 1.0 if rng.random() < 0.5 else cs['hi'] + 1.0
        if cs.get('forms', {}).get('init') in ('int', 'f32'):
            cs['forms']['init'] = 'list'
        cs['cls'] = 'syn:init-outside'
        cases.append(cs)
    # directed: degenerate bounds ns_min = ns_max (incl. the flag -2 reported for an upward step), scan whose inner
    # minimiser raises, scan with one scan value
    for _ in range(ctx.n(6, 60)):
        cs = gen_syn_case(rng)
        cs['hi'] = cs['lo']
        cs['ns0'] = cs['lo']
        cs['obj'] = {'shape': 'quad', 'p': [1.0, cs['lo'] + rng.choice([-1.0, 1.0, 0.0]), 0.0]}
        cs.pop('order', None)
        cs.pop('forms', None)
        cs['cls'] = 'syn:degenerate-bounds'
        cases.append(cs)
    for _ in range(ctx.n(4, 40)):
        cs = gen_scan_case(rng)
        if cs['obj']['shape'] != 'llh':
            cs['ns0'] = cs['lo'] - 1.0
            if cs.get('forms', {}).get('init') in ('int', 'f32'):
                cs['forms']['init'] = 'list'
            cs['cls'] = 'scan:init-outside'
            cases.append(cs)
    for bad in ('zero-step', 'negative-step', 'reversed-bounds', 'count-zero'):
        cs = gen_scan_case(rng)
        if cs['obj']['shape'] == 'llh':
            cs['obj'] = {'shape': 'quad2', 'p': [1.0, 0.5 * (cs['lo'] + cs['hi']), 0.0, 0.0, 1.0]}
        cs['p2lo'], cs['p2hi'], cs['p2step'] = {'zero-step': (1.0, 2.0, 0.0), 'negative-step': (1.0, 4.0, -0.5),
                                               'reversed-bounds': (4.0, 1.0, 0.5), 'count-zero': (2.5, 1.0, 1.0)}[bad]
        cs['p20'] = cs['p2lo']
        cs.pop('forms', None)
        cs['cls'] = 'scan:grid-' + bad
        cases.append(cs)
    wraps = [gen_wrap_case(rng) for _ in range(ctx.n(250, 5000))]

    # ---- run the implementation, build the model requests
    reqs, runs = [], []
    for cs in cases:
        res, obj = run_nr_direct(cs)
        runs.append((cs, res, obj))
        reqs.append(nr_request(cs, obj))
        ctx.count(cs['cls'])
        ctx.count('layout:%s:%s' % (cs['kind'], ','.join(layout(cs)[0])))
        for fk, fv in (cs.get('forms') or {'init': 'f64', 'bounds': 'f64', 'args': 'none'}).items():
            ctx.count('form:%s:%s=%s' % (cs['kind'], fk, fv))
        ctx.count('initial:' + ('on-bound' if cs['ns0'] in (cs['lo'], cs['hi']) else 'outside' if not cs['lo'] <= cs['ns0'] <= cs['hi'] else 'inside'))
        if 'err' not in res:
            ctx.count('nr-flag=%d' % res['flag'])
        nr_branches(ctx, cs, res, obj)
    wruns = []
    for cs in wraps:
        res, state = run_wrapper(cs)
        wruns.append((cs, res, state))
        reqs.append(wrap_request(cs, state))
        ctx.count(cs['cls'])
        ctx.count('wrap:raised' if 'err' in res else ('wrap:clipped' if state['fcalls'] else 'wrap:passed-through'))
        wrap_branches(ctx, cs, res, state)
    lins = [{'p2lo': cs['p2lo'], 'p2hi': cs['p2hi'], 'p2step': cs['p2step']} for cs in cases if cs['kind'] == 'scan'][:ctx.n(30, 300)]
    # directed: linspace whose step underflows to zero (numpy's denormal branch), one point, zero points
    lins += [{'p2lo': 0.0, 'p2hi': 5e-324, 'p2step': 1.0, 'n': 5}, {'p2lo': 1.0, 'p2hi': 1.0 + 2 ** -52, 'p2step': 1.0, 'n': 3},
             {'p2lo': -5e-324, 'p2hi': 5e-324, 'p2step': 1.0, 'n': 7}, {'p2lo': 2.0, 'p2hi': 3.0, 'p2step': 1.0, 'n': 1},
             {'p2lo': 2.0, 'p2hi': 3.0, 'p2step': 1.0, 'n': 0}, {'p2lo': 2.0, 'p2hi': 3.0, 'p2step': 1.0, 'n': 2}]
    cobs = [gen_cobyla_case(rng) for _ in range(ctx.n(25, 400))]
    # through LLHRatio.maximize with the NR implementations: the model's `maximize` runs on the recorded NR outcome
    mall = [(cs, res, obj) for (cs, res, obj) in runs if cs['obj']['shape'] == 'llh' and cs['ns0'] >= cs['lo'] and 'err' not in res]
    # every class must get through LLHRatio.maximize: all NR+scan cases on a real llh (scanned parameter mapped to the source,
    # any layout) first, then NR-1D cases round-robin over the parameter layouts (a plain slice of the case list only ever
    # reached the single-parameter NR-1D cases)
    mscan = [r for r in mall if r[0]['kind'] == 'scan']
    by_layout = {}
    for r in mall:
        if r[0]['kind'] != 'scan':
            by_layout.setdefault(','.join(layout(r[0])[0]), []).append(r)
    mnr = []
    while any(by_layout.values()):
        for k in sorted(by_layout):
            if by_layout[k]:
                mnr.append(by_layout[k].pop(0))
    mruns = (mscan + mnr)[:ctx.n(120, 2500)]
    for (cs, _, _) in mruns:
        ctx.count('maximize:%s:%s%s' % (cs['kind'], ','.join(layout(cs)[0]), ':ratios-depend-on-p2' if cs['obj'].get('c') is not None else ''))
    slices = {}
    for i, (cs, res, obj) in enumerate(mruns):
        slices[('maximize_nr', i)] = (len(reqs), len(reqs) + 1)
        reqs.append(max_request(cs, res, obj.llh))
    funs = [gen_functor_case(rng) for _ in range(ctx.n(30, 400))]
    lbs = [gen_lbfgs_scripted_case(rng) for _ in range(ctx.n(40, 600))]
    wex = [gen_wrapper_exc_case(rng) for _ in range(ctx.n(40, 600))]
    gob = [gen_generic_objective_case(rng) for _ in range(ctx.n(12, 200))]
    nob = [gen_nr_objective_case(rng) for _ in range(ctx.n(12, 200))]
    bms = [{'kind': 'bmode', 'method': m, 'grads': g, 'bounds': [[0.0, 1.0], [-1.0, 2.0]], 'cls': 'bounds-mode:' + m}
           for m in SCIPY_METHODS for g in (True, False)]
    sts = [{'kind': 'status', 'cls': 'status-tables'}]
    # round 7: objective return shapes at the re-evaluation (every shape in every run), status code at the source's literals,
    # NR-1D inside parameter vectors
    rev = [r7.gen_reeval_case(rng, sh) for sh in r7.SHAPES for _ in range(ctx.n(3, 30))] + [r7.gen_reeval_case(rng) for _ in range(ctx.n(20, 400))]
    stl = [{'kind': 'statusg', 'cls': 'status-literals'}]
    lay = [r7.gen_layout_case(rng) for _ in range(ctx.n(30, 400))]
    try:
        import iminuit as _im  # noqa
        have_im = True
    except Exception:  # noqa
        have_im = False
    dsp = [d for _ in range(ctx.n(1, 6)) for d in r7.gen_dispatch_cases(rng, gen_llh_case, have_im)]
    for name, lst, fn in (('linspace', lins, linspace_reqs), ('cobyla_constraints', cobs, cobyla_reqs),
                          ('functor_history', funs, functor_reqs), ('lbfgs_scripted', lbs, lbfgs_scripted_reqs),
                          ('wrapper_exceptions', wex, wrapper_exc_reqs), ('generic_objective', gob, generic_objective_reqs), ('nr_objective', nob, nr_objective_reqs),
                          ('bounds_mode', bms, bounds_mode_reqs), ('status_tables', sts, status_reqs),
                          ('reeval_shapes', rev, r7.reeval_reqs), ('status_literals', stl, r7.statusg_reqs), ('nr_layout', lay, r7.layout_reqs),
                          ('maximize_dispatch', dsp, r7.dispatch_reqs)):
        for i, cs in enumerate(lst):
            r = fn(cs)
            slices[(name, i)] = (len(reqs), len(reqs) + len(r))
            reqs += r
    answers = ctx.driver('C11', reqs)

    # ---- correspondence
    suspicious = []
    nbit = 0
    for (cs, res, obj), ans in zip(runs, answers[:len(runs)]):
        key = {k: v for k, v in cs.items() if k != 'cls'}
        ctx.case(key=key, desc=({'case': key, 'impl': {k: v for k, v in res.items() if k != 'status'}}
                                if ctx.evaluations % 211 == 0 else None))
        ctx.count('corr:' + cs['kind'])
        bit, tol = nr_compare(cs, res, obj, ans)
        if bit and not tol:
            nbit += 1
        if tol:
            suspicious.append(('nr', cs, res, ans, tol))
    for (cs, res, state), ans in zip(wruns, answers[len(runs):]):
        key = {k: v for k, v in cs.items() if k != 'cls'}
        ctx.case(key=key, desc=({'case': key, 'impl': res} if ctx.evaluations % 211 == 0 else None))
        ctx.count('corr:wrap')
        d = wrap_compare(cs, res, state, ans)
        if d:
            suspicious.append(('wrap', cs, res, ans, d))
    ctx.extra['bit_level_differences_within_tolerance'] = nbit
    if nbit:
        ctx.note('%d case(s) differ from the model in the last bits only (tolerated, decisions identical)' % nbit)

    # ---- property oracles on the implementation
    def check(name, cs):
        ctx.count('oracle:' + name)
        r = ORACLES[name](ctx, cs)
        if r:
            ctx.violation(name, cs, r, signature='C11/%s/%s' % (name, _classify(r)))
        return r
    for (cs, res, obj) in runs:
        check('nr_contract', cs)
    for (cs, res, state) in wruns:
        check('wrapper_contract', cs)
    for name, lst in (('linspace', lins), ('cobyla_constraints', cobs), ('functor_history', funs), ('lbfgs_scripted', lbs),
                      ('wrapper_exceptions', wex), ('generic_objective', gob), ('nr_objective', nob), ('bounds_mode', bms), ('status_tables', sts),
                      ('reeval_shapes', rev), ('status_literals', stl), ('nr_layout', lay), ('maximize_dispatch', dsp)):
        for i, cs in enumerate(lst):
            (a, b) = slices[(name, i)]
            ctx.count('oracle:' + name)
            if name != 'linspace':
                ctx.case(key={k: v for k, v in cs.items() if k != 'cls'})
                ctx.count(cs['cls'])
            r = ORACLES[name](ctx, cs, answers[a:b])
            if r:
                ctx.violation(name, cs, r, signature='C11/%s/%s' % (name, _classify(r)))
    for i, (cs, res, obj) in enumerate(mruns):
        ctx.case(key=('maximize', {k: v for k, v in cs.items() if k != 'cls'}))
        ctx.count('oracle:maximize_nr')
        r = o_maximize_nr(ctx, cs, answers[slices[('maximize_nr', i)][0]])
        if r:
            ctx.violation('maximize_nr', cs, r, signature='C11/maximize_nr/%s' % _classify(r))
    # NR+scan against the caller's initial point and against scan values that did not converge
    for (cs, res, obj) in runs:
        if cs['kind'] == 'scan':
            check('scan_ge_initial', cs)
            check('scan_all_converged', cs)
    # CRS through a stub nlopt module (result codes 1..6)
    for _ in range(ctx.n(16, 200)):
        cs = gen_crs_case(rng)
        ctx.case(key={k: v for k, v in cs.items() if k != 'cls'})
        ctx.count(cs['cls'])
        check('crs_contract', cs)
    # external optimisers
    impls = ['lbfgs', 'lbfgs', 'L-BFGS-B', 'SLSQP', 'TNC', 'Nelder-Mead', 'BFGS', 'COBYLA', 'Powell']
    try:
        import iminuit  # noqa
        impls.append('iminuit')
    except Exception:  # noqa
        ctx.note('iminuit not installed: IMinuitMinimizerImpl not exercised')
    for i in range(ctx.n(60, 900)):
        cs = gen_ext_case(rng, impls[i % len(impls)])
        ctx.case(key={k: v for k, v in cs.items() if k != 'cls'})
        ctx.count(cs['cls'].rsplit(':', 1)[0])
        check('external_contract', cs)

    # every implementation on 2/3-parameter box-constrained quadratics: active bound on the first / a middle / the
    # last parameter, corners; each (implementation, position) combination at least once per run
    box_impls = EXT_IMPLS + (['iminuit'] if 'iminuit' in impls else [])
    combos = [(im, n, act) for im in box_impls for (n, act) in
              ((2, 'first'), (2, 'last'), (3, 'first'), (3, 'middle'), (3, 'last'), (3, 'corner'), (2, 'corner'))]
    rng.shuffle(combos)
    nbox = ctx.n(90, 1500)
    for i in range(nbox):
        (im, n, act) = combos[i % len(combos)] if (i < len(combos) or rng.random() < 0.5) else (rng.choice(box_impls), None, None)
        if im in ('COBYLA', 'SLSQP') or i >= len(combos) or i % 2 == 0 or ctx.thorough:
            cs = gen_box_case(rng, im, n, act)
            ctx.case(key={k: v for k, v in cs.items() if k != 'cls'})
            ctx.count(cs['cls'].rsplit(':', 2)[0] + ':' + cs['cls'].rsplit(':', 1)[1])
            check('box_contract', cs)

    for _ in range(ctx.n(40, 300)):
        cs = gen_parameter_case(rng)
        ctx.case(key={k: v for k, v in cs.items() if k != 'cls'})
        ctx.count(cs['cls'])
        check('parameter_guard', cs)
    # histories: one Minimizer / implementation object, several minimisations of the same function object
    hist_impls = ['nr'] + box_impls
    for i in range(ctx.n(3 * len(hist_impls), 400)):
        cs = gen_history_case(rng, hist_impls[i % len(hist_impls)])
        ctx.case(key={k: v for k, v in cs.items() if k != 'cls'})
        ctx.count(cs['cls'])
        check('history_contract', cs)
    # every implementation that is given the bounds must return (not raise) on well-conditioned problems
    for im in BOUNDED:
        if im == 'iminuit' and 'iminuit' not in impls:
            continue
        check('success_floor', {'kind': 'floor', 'impl': im, 'seed': rng.randrange(10 ** 6), 'n': ctx.n(10, 40)})

    # ---- disagreements model / implementation: failing input first, else the relation
    seen = set()
    for (kind, cs, res, ans, d) in sorted(suspicious, key=lambda s: len(repr(s[1]))):
        oname = 'nr_contract' if kind == 'nr' else 'wrapper_contract'
        tag = cs['kind']
        if tag in seen:
            continue
        seen.add(tag)
        r = ORACLES[oname](ctx, cs)
        if not r and kind == 'nr' and cs['obj']['shape'] == 'llh' and cs['ns0'] >= cs['lo']:
            oname = 'maximize_nr'
            r = ORACLES[oname](ctx, cs)
        if r:
            ctx.violation(oname, cs, r, impl_output={k: v for k, v in res.items() if k != 'status'}, model_output=ans[:400],
                          signature='C11/%s/%s' % (oname, _classify(r)))
        else:
            cname = 'corr_nr' if kind == 'nr' else 'corr_wrap'
            ctx.violation(cname, cs, 'model and implementation disagree (%s) but no property oracle fails on this input' % d,
                          kind='correspondence', relation='decisions exact, values 1e-9 (bit-exact diagnostic)',
                          impl_output={k: v for k, v in res.items() if k != 'status'}, model_output=ans[:400],
                          signature='C11/corr/' + tag, no_failing_input=True)
    ctx.extra['correspondence_disagreements'] = len(suspicious)
    counts = {b: ctx.counters.get('branch:' + b, 0) for b in ALL_BRANCHES}
    ctx.extra['counts'] = counts
    ctx.extra['zero_hit_branches'] = [b for b, n in counts.items() if n == 0]
    ctx.extra['unreachable_branches_proved'] = ['nr: niter == max_steps after a boundary break (c11_nr_flag_iff_maxsteps)',
                                                'scan: no scan value with n >= 1 (c11_scan_ok_iff)']
    if ctx.extra['zero_hit_branches']:
        ctx.note('model branches not hit in this run: %s' % ', '.join(ctx.extra['zero_hit_branches']))


MANIFEST = dict(
    text=('Lean theorems, for an arbitrary objective and any linearly ordered scalars (no arithmetic laws): NR-1D stays inside the '
          'bounds (result and every query), fmin = objective at the reported point, flag 1 iff max_steps steps, flag 0 implies last '
          'step <= ns_tol and slope <= threshold, flags -2/-1 only at that bound with the Newton step pointing outward; NR+scan = '
          'first best NR result over the scan values (strictly better than every earlier one), niter summed, linspace inside the bounds; Minimizer.minimize over an arbitrary sequence of attempts raises unless the '
          'last attempt converged, returns in-bounds values, re-evaluates after clipping, never clips an in-bounds (NR) result; '
          'maximize negates (value and gradients); status tables of all implementations (converged = the optimiser\'s own success, nlopt 5/6 never), exceptions of implementation / objective are never swallowed, a negative max_steps is never converged; the cached function-with-gradients functor is transparent and no state survives a minimize call; the COBYLA inequality constraints built from the bounds hold iff every x[i] is within its own bounds; the re-evaluation after clipping takes the function value for every return shape of the objective (scalar, tuple, list; an empty sequence raises); Minimizer(NR-1D) with any number of parameters and any ns_pidx returns the NR result unclipped; TCLLHRatio.maximize gives every implementation class the objective arity it unpacks; the success window of CRS, the bounded-method lists of scipy, the L-BFGS-B flags / task needles and the NR threshold are read from the source and proved to be the modelled ones (_for_current_source obligations). Over ordered fields / the reals: slope sign at a forced bound, and for a convex objective the forced '
          'bound is the exact optimum, a flag-0 point is within |slope|*(hi-lo) of it and, under curvature bounds m <= f\'\' <= M, within ns_tol + thr/m of the stationary point with f(x*) <= f(y) + M/2 (ns_tol + thr/m)^2 for every y incl. the initial point. '
          'The executable model is driven with the recorded objective triples of the real NR1dNsMinimizerImpl / '
          'NRNsScan2dMinimizerImpl / Minimizer / LLHRatio.maximize and compared bit-exactly (then decisions exact, values 1e-9).'),
    note=('Open findings (statement + counterexample in Lean, replayed on the code): NR+scan ignores the initial value of the scanned parameter '
          '(result can be worse than the initial point) and drops scan values that did not converge. L-BFGS-B, generic scipy methods and iminuit: wrapper contract observed on the implementation only (their internals are '
          'outside the model); CRS runs against a stub nlopt module. Theorems are NaN-free (linear order); convergence of Newton iterates '
          'itself (that flag 0 is reached) is not claimed, only what a reported flag means.'),
    design='DESIGN.md section 4 C11',
    technique='Lean 4 proof (induction over the fuel of the loops, order theory, convex analysis over the reals) + replay-oracle '
              'bit-exact model/implementation correspondence')
