"""C01 — the log-likelihood-ratio value equals the documented two-component formula.

Correspondence: real `ZeroSigH0SingleDatasetTCLLHRatio.evaluate` / `MultiDatasetTCLLHRatio.evaluate` on a real
`TrialDataManager` (stub leaf ratios / densities, real `PDFRatioProduct`, `SigOverBkgPDFRatio`,
`SourceWeightedPDFRatio`, optional stub event selection, optional index-field sorting) vs. the Float run of
Model/LLH.lean (+ Model/Weights.lean for the source-weighted composition); relation
|impl - model| <= 1e-10 * sum|terms|, and exactly 0.0 at ns = 0.
Property oracles (implementation only): exact 0 at ns = 0, event-order independence, removal of zero-ratio
events with N kept, the documented formula recomputed in 60-digit `decimal` from the exact binary inputs.
"""
import decimal
import math
from fractions import Fraction

import numpy as np

from harness import extract
from harness import llh_fixtures as fx
from harness.core import f2b, flist, ilist, b2f

MODEL_MODULES = ['SkyllhModel.Model.LLH', 'SkyllhModel.Model.Weights', 'SkyllhModel.Model.LLHR7']

# which Python callables have an executable Lean counterpart that the c01_* theorems are about and that run(ctx) compares
# with the real callable on every run
MODEL_MAP = {
    'skyllh/core/llhratio.py::ZeroSigH0SingleDatasetTCLLHRatio.calculate_log_lambda_and_grads': [
        'LLH.calcLogLambda', 'LLH.logLambdaBuffer', 'LLH.stableMask', 'LLH.pass1', 'LLH.gatherU', 'LLH.scatterU', 'LLH.sumOpt',
        'LLH.taylorBranchC', 'LLH.llr', 'LLH.lamOfAlpha', 'LLH.taylorBranch', 'LLH.tildeAlpha', 'LLH.pureBkgTerm'],
    'skyllh/core/llhratio.py::ZeroSigH0SingleDatasetTCLLHRatio.evaluate': [
        'LLH.llrOfRatios', 'LLH.xOfRatio', 'LLH.llrChecked', 'LLH.evalSel', 'LLH.trialStep', 'LLH.trialRun'],
    'skyllh/core/pdfratio.py::SigOverBkgPDFRatio.get_ratio': ['LLH.ratioSOB', 'LLH.sobValues'],
    'skyllh/core/pdfratio.py::PDFRatioProduct.get_ratio': ['LLH.ratioProduct', 'LLH.ratioProductChecked'],
    # SourceWeightedPDFRatio.get_ratio is compared here too (driver C03, Weights.ratioWeighted / densify / akOfDataset), but its
    # theorems live in Props/C03.lean: listed in C03's map, not here
    'skyllh/core/trialdata.py::TrialDataManager.initialize_trial': ['LLH.trialCounts'],
    'skyllh/core/trialdata.py::DataField._calc_global_fitparam_dependent_values': ['LLH.fieldStep', 'LLH.fieldRun'],
}

OPA_RECORDED = 1e-3
ZB_RECORDED = 1.0
REL_TOL = 1e-10          # relative to sum |terms| (DESIGN 4 C01 states 1e-9; observed < 1e-13)


# --------------------------------------------------------------------------------------------------
# constants read from the current source

_CONST_CACHE = []


def _constants(ctx=None):
    if ctx is None and _CONST_CACHE:
        return _CONST_CACHE[0]
    r = _constants_uncached(ctx)
    if not _CONST_CACHE:
        _CONST_CACHE.append(r)
    return r


def _constants_uncached(ctx=None):
    opa, zb, fallbacks = OPA_RECORDED, ZB_RECORDED, []
    try:
        opa = float(extract.class_attr('skyllh/core/llhratio.py', 'ZeroSigH0SingleDatasetTCLLHRatio', '_one_plus_alpha'))
    except Exception as e:  # noqa
        fallbacks.append('one_plus_alpha: %s' % e)
    try:
        zb = float(extract.arg_default('skyllh/core/pdfratio.py', 'SigOverBkgPDFRatio', '__init__', 'zero_bkg_ratio_value'))
    except Exception as e:  # noqa
        fallbacks.append('zero_bkg_ratio_value: %s' % e)
    if ctx is not None:
        for f in fallbacks:
            ctx.note('constant extraction failed, using the recorded value (%s)' % f)
            ctx.proof['generated_fallbacks'].append(f)
    return opa, zb


# round 7: structure of the Taylor branch / the stability mask / the signatures, read from the source with `ast`
R7_RECORDED = dict(coeff=0.5, power=2, strict=True, sob_strict=True,
                   calc_params=['N', 'ns', 'ns_pidx', 'p_mask', 'Xi', 'dXi_dp'],
                   eval_params=['fitparam_values', 'src_params_recarray', 'tl'], n_events_default_none=True)
_R7_CACHE = []


def _r7_structure(ctx=None):
    """coefficient and exponent of the quadratic term of the continuation (`0.5 * tildealpha_i**2`), the comparison
    operator of `m_stable = alpha_i > alpha`, the operator of the background mask of SigOverBkgPDFRatio.get_ratio
    (`bkg_pd > 0`), the parameter lists of calculate_log_lambda_and_grads / evaluate and the default of
    TrialDataManager.initialize_trial(n_events=...).  Anything that cannot be found (code rewritten, e.g. Horner form)
    falls back to the recorded value with a note; the correspondence then decides."""
    if ctx is None and _R7_CACHE:
        return _R7_CACHE[0]
    import ast
    r = dict(R7_RECORDED)
    fallbacks = []
    try:
        tree = extract.parse('skyllh/core/llhratio.py')
        fn = extract.find_func(extract.find_class(tree, 'ZeroSigH0SingleDatasetTCLLHRatio'), 'calculate_log_lambda_and_grads')
        found_c = found_m = False
        for node in ast.walk(fn):
            if (isinstance(node, ast.BinOp) and isinstance(node.op, ast.Mult) and isinstance(node.left, ast.Constant)
                    and isinstance(node.right, ast.BinOp) and isinstance(node.right.op, ast.Pow)
                    and isinstance(node.right.left, ast.Name) and node.right.left.id == 'tildealpha_i'
                    and isinstance(node.right.right, ast.Constant) and not found_c):
                r['coeff'], r['power'] = float(node.left.value), int(node.right.right.value)
                if r['power'] != node.right.right.value:
                    raise ValueError('non-integer exponent %r' % (node.right.right.value,))
                found_c = True
            if (isinstance(node, ast.Assign) and len(node.targets) == 1 and isinstance(node.targets[0], ast.Name)
                    and node.targets[0].id == 'm_stable' and isinstance(node.value, ast.Compare)
                    and len(node.value.ops) == 1 and isinstance(node.value.ops[0], (ast.Gt, ast.GtE))
                    and isinstance(node.value.left, ast.Name) and node.value.left.id == 'alpha_i'
                    and isinstance(node.value.comparators[0], ast.Name) and node.value.comparators[0].id == 'alpha'):
                r['strict'] = isinstance(node.value.ops[0], ast.Gt)
                found_m = True
        if not found_c:
            fallbacks.append('taylor coefficient: no `<const> * tildealpha_i**<const>` in calculate_log_lambda_and_grads')
        if not found_m:
            fallbacks.append('stability mask: no `m_stable = alpha_i >(=) alpha`')
    except Exception as e:  # noqa
        fallbacks.append('taylor structure: %s' % e)
    try:
        r['calc_params'] = list(extract.func_params('skyllh/core/llhratio.py', 'ZeroSigH0SingleDatasetTCLLHRatio',
                                                    'calculate_log_lambda_and_grads')[0])
        r['eval_params'] = list(extract.func_params('skyllh/core/llhratio.py', 'ZeroSigH0SingleDatasetTCLLHRatio', 'evaluate')[0])
    except Exception as e:  # noqa
        fallbacks.append('signatures: %s' % e)
    try:
        d = extract.arg_default('skyllh/core/trialdata.py', 'TrialDataManager', 'initialize_trial', 'n_events')
        r['n_events_default_none'] = d is None
    except Exception as e:  # noqa
        fallbacks.append('initialize_trial(n_events=...): %s' % e)
    try:
        tree = extract.parse('skyllh/core/pdfratio.py')
        fn = extract.find_func(extract.find_class(tree, 'SigOverBkgPDFRatio'), 'get_ratio')
        ops = [type(n.ops[0]) for n in ast.walk(fn)
               if isinstance(n, ast.Compare) and len(n.ops) == 1 and isinstance(n.ops[0], (ast.Gt, ast.GtE))
               and isinstance(n.comparators[0], ast.Constant) and n.comparators[0].value == 0]
        if len(ops) == 1:
            r['sob_strict'] = ops[0] is ast.Gt
        else:
            fallbacks.append('background mask: %d comparisons `... > 0` in SigOverBkgPDFRatio.get_ratio' % len(ops))
    except Exception as e:  # noqa
        fallbacks.append('background mask: %s' % e)
    if ctx is not None:
        for f in fallbacks:
            ctx.note('structure extraction failed, using the recorded value (%s)' % f)
            ctx.proof['generated_fallbacks'].append(f)
    if not _R7_CACHE:
        _R7_CACHE.append(r)
    return r


def _names(ps):
    return [p if isinstance(p, str) else p[0] for p in ps]


def generated(ctx):
    opa, zb = _constants(ctx)
    r7 = _r7_structure(ctx)
    return ('/- generated by harness/props/c01.py from skyllh/core/llhratio.py and pdfratio.py; do not edit -/\n'
            'namespace Gen.C01\n'
            '/-- `ZeroSigH0SingleDatasetTCLLHRatio._one_plus_alpha` -/\n'
            'def onePlusAlpha {F : Type} [OfScientific F] : F := %s\n'
            '/-- default of `SigOverBkgPDFRatio(zero_bkg_ratio_value=...)` -/\n'
            'def zeroBkgRatio {F : Type} [OfScientific F] : F := %s\n'
            '/-- `<c> * tildealpha_i**<p>` in `calculate_log_lambda_and_grads` -/\n'
            'def taylorCoeff {F : Type} [OfScientific F] : F := %s\n'
            'def taylorPower : Nat := %d\n'
            '/-- `m_stable = alpha_i > alpha` (true) or `>=` (false) -/\n'
            'def stableStrict : Bool := %s\n'
            '/-- `bkg_pd > 0` (true) or `>= 0` (false) in `SigOverBkgPDFRatio.get_ratio` -/\n'
            'def sobStrict : Bool := %s\n'
            '/-- parameter names of `calculate_log_lambda_and_grads` and `evaluate` (after self) -/\n'
            'def calcParams : List String := %s\n'
            'def evalParams : List String := %s\n'
            '/-- `TrialDataManager.initialize_trial(n_events=None)` -/\n'
            'def nEventsDefaultNone : Bool := %s\n'
            'end Gen.C01\n') % (extract.lean_float(opa), extract.lean_float(zb), extract.lean_float(r7['coeff']), r7['power'],
                                 'true' if r7['strict'] else 'false', 'true' if r7['sob_strict'] else 'false',
                                 extract.lean_str_list(_names(r7['calc_params'])), extract.lean_str_list(_names(r7['eval_params'])),
                                 'true' if r7['n_events_default_none'] else 'false')


# --------------------------------------------------------------------------------------------------
# a case:  {'kind': 'single'|'product'|'sob'|'weighted', 'N', 'ns', 'E',
#           'R': K x E (single: K = 1; weighted: K >= 1), 'R2': E (product/sob second factor) | None,
#           's': E, 'b': E, 'zb': float (sob), 'a': K (weighted), 'mask': None | K x E bools,
#           'multi': bool (evaluate through MultiDatasetTCLLHRatio with one dataset), 'key': None | E floats}

def _K(case):
    return len(case['a']) if case['kind'] in ('weighted', 'wsob') else 1


def _mask(case):
    K = _K(case)
    if case.get('mask') is None:
        return np.ones((K, case['E']), dtype=bool)
    return np.array(case['mask'], dtype=bool).reshape((K, case['E']))


def _selected(case):
    """indices (eid) of the selected events, in selection order"""
    return [int(e) for e in np.flatnonzero(np.any(_mask(case), axis=0))]


import collections

Built = collections.namedtuple('Built', 'obj pmm tdm leaves sdw shg_mgr')


def build(case):
    """-> Built(llhratio object to evaluate, pmm, tdm, stub leaves (each has .snapshot()), weight service)"""
    from skyllh.core.pdfratio import SigOverBkgPDFRatio, SourceWeightedPDFRatio
    cfg = fx.make_cfg()
    if case.get('tracing'):
        cfg['debugging']['enable_tracing'] = True
    kind, E = case['kind'], case['E']
    share = case.get('share') or False
    K = _K(case)
    W = case['a'] if kind in ('weighted', 'wsob') else [1.0]
    sources = fx.make_sources(K, weights=W)
    shg_mgr = fx.make_shg_mgr(cfg, sources)
    # extra: a second floating parameter declared BEFORE ns (ns is then not the fit parameter with index 0)
    pmm = fx.make_pmm(sources, params=[fx.make_param('g1', 2.0, 1.0, 9.0), fx.make_param('g2', 2.0, 1.0, 9.0)]
                      if case.get('extra') else (), ns_last=bool(case.get('extra')))
    esm = None
    if case.get('mask') is not None:
        esm = fx.StubEventSelection(shg_mgr, _mask(case))
    fields = {}
    if case.get('key') is not None:
        fields['key'] = np.array(case['key'], dtype=np.float64)
    events = fx.make_events(E, **fields)
    # n_none: n_events is left to its default (what Analysis.unblind / initialize_trial(events_list) do);
    # the documented default is the number of raw events, so case['N'] == E then
    gfdf = bool(case.get('extra')) and kind == 'single' and bool(case.get('gfdf'))
    if gfdf:
        # a data field that depends on TWO global fit parameters: evaluate() recalculates it whenever one of them changed
        # (has_global_fitparam_data_fields branch, DataField cache); the leaf ratio multiplies its values by the field
        # w = g1*g2/6.25, a power of two for g in {2.5, 5} (the scaling of the ratios is exact)
        from skyllh.core.trialdata import TrialDataManager
        tdm = TrialDataManager(index_field_name='key' if case.get('key') is not None else None)
        field_calls = []

        def _w(tdm, shg_mgr, pmm, global_fitparams_dict):
            field_calls.append((global_fitparams_dict['g1'], global_fitparams_dict['g2']))
            return np.full((tdm.n_selected_events,), global_fitparams_dict['g1'] * global_fitparams_dict['g2'] / 6.25)
        tdm.add_data_field('w', _w, global_fitparam_names=['g1', 'g2'])
        tdm.field_calls = field_calls
        tdm.initialize_trial(shg_mgr=shg_mgr, pmm=pmm, events=events, n_events=None if case.get('n_none') else case['N'],
                             evt_sel_method=esm)
    else:
        tdm = fx.make_tdm(shg_mgr, pmm, events, n_events=None if case.get('n_none') else case['N'], evt_sel_method=esm,
                          index_field_name='key' if case.get('key') is not None else None)
    # the weight service may hold the weights of further datasets (multi-dataset stacking): the evaluated dataset is row
    # jidx of the table, its yields are 1 (a_k = W_k), the other rows are arbitrary
    rows = [list(r) for r in (case.get('other_rows') or [])]
    jidx = int(case.get('jidx') or 0) if rows else 0
    rows.insert(jidx, [1.0] * K)
    (dsy, sdw, dswf) = fx.make_weight_services(shg_mgr, np.array(rows, dtype=np.float64).reshape((len(rows), K)))
    leaves = []

    def stub(table, rows):
        r = fx.StubPDFRatio(cfg, np.array(table, dtype=np.float64).reshape((rows, E)), share=share)
        if gfdf:
            inner = r.get_ratio

            def get_ratio(tdm, src_params_recarray, tl=None):
                return inner(tdm, src_params_recarray, tl=tl) * np.take(tdm.get_data('w'), tdm.src_evt_idxs[1])
            r.get_ratio = get_ratio
        leaves.append(r)
        return r
    if kind in ('single', 'weighted'):
        r = stub(case['R'], K)
    elif kind == 'wsob':
        # the composition every Analysis builds: SourceWeighted(SigOverBkg [x ratio]) with several sources; the
        # background density is per event and broadcast to the (source, event) values through evt_idxs
        sig = fx.StubSigPDF(cfg, np.array(case['s'], dtype=np.float64).reshape((K, E)), share=share)
        bkg = fx.StubBkgPDF(cfg, np.array(case['b'], dtype=np.float64), share=share)
        leaves += [sig, bkg]
        r = SigOverBkgPDFRatio(sig_pdf=sig, bkg_pdf=bkg, zero_bkg_ratio_value=case['zb'], cfg=cfg)
        if case.get('R2') is not None:
            r = r * stub(case['R2'], K)
    elif kind == 'expr':
        # arbitrarily nested compositions: ['L', values] | ['P', e1, e2] (PDFRatioProduct via *) | ['S', zb, s, b]
        def mk(e):
            if e[0] == 'L':
                return stub(e[1], 1)
            if e[0] == 'P':
                return mk(e[1]) * mk(e[2])
            sig = fx.StubSigPDF(cfg, np.array(e[2], dtype=np.float64).reshape((1, E)), share=share)
            bkg = fx.StubBkgPDF(cfg, np.array(e[3], dtype=np.float64), share=share)
            leaves.extend([sig, bkg])
            return SigOverBkgPDFRatio(sig_pdf=sig, bkg_pdf=bkg, zero_bkg_ratio_value=e[1], cfg=cfg)
        r = mk(case['expr'])
    elif kind == 'product':
        r = stub(case['R'], 1) * stub(case['R2'], 1)
    elif kind == 'sob':
        sig = fx.StubSigPDF(cfg, np.array(case['s'], dtype=np.float64).reshape((1, E)), share=share)
        bkg = fx.StubBkgPDF(cfg, np.array(case['b'], dtype=np.float64), share=share)
        leaves += [sig, bkg]
        r = SigOverBkgPDFRatio(sig_pdf=sig, bkg_pdf=bkg, zero_bkg_ratio_value=case['zb'], cfg=cfg)
        if case.get('R2') is not None:
            r = r * stub(case['R2'], 1)
    else:
        raise ValueError(kind)
    if kind in ('weighted', 'wsob'):
        r = SourceWeightedPDFRatio(dataset_idx=jidx, src_detsigyield_weights_service=sdw, pdfratio=r, cfg=cfg)
    llh = fx.make_single_llhratio(cfg, pmm, shg_mgr, tdm, r)
    llh.initialize_for_new_trial()
    obj = llh
    if len(rows) > 1:
        # one dataset of a multi-dataset analysis, evaluated on its own (the composite function calculates the services)
        sdw.calculate(src_params_recarray=pmm.create_src_params_recarray(fx.fitparam_values(
            pmm, 1.0, **({'g1': 2.5, 'g2': 2.5} if case.get('extra') else {}))))
    elif kind in ('weighted', 'wsob') or case.get('multi'):
        obj = fx.make_multi_llhratio(cfg, pmm, sdw, dswf, [llh])
    return Built(obj, pmm, tdm, leaves, sdw, shg_mgr)


_G_PLAN = [(2.5, 2.5), (2.5, 5.0), (5.0, 5.0), (5.0, 2.5), (5.0, 2.5)]     # single-parameter steps, then an exact repeat


def _is_gfdf(case):
    return bool(case.get('extra')) and case['kind'] == 'single' and bool(case.get('gfdf'))


def eval_plan(case):
    """the evaluations made one after the other on the same objects within one trial:
    [(ns, (g1, g2) | None, w)] — w the exact factor the data field puts on every ratio"""
    ns2 = case.get('ns2')
    if _is_gfdf(case) and ns2 is not None:
        return [((case['ns'], ns2)[i % 2], g, g[0] * g[1] / 6.25) for i, g in enumerate(_G_PLAN)]
    seq = [case['ns']] if ns2 is None else [case['ns'], ns2, case['ns']]
    return [(ns, (2.5, 2.5) if case.get('extra') else None, 1.0) for ns in seq]


def eval_case(case, i):
    """the stand-alone case the i-th evaluation must be equal to: the ratios scaled by the field value in force"""
    w = eval_plan(case)[i][2]
    if w == 1.0:
        return case
    c = dict(case)
    c['R'] = [[r * w for r in row] for row in case['R']]
    return c


def _fp(b, case, ns, i=None):
    """the fit parameter values in the form the case asks for ('xform'): float64 array / strided view / read-only / list"""
    g = eval_plan(case)[i][1] if i is not None else ((2.5, 2.5) if case.get('extra') else None)
    x = fx.fitparam_values(b.pmm, ns, **({'g1': g[0], 'g2': g[1]} if g is not None else {}))
    form = case.get('xform') or 'float64'
    if form == 'strided':
        buf = np.full((2 * len(x) + 1,), 123.0)
        buf[1::2] = x
        return buf[1::2]
    if form == 'readonly':
        x.setflags(write=False)
        return x
    if form == 'list':
        return [float(v) for v in x]
    return x


def impl_value(case, ns=None):
    """one evaluation on a fresh object"""
    b = build(case)
    with np.errstate(all='ignore'):
        (v, g) = b.obj.evaluate(_fp(b, case, case['ns'] if ns is None else ns))
    return float(v)


def ns_sequence(case):
    """the ns values evaluated one after the other on the *same* objects within one trial"""
    return [e[0] for e in eval_plan(case)]


def _snap(b):
    snaps = [leaf.snapshot() for leaf in b.leaves]
    a = b.sdw.get_weights()[0]
    snaps.append(b'' if a is None else np.asarray(a).tobytes())
    return snaps


def _eval_sequence(b, case):
    (src_idxs, evt_idxs) = b.tdm.src_evt_idxs
    out = {'values': [], 'touched': None,
           'counts': (int(b.tdm.n_events), int(b.tdm.n_selected_events), int(b.tdm.n_pure_bkg_events)),
           # the index map of the real trial data manager (public attributes), handed to the model as is
           'idx': {'src': [int(x) for x in src_idxs], 'evt': [int(x) for x in evt_idxs],
                   'eid': [int(x) for x in b.tdm.get_data('eid')]}}
    with np.errstate(all='ignore'):
        before = None
        for i, ns in enumerate(ns_sequence(case)):
            (v, g) = b.obj.evaluate(_fp(b, case, ns, i))
            out['values'].append(float(v))
            after = _snap(b)
            if before is not None and out['touched'] is None:
                for j, (x, y) in enumerate(zip(before, after)):
                    if x != y:
                        what = ('the a_jk array of the weight service' if j == len(b.leaves) else
                                'the arrays owned by input %d (%s)' % (j, type(b.leaves[j]).__name__))
                        out['touched'] = 'evaluation %d (ns=%r) modified %s' % (i + 1, ns, what)
                        break
            before = after
    out['field_calls'] = len(getattr(b.tdm, 'field_calls', []))
    return out


def impl_sequence(case):
    """-> dict(values: log Lambda for every ns of ns_sequence(case) evaluated on the same objects,
    counts: (n_events, n_selected_events, n_pure_bkg_events), touched: None | text naming the first input
    array that an evaluation modified)"""
    return _eval_sequence(build(case), case)


# ---- several trials on ONE object graph: case['trials'] = [further trials], each with its own events
#      (E, N, n_none, R, R2, s, b, mask, key, ns, ns2); kind, a, zb, multi, share and the leaf structure are shared

_TRIAL_FIELDS = ('E', 'N', 'n_none', 'R', 'R2', 's', 'b', 'mask', 'key', 'ns', 'ns2')


def trial_case(case, t):
    """the stand-alone (history-free) case that trial t of a multi-trial case must be equal to"""
    c = {k: v for k, v in case.items() if k != 'trials'}
    if t > 0:
        c.update({k: case['trials'][t - 1].get(k) for k in _TRIAL_FIELDS})
    return c


def n_trials(case):
    return 1 + len(case.get('trials') or [])


def _leaf_tables(case):
    E, kind = case['E'], case['kind']
    K = _K(case)
    if kind in ('single', 'weighted'):
        return [np.array(case['R'], dtype=np.float64).reshape((K, E))]
    if kind == 'wsob':
        tabs = [np.array(case['s'], dtype=np.float64).reshape((K, E)), np.array(case['b'], dtype=np.float64)]
        if case.get('R2') is not None:
            tabs.append(np.array(case['R2'], dtype=np.float64).reshape((K, E)))
        return tabs
    if kind == 'product':
        return [np.array(case['R'], dtype=np.float64).reshape((1, E)), np.array(case['R2'], dtype=np.float64).reshape((1, E))]
    tabs = [np.array(case['s'], dtype=np.float64).reshape((1, E)), np.array(case['b'], dtype=np.float64)]
    if case.get('R2') is not None:
        tabs.append(np.array(case['R2'], dtype=np.float64).reshape((1, E)))
    return tabs


def next_trial(b, case):
    """new event data on the existing objects: what Analysis.initialize_trial does between two trials"""
    for leaf, tab in zip(b.leaves, _leaf_tables(case)):
        leaf.set_table(tab)
    fields = {}
    if case.get('key') is not None:
        fields['key'] = np.array(case['key'], dtype=np.float64)
    events = fx.make_events(case['E'], **fields)
    esm = fx.StubEventSelection(b.shg_mgr, _mask(case)) if case.get('mask') is not None else None
    b.tdm.index_field_name = 'key' if case.get('key') is not None else None
    b.tdm.initialize_trial(shg_mgr=b.shg_mgr, pmm=b.pmm, events=events,
                           n_events=None if case.get('n_none') else case['N'], evt_sel_method=esm)
    b.obj.initialize_for_new_trial()


def run_trials(case):
    """-> one impl_sequence-like dict per trial, all observed on the same object graph"""
    c0 = trial_case(case, 0)
    b = build(c0)
    outs = [_eval_sequence(b, c0)]
    for t in range(1, n_trials(case)):
        ct = trial_case(case, t)
        next_trial(b, ct)
        outs.append(_eval_sequence(b, ct))
    return outs


def expected_counts(case):
    N = case['E'] if case.get('n_none') else case['N']
    nsel = len(_selected(case))
    return (N, nsel, N - nsel)


# ---- exact reference: effective per-event ratios as fractions, the documented formula in decimal

def _expr_value(e, i):
    if e[0] == 'L':
        return Fraction(e[1][i])
    if e[0] == 'P':
        return _expr_value(e[1], i) * _expr_value(e[2], i)
    b = e[3][i]
    return Fraction(e[2][i]) / Fraction(b) if b > 0 else Fraction(e[1])


def _expr_map(e, f):
    """apply f to every per-event array of the expression"""
    if e[0] == 'L':
        return ['L', f(e[1])]
    if e[0] == 'P':
        return ['P', _expr_map(e[1], f), _expr_map(e[2], f)]
    return ['S', e[1], f(e[2]), f(e[3])]


def _expr_tokens(e, sel):
    if e[0] == 'L':
        return 'L %s' % flist(e[1][i] for i in sel)
    if e[0] == 'P':
        return 'P %s %s' % (_expr_tokens(e[1], sel), _expr_tokens(e[2], sel))
    return 'S %s %s %s' % (f2b(e[1]), flist(e[2][i] for i in sel), flist(e[3][i] for i in sel))


def _expr_shape(e):
    if e[0] == 'L':
        return 'L'
    if e[0] == 'P':
        return '(%s*%s)' % (_expr_shape(e[1]), _expr_shape(e[2]))
    return 'S'


def eff_ratios(case):
    """exact ratio R_i (Fraction) of every selected event, as the documentation composes it"""
    kind = case['kind']
    m = _mask(case)
    out = []
    for e in _selected(case):
        if kind == 'single':
            r = Fraction(case['R'][0][e])
        elif kind == 'expr':
            r = _expr_value(case['expr'], e)
        elif kind == 'product':
            r = Fraction(case['R'][0][e]) * Fraction(case['R2'][e])
        elif kind == 'sob':
            b = case['b'][e]
            r = Fraction(case['s'][0][e]) / Fraction(b) if b > 0 else Fraction(case['zb'])
            if case.get('R2') is not None:
                r = r * Fraction(case['R2'][e])
        elif kind == 'wsob':
            a = [Fraction(x) for x in case['a']]
            b = case['b'][e]
            r = Fraction(0)
            for k in range(len(a)):
                if m[k][e]:
                    rk = Fraction(case['s'][k][e]) / Fraction(b) if b > 0 else Fraction(case['zb'])
                    if case.get('R2') is not None:
                        rk = rk * Fraction(case['R2'][k][e])
                    r += a[k] * rk
            r = r / sum(a)
        else:
            a = [Fraction(x) for x in case['a']]
            r = sum((a[k] * Fraction(case['R'][k][e]) for k in range(len(a)) if m[k][e]), Fraction(0)) / sum(a)
        out.append(r)
    return out


_CTX = decimal.Context(prec=60)


def _dec(fr):
    return _CTX.divide(decimal.Decimal(fr.numerator), decimal.Decimal(fr.denominator))


def doc_core(opa, N, ns, Rs):
    """(log Lambda, sum |terms|, number of Taylor events) of eqs. logLambda / logLambdaiTaylor /
    logLambdaOfXOptimized of the manual for exact inputs (ns, Rs: Fractions; opa: float), evaluated with 60
    digits.  None where the formula is undefined (ns >= N with unselected events)."""
    alpha = Fraction(opa) - 1
    total = decimal.Decimal(0)
    sumabs = decimal.Decimal(0)
    ln_opa = _CTX.ln(_dec(Fraction(opa)))
    n_taylor = 0
    for R in Rs:
        a = ns * (R - 1) / N
        if a > alpha:
            t = _CTX.ln(_dec(1 + a))
        else:
            n_taylor += 1
            ta = (a - alpha) / Fraction(opa)
            t = _CTX.add(ln_opa, _dec(ta - ta * ta / 2))
        total = _CTX.add(total, t)
        sumabs = _CTX.add(sumabs, abs(t))
    npure = N - len(Rs)
    if npure != 0:
        if not ns < N:
            return None
        t = _CTX.multiply(decimal.Decimal(npure), _CTX.ln(_dec(1 - ns / N)))
        total = _CTX.add(total, t)
        sumabs = _CTX.add(sumabs, abs(t))
    return total, sumabs, n_taylor


def doc_formula(case, opa, ns=None):
    """the documented formula from the exact binary values of the inputs of a case"""
    return doc_core(opa, case['N'], Fraction(case['ns'] if ns is None else ns), eff_ratios(case))


def input_floor(opa, N, ns, Rs):
    """absolute floor of the tolerance tied to the scale of the INPUTS of the terms: a composed ratio R_i (product,
    s/b, weighted mean) is only known up to a few ulp, delta R_i <= 16 eps max(|R_i|, 1), and that rounding moves the
    term log Lambda_i by |d log Lambda_i / d R_i| delta R_i with the slope (ns/N)/(1+alpha_i) in the stable and
    (ns/N)(1-alpha~_i)/opa in the Taylor regime.  Without it a term whose exact value is 0 (R_i = 1) makes a purely
    relative tolerance collapse to "exactly 0", which is more than the property states."""
    ns, fl = float(ns), 0.0
    for R in Rs:
        R = float(R)
        a = ns * (R - 1.0) / N
        slope = 1.0 / max(1.0 + a, opa) if a > opa - 1 else (1.0 - (a - (opa - 1)) / opa) / opa
        fl += abs(ns) / N * abs(slope) * 16 * 2.3e-16 * max(abs(R), 1.0)
    return fl


def _budget(case, ns=None):
    """absolute rounding budget beyond REL_TOL * sum|terms|: (a) pure-background term: the rounding of ns/N (1 ulp) is
    amplified by 1/(1 - ns/N), and algebraically identical forms such as (N-N')(log(N-ns) - log N) carry
    eps * (N-N') * |log N| (the verdict does not demand log1p-level accuracy of that term); (b) input_floor: the rounding
    of the composed ratios themselves."""
    opa, _ = _constants()
    ns = case['ns'] if ns is None else ns
    N = case['N']
    npure = N - len(_selected(case))
    x = abs(ns) / N
    return (4 * 2.3e-16 * npure * (x / max(1 - ns / N, 1e-300) + 2 * math.log(max(N, 2)))
            + input_floor(opa, N, ns, _eff_floats(case)))


_EFF_CACHE = collections.OrderedDict()


def _eff_floats(case):
    """float values of eff_ratios(case), memoised for the case objects most recently looked at"""
    k = id(case)
    hit = _EFF_CACHE.get(k)
    if hit is not None and hit[0] is case:
        return hit[1]
    r = [float(x) for x in eff_ratios(case)]
    _EFF_CACHE[k] = (case, r)
    while len(_EFF_CACHE) > 256:
        _EFF_CACHE.popitem(last=False)
    return r


def _driver_of(case):
    return 'C03' if case['kind'] in ('weighted', 'wsob') else 'C01'


def _scale(case, opa):
    d = doc_formula(case, opa)
    return float(d[1]) if d is not None else float('nan')


# --------------------------------------------------------------------------------------------------
# property oracles (implementation only)

def _guard(fn):
    def wrapped(ctx, case):
        try:
            return fn(ctx, case)
        except Exception as e:  # noqa
            fx.reraise_fixture_error(e)
            return 'evaluate raised %s: %s (kind=%s N=%d E=%d ns=%r)' % (
                type(e).__name__, e, case['kind'], case['N'], case['E'], case['ns'])
    wrapped.__name__ = fn.__name__
    return wrapped


@_guard
def o_zero_at_ns0(ctx, case):
    v = impl_value(case, ns=0.0)
    if not v == 0.0:
        return 'log Lambda(ns=0) = %r, not exactly 0 (kind=%s N=%d N\'=%d)' % (v, case['kind'], case['N'], len(_selected(case)))
    return None


def permuted(case, perm):
    c = dict(case)
    E = case['E']
    assert sorted(perm) == list(range(E))
    if case.get('expr') is not None:
        c['expr'] = _expr_map(case['expr'], lambda arr: [arr[p] for p in perm])
    for k in ('R', 's'):
        if case.get(k) is not None:
            c[k] = [[row[p] for p in perm] for row in case[k]]
    for k in ('R2', 'b', 'key'):
        if case.get(k) is not None:
            if k == 'R2' and case['kind'] == 'wsob':
                c[k] = [[row[p] for p in perm] for row in case[k]]
            else:
                c[k] = [case[k][p] for p in perm]
    if case.get('mask') is not None:
        c['mask'] = [[bool(row[p]) for p in perm] for row in _mask(case).tolist()]
    return c


@_guard
def o_perm(ctx, case):
    opa, _ = _constants()
    E = case['E']
    v0 = impl_value(case)
    scale = _scale(case, opa)
    perms = [list(range(E))[::-1]]
    rnd = np.random.RandomState(E * 7919 + case['N'])
    perms.append([int(i) for i in rnd.permutation(E)])
    if E == 2 or (E > 2 and case['N'] % 3 == 0):
        perms.append([1, 0] + list(range(2, E)))
    for perm in perms:
        v1 = impl_value(permuted(case, perm))
        if not abs(v1 - v0) <= REL_TOL * scale + _budget(case):
            return 'log Lambda depends on the event order: %r vs %r after permutation %r (sum|terms| %.3g)' % (v0, v1, perm[:12], scale)
    return None


def zero_events(case):
    return [e for e, r in zip(_selected(case), eff_ratios(case)) if r == 0]


def without_events(case, drop):
    c = dict(case)
    m = _mask(case).copy()
    m[:, drop] = False
    c['mask'] = m.tolist()
    return c


@_guard
def o_zero_removal(ctx, case):
    opa, _ = _constants()
    z = zero_events(case)
    if not z or not Fraction(case['ns']) / case['N'] < 1 - Fraction(opa):
        return None
    v0 = impl_value(case)
    scale = _scale(case, opa)
    for drop in (z, z[:1]):
        v1 = impl_value(without_events(case, drop))
        if not abs(v1 - v0) <= REL_TOL * scale + _budget(case):
            return ('removing %d zero-ratio event(s) by the event selection (N=%d kept) changes log Lambda: '
                    '%r -> %r (sum|terms| %.3g, ns=%r)' % (len(drop), case['N'], v0, v1, scale, case['ns']))
    return None


@_guard
def o_decimal(ctx, case):
    opa, _ = _constants()
    d = doc_formula(case, opa)
    if d is None:
        return None
    v = impl_value(case)
    want, sumabs, n_taylor = d
    # conditioning of the pure-background term: the rounding of ns/N (<= 1 ulp) is amplified by 1/(1-ns/N)
    cond = _budget(case)
    if not (v == v and abs(decimal.Decimal(v) - want) <= decimal.Decimal(REL_TOL) * sumabs + decimal.Decimal(cond)):
        return ('log Lambda = %r but the documented formula gives %.17g (sum|terms| %.3g; kind=%s N=%d N\'=%d '
                'Taylor events=%d ns=%r)' % (v, float(want), float(sumabs), case['kind'], case['N'],
                                             len(_selected(case)), n_taylor, case['ns']))
    return None


@_guard
def o_counts(ctx, case):
    """N, N' and N - N' of the trial data manager: N is the explicit n_events or, by default, the number of raw
    events (before the selection); N' the number of events the selection keeps"""
    b = build(case)
    got = (int(b.tdm.n_events), int(b.tdm.n_selected_events), int(b.tdm.n_pure_bkg_events))
    want = expected_counts(case)
    if got != want:
        return ('TrialDataManager after initialize_trial(n_events=%s, %d raw events, selection keeps %d): '
                '(n_events, n_selected_events, n_pure_bkg_events) = %r, expected %r' % (
                    'None' if case.get('n_none') else case['N'], case['E'], want[1], got, want))
    return None


@_guard
def o_reuse(ctx, case):
    """several evaluations within one trial on the same objects: every value equals the documented formula, the same
    ns gives the bit-identical value again, and no evaluation writes into the arrays handed out by its inputs"""
    opa, _ = _constants()
    seq = ns_sequence(case)
    o = impl_sequence(case)
    if o['touched']:
        return '%s (kind=%s share=%s)' % (o['touched'], case['kind'], bool(case.get('share')))
    for i, (ns, v) in enumerate(zip(seq, o['values'])):
        ci = eval_case(case, i)
        d = doc_formula(ci, opa, ns=ns)
        if d is None:
            continue
        want, sumabs, _nt = d
        cond = _budget(ci, ns)
        if not (v == v and abs(decimal.Decimal(v) - want) <= decimal.Decimal(REL_TOL) * sumabs + decimal.Decimal(cond)):
            return ('evaluation %d of %d on the same objects (ns=%r): log Lambda = %r but the documented formula gives '
                    '%.17g (kind=%s share=%s%s, earlier values %r)' % (
                        i + 1, len(seq), ns, v, float(want), case['kind'], bool(case.get('share')),
                        ', data field parameters (g1, g2) = %r after %r' % (eval_plan(case)[i][1], [e[1] for e in eval_plan(case)[:i]])
                        if _is_gfdf(case) else '', o['values'][:i]))
    if len(seq) == 3 and eval_plan(case)[0][1:] == eval_plan(case)[2][1:] and not (o['values'][0] == o['values'][2] or (o['values'][0] != o['values'][0] and o['values'][2] != o['values'][2])):
        return 'evaluating ns=%r again after ns=%r gives %r instead of %r (kind=%s)' % (
            seq[0], seq[1], o['values'][2], o['values'][0], case['kind'])
    return None


@_guard
def o_trials(ctx, case):
    """2-3 trials on one object graph: every evaluation of every trial equals the documented formula for that trial's
    events and what a fresh object graph gives; event counts are those of the trial; no input array is written"""
    opa, _ = _constants()
    outs = run_trials(case)
    for t, o in enumerate(outs):
        ct = trial_case(case, t)
        tag = 'trial %d of %d on the same objects (kind=%s, %d events%s)' % (
            t + 1, len(outs), ct['kind'], ct['E'], '' if t == 0 else ', previous trial %d events' % trial_case(case, t - 1)['E'])
        if o['counts'] != expected_counts(ct):
            return '%s: (n_events, n_selected_events, n_pure_bkg_events) = %r, expected %r' % (tag, o['counts'], expected_counts(ct))
        if o['touched']:
            return '%s: %s' % (tag, o['touched'])
        fresh = impl_sequence(ct)
        for i, (ns, v, vf) in enumerate(zip(ns_sequence(ct), o['values'], fresh['values'])):
            d = doc_formula(ct, opa, ns=ns)
            if d is None:
                continue
            want, sumabs, _nt = d
            cond = _budget(ct, ns)
            tol = decimal.Decimal(REL_TOL) * sumabs + decimal.Decimal(cond)
            if not (v == v and abs(decimal.Decimal(v) - want) <= tol):
                return ('%s, evaluation %d (ns=%r): log Lambda = %r but the documented formula for this trial\'s events gives '
                        '%.17g and a fresh object graph gives %r' % (tag, i + 1, ns, v, float(want), vf))
            if not (v == vf or abs(decimal.Decimal(v) - decimal.Decimal(vf)) <= tol):
                return '%s, evaluation %d (ns=%r): log Lambda = %r but a fresh object graph gives %r' % (tag, i + 1, ns, v, vf)
    return None


# ---- correspondence (model vs implementation), also usable for --replay

def model_request(case, opa, ns=None, idx=None):
    """idx: the (src_idxs, evt_idxs, eid of the selected events) of the real TrialDataManager (needed for 'wsob')"""
    kind, N, ns = case['kind'], case['N'], (case['ns'] if ns is None else ns)
    sel = _selected(case)
    if kind == 'single':
        # the model performs the selection itself (evalSel): all raw events, the keep mask, the n_events argument
        return 'C01', 'sel %s %s %s %s %s' % (f2b(opa), '-' if case.get('n_none') else str(N), f2b(ns),
                                              flist(case['R'][0]), ilist(int(x) for x in _mask(case)[0]))
    if kind == 'expr':
        return 'C01', 'rex %s %d %s %s' % (f2b(opa), N, f2b(ns), _expr_tokens(case['expr'], sel))
    if kind == 'wsob' or (kind == 'weighted' and case.get('other_rows')):
        eid = idx['eid']
        rows = [[a * y for a, y in zip(case['a'], r)] for r in (case.get('other_rows') or [])]
        jidx = int(case.get('jidx') or 0) if rows else 0
        rows.insert(jidx, list(case['a']))
        tab = '%d:%d:%s' % (jidx, len(case['a']), flist(x for r in rows for x in r))
        if kind == 'weighted':            # a bare ratio is signal-over-background with background density 1
            sv = [case['R'][k][eid[i]] for k, i in zip(idx['src'], idx['evt'])]
            return 'C03', 'wsob %s %s %s %d %d %s %s %s %s %s -' % (
                f2b(opa), f2b(ns), f2b(1.0), N, len(eid), tab, flist(sv), ilist(idx['src']), ilist(idx['evt']),
                flist(1.0 for e in eid))
        sv = [case['s'][k][eid[i]] for k, i in zip(idx['src'], idx['evt'])]
        r2 = '-' if case.get('R2') is None else flist(case['R2'][k][eid[i]] for k, i in zip(idx['src'], idx['evt']))
        return 'C03', 'wsob %s %s %s %d %d %s %s %s %s %s %s' % (
            f2b(opa), f2b(ns), f2b(case['zb']), N, len(eid), tab, flist(sv), ilist(idx['src']),
            ilist(idx['evt']), flist(case['b'][e] for e in eid), r2)
    if kind == 'product':
        return 'C01', 'comp %s %d %s %s %s %s %s' % (
            f2b(opa), N, f2b(ns), f2b(1.0), flist(case['R'][0][e] for e in sel), flist(1.0 for e in sel),
            flist(case['R2'][e] for e in sel))
    if kind == 'sob':
        r2 = case.get('R2')
        return 'C01', 'comp %s %d %s %s %s %s %s' % (
            f2b(opa), N, f2b(ns), f2b(case['zb']), flist(case['s'][0][e] for e in sel),
            flist(case['b'][e] for e in sel), flist((r2[e] if r2 is not None else 1.0) for e in sel))
    m = _mask(case)
    K = len(case['a'])
    flat = [(case['R'][k][e] if m[k][e] else 0.0) for k in range(K) for e in sel]
    return 'C03', 'multi %s %s %d %s %s 1 %d %d %s' % (
        f2b(opa), f2b(ns), K, flist(case['a']), flist([1.0] * K), N, len(sel), flist(flat))


def corr_compare(case, impl, ans, opa, ns=None):
    ns = case['ns'] if ns is None else ns
    toks = ans.split(' ')
    if toks[0] == 'none':
        return 'model: index out of range / shape mismatch in the values arrays (%r)' % (ans,)
    model = b2f(toks[0])
    if ns == 0:
        if not (impl == 0.0 and model == 0.0):
            return 'ns=0: implementation %r, model %r (both must be exactly 0)' % (impl, model)
        return None
    scale = b2f(toks[1]) if (case['kind'] != 'weighted' or case.get('other_rows')) else b2f(toks[2])     # sum |terms| computed by the model
    if not abs(impl - model) <= REL_TOL * scale + _budget(case, ns):
        return 'implementation %r, model %r, |diff| %.3g > %.0e * sum|terms| (%.3g)' % (
            impl, model, abs(impl - model), REL_TOL, scale)
    return None


def counts_request(case):
    return 'counts %s %d %d' % ('-' if case.get('n_none') else str(case['N']), case['E'], len(_selected(case)))


def corr_sequence(ctx, case, opa, o, answers, counts_answer):
    """compare everything observed on one set of objects (impl_sequence) with the model lines"""
    got = ' '.join(str(x) for x in o['counts'])
    if got != counts_answer:
        return 'event counts (N, N\', N-N\'): implementation %s, model %s' % (got, counts_answer)
    for i, (ns, v, ans) in enumerate(zip(ns_sequence(case), o['values'], answers)):
        d = corr_compare(eval_case(case, i), v, ans, opa, ns=ns)
        if d:
            return 'evaluation %d on the same objects (ns=%r): %s' % (i + 1, ns, d)
    return None


def o_corr(ctx, case):
    opa, _ = _constants()
    try:
        outs = run_trials(case)
    except Exception as e:  # noqa
        fx.reraise_fixture_error(e)
        return 'evaluate raised %s: %s' % (type(e).__name__, e)
    for t, o in enumerate(outs):
        ct = trial_case(case, t)
        drv = _driver_of(ct)
        ans = ctx.driver(drv, [model_request(eval_case(ct, i), opa, ns=ns, idx=o['idx'])[1] for i, ns in enumerate(ns_sequence(ct))])
        cnt = ctx.driver('C01', [counts_request(ct)])[0]
        d = corr_sequence(ctx, ct, opa, o, ans, cnt)
        if d:
            return ('trial %d: ' % (t + 1) if len(outs) > 1 else '') + d
    return None


# --------------------------------------------------------------------------------------------------
# round 7: ZeroSigH0SingleDatasetTCLLHRatio.calculate_log_lambda_and_grads called directly (public method; evaluate
# hands it N, ns, Xi): array-level model `calcLogLambda` (masks, uninitialised buffer, gather / scatter), with the glue
# as generated dimensions (form of Xi / N / ns, number of further fit parameters, tracing, object re-used across calls)

_DIRECT_OBJ = {}


def _direct_llh(tracing):
    if tracing not in _DIRECT_OBJ:
        cfg = fx.make_cfg()
        if tracing:
            cfg['debugging']['enable_tracing'] = True
        src = fx.make_sources(1)
        shg = fx.make_shg_mgr(cfg, src)
        pmm = fx.make_pmm(src)
        tdm = fx.make_tdm(shg, pmm, 1, n_events=2)
        _DIRECT_OBJ[tracing] = fx.make_single_llhratio(cfg, pmm, shg, tdm, fx.StubPDFRatio(cfg, np.ones((1, 1))))
    return _DIRECT_OBJ[tracing]


def direct_xi(case):
    """Xi = (Ri - 1.)/N exactly as evaluate computes it (float64)"""
    return (np.array(case['R'][0], dtype=np.float64) - 1.) / case['N']


def direct_call(case, ns=None, fresh=False):
    """-> (log_lambda, grads, text if an input array was written to)"""
    d = case['direct']
    if fresh:
        _DIRECT_OBJ.pop(bool(d.get('tracing')), None)
    llh = _direct_llh(bool(d.get('tracing')))
    ns = case['ns'] if ns is None else ns
    xi = direct_xi(case)
    E = len(xi)
    if d['xi'] == 'strided':
        buf = np.full(2 * E + 1, 7.0)
        buf[1::2] = xi
        Xi = buf[1::2]
    elif d['xi'] == 'readonly':
        Xi = xi.copy()
        Xi.setflags(write=False)
    else:
        Xi = xi.copy()
    ncol = d['ncol']
    pidx = d['pidx']
    dX = np.zeros((E, ncol), dtype=np.float64)
    if d['xi'] == 'readonly':
        dX.setflags(write=False)
    pm = np.ones((ncol + 1,), dtype=np.bool_)
    pm[pidx] = False
    N = {'int': int, 'np.int64': np.int64}[d['N']](case['N'])
    nsv = {'float': float, 'np.float64': np.float64}[d['ns']](ns)
    before = (Xi.tobytes(), dX.tobytes(), pm.tobytes())
    with np.errstate(all='ignore'):
        (v, g) = llh.calculate_log_lambda_and_grads(N=N, ns=nsv, ns_pidx=pidx, p_mask=pm, Xi=Xi, dXi_dp=dX)
    touched = None
    if (Xi.tobytes(), dX.tobytes(), pm.tobytes()) != before:
        touched = 'calculate_log_lambda_and_grads wrote into one of its input arrays (Xi, dXi_dp, p_mask)'
    return float(v), np.asarray(g), touched


@_guard
def o_direct(ctx, case):
    opa, _ = _constants()
    v, g, touched = direct_call(case)
    where = 'calculate_log_lambda_and_grads(N=%d, ns=%r, Xi=(R-1)/N of %d events, forms %r)' % (
        case['N'], case['ns'], case['E'], case['direct'])
    if touched:
        return touched + ' ' + where
    if g.shape != (case['direct']['ncol'] + 1,):
        return 'gradient array of shape %r for %d fit parameters; %s' % (g.shape, case['direct']['ncol'] + 1, where)
    v0 = direct_call(case, ns=0.0)[0]
    if not v0 == 0.0:
        return 'log Lambda(ns=0) = %r, not exactly 0; %s' % (v0, where)
    v2 = direct_call(case)[0]
    if f2b(v2) != f2b(v):
        return 'the same call after a call with ns=0 on the same object gives %r, before %r; %s' % (v2, v, where)
    vf = direct_call(case, fresh=True)[0]
    if f2b(vf) != f2b(v):
        return 'a fresh object gives %r, the used one %r; %s' % (vf, v, where)
    d = doc_formula(case, opa)
    if d is None:
        return None
    ref, scale = float(d[0]), float(d[1])
    if not abs(v - ref) <= REL_TOL * scale + _budget(case):
        return 'log Lambda = %r but the documented formula gives %r (sum|terms| %.3g); %s' % (v, ref, scale, where)
    return None


def gen_direct_case(rng, opa, zb, cls):
    if cls == 'threshold-exact':
        # R = 0, N = 2^k, ns = N*(1 - opa): Xi = -1/N and alpha_i = ns*Xi are exact, alpha_i is the very float
        # `one_plus_alpha - 1` the mask compares with (ns < N holds)
        N = 2 ** rng.randrange(0, 5)
        R = [0.0] + [gen_ratio(rng) for _ in range(rng.randrange(0, min(N, 4)))]
        rng.shuffle(R)
        base = dict(kind='single', E=len(R), N=N, R=[R], ns=N * -(opa - 1.0))
    elif cls == 'empty':
        N = rng.randrange(1, 50)
        base = dict(kind='single', E=0, N=N, R=[[]], ns=rng.choice([0.0, rng.uniform(0, N) * (1 - 1e-9), -0.01]))
    elif cls == 'all-taylor':
        E = rng.randrange(1, 9)
        N = E + rng.randrange(0, 5)
        base = dict(kind='single', E=E, N=N, R=[[rng.choice([0.0, 1e-9 * rng.random(), 1e-4 * rng.random()]) for _ in range(E)]],
                    ns=N * rng.uniform(0.9992, 0.99999))
    else:
        c = _strip(gen_case(rng, opa, zb, small=rng.random() < 0.5, kind='single'))
        Rs = [float(x) for x in eff_ratios(c)]
        base = dict(kind='single', E=len(Rs), N=c['N'], R=[Rs], ns=c['ns'])
    base.update(mask=None, multi=False, key=None, n_none=False, share=False, ns2=None)
    ncol = rng.choice([0, 0, 1, 2])
    base['direct'] = dict(xi=rng.choice(['contiguous', 'contiguous', 'strided', 'readonly']), N=rng.choice(['int', 'np.int64']),
                          ns=rng.choice(['float', 'np.float64']), ncol=ncol, pidx=rng.randrange(ncol + 1),
                          tracing=rng.random() < 0.15, cls=cls)
    return base


def run_direct(ctx, opa, zb):
    """the array-level model against the real method; returns nothing, reports violations itself"""
    rng = ctx.rng
    r7 = _r7_structure()
    import inspect
    try:
        from skyllh.core.llhratio import ZeroSigH0SingleDatasetTCLLHRatio as _Z
        params = [p for p in inspect.signature(_Z.calculate_log_lambda_and_grads).parameters if p != 'self']
    except Exception as e:  # noqa
        params = repr(e)
    if params != R7_RECORDED['calc_params']:
        ctx.note('calculate_log_lambda_and_grads has the parameters %r (recorded %r): the direct-call correspondence of the '
                 'array-level model is skipped, the model is still compared through evaluate' % (params, R7_RECORDED['calc_params']))
        ctx.extra['direct_call_correspondence'] = 'skipped (signature changed)'
        return False
    n = ctx.n(160, 4000)
    classes = ['generated'] * 6 + ['threshold-exact', 'empty', 'all-taylor', 'all-taylor']
    cases = [gen_direct_case(rng, opa, zb, classes[i % len(classes)]) for i in range(n)]
    reqs = []
    for c in cases:
        xi = [float(x) for x in direct_xi(c)]
        for strict in (1, 0):
            reqs.append('msk %d %s %s %d %s %s' % (strict, f2b(opa), f2b(r7['coeff']), c['N'], f2b(c['ns']), flist(xi)))
    ans = ctx.driver('C01', reqs)
    for i, c in enumerate(cases):
        d = c['direct']
        ctx.case(key=('direct', c), desc={'direct': dict(c, R='...')} if i % 53 == 0 else None)
        ctx.count('direct-call:class:' + d['cls'])
        ctx.count('direct-call:Xi-form:' + d['xi'])
        ctx.count('direct-call:N-form:' + d['N'] + ',ns-form:' + d['ns'])
        ctx.count('direct-call:other-fit-parameters:%d,ns_pidx=%d%s' % (d['ncol'], d['pidx'], ',tracing' if d['tracing'] else ''))
        a_src = ans[2 * i + (0 if r7['strict'] else 1)].split(' ')
        a_oth = ans[2 * i + (1 if r7['strict'] else 0)].split(' ')
        ctx.count('branch:calcLogLambda:any-unstable' if a_src[1] == '1' else 'branch:calcLogLambda:all-stable')
        ctx.count('branch:pass1:stable-slot-written', int(a_src[3]))
        ctx.count('branch:pass1:unstable-slot-left-uninitialised', int(a_src[2]))
        ctx.count('branch:scatterU:slot-written', int(a_src[4]))
        ctx.count('branch:scatterU:stable-slot-kept', int(a_src[3]) if a_src[1] == '1' else 0)
        ctx.count('branch:stableMask:' + ('strict' if r7['strict'] else 'non-strict'))
        if a_src[2] != a_oth[2]:
            ctx.count('direct-call:event-exactly-at-threshold(mask operators differ, values must not)')
        bad = None
        try:
            v, g, touched = direct_call(c)
        except Exception as e:  # noqa
            fx.reraise_fixture_error(e)
            bad = 'calculate_log_lambda_and_grads raised %s: %s' % (type(e).__name__, e)
        if bad is None:
            if a_src[0] == 'none' or a_oth[0] == 'none':
                bad = 'the array-level model reads an uninitialised slot (%s / %s)' % (a_src[0], a_oth[0])
            else:
                sc = _scale(c, opa)
                tol = REL_TOL * (sc if sc == sc else 0.0) + _budget(c)
                for m in (b2f(a_src[0]), b2f(a_oth[0])):
                    if not (abs(v - m) <= tol or abs(v - m) <= REL_TOL * max(abs(v), abs(m)) + _budget(c) or (v != v and m != m)):
                        bad = 'implementation %r, array-level model %r' % (v, m)
                if c['ns'] == 0 and not (v == 0.0 and b2f(a_src[0]) == 0.0):
                    bad = 'ns = 0: implementation %r, model %r, not both exactly 0' % (v, b2f(a_src[0]))
                if touched:
                    bad = touched
        ctx.count('oracle:direct')
        res = ORACLES['direct'](ctx, c)
        if res:
            ctx.violation('direct', c, res, signature='C01/calculate_log_lambda_and_grads/' + (
                'raises' if res.startswith('evaluate raised') else 'differs-from-documented-formula'))
        elif bad:
            ctx.violation('corr', c, 'array-level model and calculate_log_lambda_and_grads disagree (%s) but the oracle does not '
                          'fail on this input' % bad, kind='correspondence',
                          relation='|impl - calcLogLambda| <= %.0e * sum|terms| + rounding budget' % REL_TOL,
                          signature='C01/corr/direct', no_failing_input=True)
    ctx.extra['direct_call_correspondence'] = '%d cases' % len(cases)
    return True


ORACLES = {'zero_at_ns0': o_zero_at_ns0, 'perm': o_perm, 'zero_removal': o_zero_removal,
           'decimal': o_decimal, 'counts': o_counts, 'reuse': o_reuse, 'trials': o_trials, 'corr': o_corr, 'direct': o_direct}

_SIG = {'zero_at_ns0': 'C01/evaluate/nonzero-at-ns0', 'perm': 'C01/evaluate/event-order-dependent',
        'zero_removal': 'C01/evaluate/zero-ratio-removal-changes-value',
        'decimal': 'C01/evaluate/differs-from-documented-formula',
        'counts': 'C01/TrialDataManager.initialize_trial/wrong-event-counts',
        'reuse': 'C01/evaluate/repeated-evaluation-differs',
        'trials': 'C01/evaluate/depends-on-previous-trial'}


def _signature(name, res):
    if res.startswith('evaluate raised'):
        return 'C01/evaluate/raises-' + res.split(' ')[2].rstrip(':')
    if name in ('reuse', 'trials') and ' modified ' in res:
        return 'C01/evaluate/writes-into-input-arrays'
    return _SIG[name]


# --------------------------------------------------------------------------------------------------
# generators

def gen_ratio(rng):
    u = rng.random()
    if u < 0.15:
        return 0.0
    if u < 0.45:
        return 10.0 ** rng.uniform(-12, 12)
    if u < 0.50:
        return 10.0 ** rng.uniform(12, 15)               # the quantifier says "ratios from 0 to > 1e12"
    if u < 0.85:
        return rng.uniform(0.0, 3.0)
    if u < 0.95:
        return 10.0 ** rng.uniform(-9, -3)
    return float(2 ** rng.randrange(-8, 9))


def gen_ns(rng, N, Rs, opa):
    """-> (ns, class)"""
    u = rng.random()
    alpha = opa - 1
    if u < 0.30:
        return rng.uniform(0, N) * (1 - 1e-12), 'ns:uniform[0,N)'
    if u < 0.45:
        return N * (1 - 10.0 ** rng.uniform(-9, -1)), 'ns:close-to-N'
    if u < 0.50:
        return 0.0, 'ns:0'
    if u < 0.58:
        return 10.0 ** rng.uniform(-12, 0) * min(N, 5), 'ns:small'
    if u < 0.75:
        ns = -N * 10.0 ** rng.uniform(-9, -0.3)
        rmax = max(Rs + [1.0])
        if rng.random() < 0.75 and -ns * rmax / N > 1e3:
            # keep the Taylor terms of the huge-ratio events from swamping every other term (and the tolerance)
            ns = -1e3 * N / rmax * rng.uniform(0.1, 1.0)
            return ns, 'ns:negative(capped)'
        return ns, 'ns:negative'
    # targeted at the regime boundary: event t sits at alpha-eps, alpha, alpha+eps
    cands = [R for R in Rs if R != 1.0]
    rng.shuffle(cands)
    for R in cands:
        ns0 = alpha * N / (R - 1)
        if not (-N <= ns0 < N * (1 - 1e-9)):
            continue
        v = rng.choice(['=', '+ulp', '-ulp', '+1e-12', '-1e-12', '+1e-6', '-1e-6', '+1e-3', '-1e-3'])
        ns = {'=': ns0, '+ulp': float(np.nextafter(ns0, np.inf)), '-ulp': float(np.nextafter(ns0, -np.inf)),
              '+1e-12': ns0 * (1 + 1e-12), '-1e-12': ns0 * (1 - 1e-12), '+1e-6': ns0 * (1 + 1e-6),
              '-1e-6': ns0 * (1 - 1e-6), '+1e-3': ns0 * (1 + 1e-3), '-1e-3': ns0 * (1 - 1e-3)}[v]
        if -N <= ns < N:
            return ns, 'ns:boundary'
    return rng.uniform(0, N) * (1 - 1e-12), 'ns:uniform[0,N)'


def gen_case(rng, opa, zb_default, small=False, kind=None, E=None, like=None):
    """like: an earlier trial on the same objects — kind, sources, zero_bkg_ratio_value, leaf structure are kept"""
    kind = (like['kind'] if like else kind) or rng.choice(['single', 'single', 'single', 'product', 'sob', 'weighted',
                                                           'wsob', 'wsob', 'expr'])
    if E is None:
        E = rng.choice([0, 1, 1, 2, 3, 5, 8]) if (small or rng.random() < 0.5) else rng.choice([13, 21, 40, 77, 130, 200])
    N = E + rng.choice([0, 0, 1, rng.randrange(0, 10), rng.randrange(0, 1000), rng.randrange(0, 10 ** 6)])
    N = max(N, 1)
    # n_events left to its default (number of raw events) — what Analysis.unblind / initialize_trial do
    n_none = E >= 1 and rng.random() < 0.25
    if n_none:
        N = E
    case = {'kind': kind, 'E': E, 'N': N, 'mask': None, 'multi': rng.random() < 0.25, 'key': None,
            'n_none': n_none, 'share': rng.choice([False, False, True, True, 'strided', 'readonly'])}
    if kind == 'single':
        case['R'] = [[gen_ratio(rng) for _ in range(E)]]
    elif kind == 'expr':
        def leaf():
            return ['L', [(lambda x: x ** (1.0 / 3) if x > 1e-9 else x)(gen_ratio(rng)) for _ in range(E)]]

        def sobleaf():
            b = [rng.choice([0.0, 1.0, rng.uniform(0, 2), -0.5, float('nan')]) for _ in range(E)]
            return ['S', rng.choice([zb_default, 0.0, 2.5]), [rng.uniform(0, 3) * (bb if bb > 0 else 1.0) for bb in b], b]
        case['expr'] = rng.choice([
            lambda: ['P', ['P', leaf(), leaf()], leaf()],
            lambda: ['P', leaf(), ['P', leaf(), leaf()]],
            lambda: ['P', sobleaf(), ['P', leaf(), leaf()]],
            lambda: ['P', ['P', sobleaf(), leaf()], leaf()],
            lambda: ['P', ['P', leaf(), leaf()], ['P', leaf(), sobleaf()]],
            lambda: ['P', ['P', ['P', leaf(), leaf()], leaf()], leaf()]])()
    elif kind == 'product':
        r1 = [gen_ratio(rng) for _ in range(E)]
        case['R'] = [[math.sqrt(x) if x > 1e-9 else x for x in r1]]
        case['R2'] = [math.sqrt(gen_ratio(rng)) for _ in range(E)]
    elif kind in ('sob', 'wsob'):
        # background densities: positive, exactly zero, and what a spline / histogram PDF can also deliver:
        # negative undershoots, -0.0, nan — wherever the density is not > 0 the ratio is zero_bkg_ratio_value
        b = [rng.choice([0.0, 0.0, 1.0, 10.0 ** rng.uniform(-6, 6), rng.uniform(0, 2), rng.uniform(0, 2),
                         -0.0, -10.0 ** rng.uniform(-6, 1), float('nan')]) for _ in range(E)]
        case['b'] = b
        Ks = 1
        if kind == 'wsob':
            Ks = len(like['a']) if like else rng.randrange(2, 6)
            case['a'] = list(like['a']) if like else [rng.choice([0.0, 1.0, 10.0 ** rng.uniform(-6, 6), rng.uniform(0, 3)]) for _ in range(Ks)]
            if sum(case['a']) <= 0:
                case['a'][rng.randrange(Ks)] = 1.0
        case['s'] = [[gen_ratio(rng) * (bb if bb > 0 else 1.0) for bb in b] for _ in range(Ks)]
        case['zb'] = like['zb'] if like else rng.choice([zb_default, zb_default, 0.0, 2.5])
        with_r2 = (like.get('R2') is not None) if like else rng.random() < 0.5
        if kind == 'wsob':
            case['R2'] = [[rng.uniform(0, 2) for _ in range(E)] for _ in range(Ks)] if with_r2 else None
        else:
            case['R2'] = [rng.uniform(0, 2) for _ in range(E)] if with_r2 else None
    else:
        K = len(like['a']) if like else rng.randrange(1, 6)
        case['a'] = list(like['a']) if like else [rng.choice([0.0, 1.0, 10.0 ** rng.uniform(-6, 6), rng.uniform(0, 3)]) for _ in range(K)]
        if sum(case['a']) <= 0:
            case['a'][rng.randrange(K)] = 1.0
        case['R'] = [[gen_ratio(rng) for _ in range(E)] for _ in range(K)]
    K = _K(case)
    if kind in ('weighted', 'wsob') and not like and rng.random() < 0.6:
        # the dataset is one of several held by the weight service (J = 2..4): rows of yields of the other datasets
        case['other_rows'] = [[rng.choice([0.0, rng.uniform(0.1, 10), 10.0 ** rng.uniform(-3, 3)]) for _ in range(K)]
                              for _ in range(rng.randrange(1, 4))]
        case['jidx'] = rng.randrange(len(case['other_rows']) + 1)
    elif like:
        case['other_rows'], case['jidx'] = like.get('other_rows'), like.get('jidx')
    # event selection: none / drop the zero-ratio events / random (source, event) pairs
    u = rng.random()
    if n_none and E > 1:
        u = u * 0.5 if rng.random() < 0.8 else u          # mostly together with a selection that drops events
    if u < 0.25 and E > 0:
        tmp = dict(case)
        z = zero_events(tmp)
        if z:
            case = without_events(case, z)
            case['_sel'] = 'sel:zero-ratio-dropped'
    elif u < 0.5 and E > 0:
        case['mask'] = [[rng.random() < 0.7 for _ in range(E)] for _ in range(K)]
        case['_sel'] = 'sel:random-pairs'
    case.setdefault('_sel', 'sel:none')
    if rng.random() < 0.3 and E > 0:
        case['key'] = [rng.choice([rng.random(), float(rng.randrange(4))]) for _ in range(E)]
        case['_sel'] += '+sorted-by-index-field'
    Rs = [float(r) for r in eff_ratios(case)]
    case['ns'], nscls = gen_ns(rng, N, Rs, opa)
    case['_ns'] = nscls
    # a second ns evaluated on the same objects in between (then the first one again)
    case['ns2'] = rng.choice([rng.uniform(0, N) * (1 - 1e-9), 0.5 * case['ns'], 0.0, -0.01 * N, gen_ns(rng, N, Rs, opa)[0]])
    case['xform'] = rng.choice(['float64', 'float64', 'strided', 'readonly', 'list'])   # form of the fit parameter values
    case['extra'] = rng.random() < 0.25         # two more floating parameters g1, g2 declared before ns
    case['gfdf'] = rng.random() < 0.5           # (with extra, kind single) a data field depending on that parameter (ns_pidx = 1, gradient loop runs)
    case['tracing'] = rng.random() < 0.1        # enable_tracing: the logger.debug f-strings are executed
    if like:
        case['multi'], case['share'] = like['multi'], like['share']
        case['extra'], case['tracing'] = like.get('extra'), like.get('tracing')
        case['xform'] = like.get('xform')
        case['gfdf'] = False
    return case


def trial_machine_request(case, opa):
    """the whole multi-trial history of a kind-'single' case as operations of the trial state machine (trialRun)"""
    toks = []
    for t in range(n_trials(case)):
        ct = trial_case(case, t)
        toks += ['T', '-' if ct.get('n_none') else str(ct['N']), flist(ct['R'][0]), ilist(int(x) for x in _mask(ct)[0])]
        for ns in ns_sequence(ct):
            toks += ['E', f2b(ns)]
    return 'trl %s %s' % (f2b(opa), ' '.join(toks))


def gen_trials_case(rng, opa, zb_default):
    """2-3 trials on one object graph: same or different event counts, zero-background / zero-ratio positions and
    selections moving between the trials"""
    kind = rng.choice(['sob', 'sob', 'wsob', 'wsob', 'product', 'single', 'single', 'weighted'])
    E0 = rng.choice([1, 2, 3, 5, 8, 13])
    case = gen_case(rng, opa, zb_default, kind=kind, E=E0)
    case['gfdf'] = False                  # the data-field plan is exercised within one trial (o_reuse / correspondence)
    case['trials'] = []
    for _ in range(rng.choice([1, 1, 2])):
        E = E0 if rng.random() < 0.65 else rng.choice([0, 1, 2, 3, 5, 8, 13])
        t = gen_case(rng, opa, zb_default, E=E, like=case)
        if E == E0 and rng.random() < 0.6:
            t['mask'] = case.get('mask')                 # same selection: the number of values stays the same
        case['trials'].append({k: t.get(k) for k in _TRIAL_FIELDS})
    return case


def _strip(case):
    return {k: v for k, v in case.items() if not k.startswith('_')}


def in_domain(case):
    """the quantifier of the property: N >= 1, N >= N', every evaluated ns < N"""
    return (case['N'] >= 1 and case['N'] >= len(_selected(case)) and (not case.get('n_none') or case['N'] == case['E'])
            and all(ns < case['N'] for ns in ns_sequence(case)))


def shrink(case, fails, budget=40):
    """drop events while the oracle keeps failing (bounded); candidates stay inside the property's quantifier"""
    cur = case
    changed = True
    while changed and budget > 0:
        changed = False
        sel = _selected(cur)
        chunks = [sel[:len(sel) // 2], sel[len(sel) // 2:]] if len(sel) > 6 else [[e] for e in sel]
        for drop in chunks:
            if not drop or budget <= 0:
                continue
            budget -= 1
            base = without_events(cur, drop)
            lo = dict(base, N=max(1, cur['N'] - len(drop), len(_selected(base))))
            done = False
            for cand in ((base,) if cur.get('n_none') else (lo, base)):
                try:
                    if in_domain(cand) and fails(cand):
                        cur, changed, done = cand, True, True
                        break
                except Exception:  # noqa
                    pass
            if done:
                break
    return cur


# --------------------------------------------------------------------------------------------------

def run(ctx):
    rng = ctx.rng
    opa, zb = _constants(ctx)
    ctx.rule = ('event sets of 0..200 selected events out of N >= N\' (N up to 1e6), ratios exact 0 / log-uniform '
                '1e-12..1e12 / around 1 / tiny / powers of two; ns uniform in [0,N), close to N, 0, tiny, slightly '
                'negative, and targeted so that one event sits at the stability threshold (+-ulp, +-1e-12..1e-3); '
                'compositions single ratio, PDFRatioProduct, SigOverBkgPDFRatio (zero background densities), '
                'SourceWeightedPDFRatio (1..5 sources, zero weights), through the single- and the multi-dataset '
                'evaluate; without selection, with zero-ratio events dropped, with random (source,event) pairs, with '
                'index-field sorting (also combined with a selection); n_events explicit or left to its default (number of raw '
                'events) with a selection that drops events; leaf ratios/densities returned as fresh copies or as the stored '
                'array itself; three evaluations (ns, ns2, ns) per trial on the same objects; 2-3 trials on one object graph '
                '(same / different event counts, zero-background positions and selections moving); a case is non-trivial when '
                'distinct by all its inputs')
    ctx.trusted_base += ['correspondence harness harness/props/c01.py + harness/llh_fixtures.py (stub leaves)',
                         'numpy log1p / pairwise summation vs. Lean Float log1p (Kahan) / sequential sum: compared with '
                         'tolerance %.0e * sum|terms|' % REL_TOL,
                         'IEEE rounding is outside the theorems (statements over the reals)']
    ctx.assumptions += ['N >= 1, N >= N\' (number of selected events), ns < N', '0 < one_plus_alpha < 1 (proved for the '
                        'value read from the source)']
    n_cases = ctx.n(300, 10000)
    n_dec = ctx.n(300, 4000)
    cases = [gen_case(rng, opa, zb, small=(i % 3 == 0)) for i in range(n_cases)]
    # hand-made corner cases
    cases += [
        dict(kind='single', E=0, N=1, R=[[]], mask=None, multi=False, key=None, n_none=False, share=True, ns2=0.25, ns=0.5, _sel='sel:none', _ns='ns:uniform[0,N)'),
        dict(kind='single', E=1, N=1, R=[[0.0]], mask=None, multi=False, key=None, n_none=True, share=True, ns2=0.5, ns=0.9995, _sel='sel:none', _ns='ns:boundary'),
        dict(kind='single', E=2, N=2, R=[[0.0, 5e-4]], mask=None, multi=True, key=None, n_none=False, share=False, ns2=None, ns=1.9985, _sel='sel:none', _ns='ns:close-to-N'),
        dict(kind='single', E=1, N=3, R=[[1e12]], mask=None, multi=False, key=None, n_none=False, share=True, ns2=1.0, ns=-1e-3, _sel='sel:none', _ns='ns:negative'),
    ]
    reqs = {'C01': [], 'C03': []}
    where = []
    impls = []
    gf_cases = []
    for c in cases:
        cc = _strip(c)
        seq = ns_sequence(cc)
        drv = _driver_of(cc)
        try:
            o = impl_sequence(cc)
        except Exception as e:  # noqa
            fx.reraise_fixture_error(e)
            impls.append(e)
            where.append((drv, 0, 0, 0))
            continue
        impls.append(o)
        lo = len(reqs[drv])
        reqs[drv] += [model_request(eval_case(cc, i), opa, ns=ns, idx=o['idx'])[1] for i, ns in enumerate(seq)]
        where.append((drv, lo, lo + len(seq), len(reqs['C01'])))
        reqs['C01'].append(counts_request(cc))
    answers = {d: ctx.driver(d, r) for d, r in reqs.items()}
    suspicious = []
    max_rel = 0.0
    for i, (c, (drv, lo, hi, kc), o) in enumerate(zip(cases, where, impls)):
        cc = _strip(c)
        ans = answers[drv][lo:hi] if hi > lo else []
        cnt = answers['C01'][kc] if hi > lo else ''
        ctx.case(key=cc, desc={'case': {kk: (vv if kk not in ('R', 'R2', 's', 'b', 'mask', 'key') else '...') for kk, vv in cc.items()},
                               'impl': o if not isinstance(o, Exception) else repr(o)} if i % 97 == 0 else None)
        ctx.count('kind:' + c['kind'] + ('/multi' if (c.get('multi') or c['kind'] in ('weighted', 'wsob')) else '/single'))
        if c['kind'] == 'expr':
            ctx.count('composition:' + _expr_shape(c['expr']))
        if c['kind'] in ('sob', 'wsob'):
            for bb in c['b']:
                ctx.count('bkg-density:' + ('nan' if bb != bb else '>0' if bb > 0 else '<0' if bb < 0 else '0'))
        ctx.count('ns-index:%d%s' % (2 if c.get('extra') else 0, ',tracing' if c.get('tracing') else ''))
        ctx.count('fitparam-values-form:' + (c.get('xform') or 'float64'))
        if _is_gfdf(cc):
            ctx.count('global-fitparam-data-field(two parameters, single-parameter steps)')
            gf_cases.append((cc, o))
        ctx.count(c['_sel'])
        ctx.count(c['_ns'])
        ctx.count('n_events:' + ('default(None)' if c.get('n_none') else 'explicit') +
                  ('+selection-drops-events' if len(_selected(cc)) < c['E'] else ''))
        ctx.count('leaf-arrays:' + ({True: 'stored,returned-without-copy', 'strided': 'stored,non-contiguous-view', 'readonly': 'stored,read-only'}.get(c.get('share'), 'fresh-copy')))
        ctx.count('evaluations-per-trial:%d' % len(ns_sequence(cc)))
        ctx.count("N'=%s" % ('0' if not _selected(cc) else '1-8' if len(_selected(cc)) <= 8 else '9-200'))
        ctx.count('N-N\'=%s' % ('0' if c['N'] == len(_selected(cc)) else '>0'))
        if drv == 'C01' and ans:
            ntay = int(ans[0].split(' ')[2])
            ctx.count('taylor-events:%s' % ('0' if ntay == 0 else '>=1'))
            nsel_ = len(_selected(cc))
            ctx.count('branch:lamOfAlpha:taylor', ntay)
            ctx.count('branch:lamOfAlpha:stable', nsel_ - ntay)
        ctx.count('branch:pureBkgTerm:%s' % ('N=N\'' if c['N'] == len(_selected(cc)) else 'N>N\''))
        ctx.count('branch:trialCounts:%s' % ('default(raw events)' if c.get('n_none') else 'explicit'))
        ctx.count('branch:evalSel:%s' % ('drops-events' if len(_selected(cc)) < c['E'] else 'keeps-all'))
        if c['kind'] in ('sob', 'wsob'):
            ctx.count('branch:ratioSOB:0<b', sum(1 for bb in c['b'] if bb > 0))
            ctx.count('branch:ratioSOB:else', sum(1 for bb in c['b'] if not bb > 0))
        if c['kind'] == 'expr':
            def _walk(e):
                ctx.count('branch:RExpr.eval:' + {'L': 'leaf', 'P': 'prod', 'S': 'sob'}[e[0]])
                if e[0] == 'P':
                    _walk(e[1])
                    _walk(e[2])
            _walk(c['expr'])
            ctx.count('branch:ratioProductChecked:equal-lengths')
        if c['kind'] == 'product':
            ctx.count('branch:ratioProductChecked:equal-lengths')
        if c['kind'] in ('weighted', 'wsob'):
            ctx.count('branch:ratioWeighted:A!=0')
            ctx.count('weight-table-rows:%d,own-row=%s' % (1 + len(c.get('other_rows') or []), c.get('jidx') or 0))
        if isinstance(o, Exception):
            suspicious.append((cc, repr(o), ans, 'evaluate raised %s: %s' % (type(o).__name__, o)))
            continue
        d = corr_sequence(ctx, cc, opa, o, ans, cnt)
        if d is None and o['touched']:
            d = o['touched']
        if d:
            suspicious.append((cc, o, ans + [cnt], d))
        elif c['ns'] != 0 and drv == 'C01':
            sc = b2f(ans[0].split(' ')[1])
            if sc > 0:
                max_rel = max(max_rel, abs(o['values'][0] - b2f(ans[0].split(' ')[0])) / sc)
    # the cache-key logic of the data field: how often it was recalculated vs. the model's fieldRun
    gans = ctx.driver('C01', ['fld ' + ' '.join(flist(e[1]) for e in eval_plan(c_)) for c_, _o in gf_cases])
    for (c_, o_), ans_ in zip(gf_cases, gans):
        if isinstance(o_, Exception):
            continue
        flags = ans_.split(',')
        ctx.count('branch:fieldStep:recalculate', flags.count('r'))
        ctx.count('branch:fieldStep:keep', flags.count('k'))
        if o_['field_calls'] != flags.count('r'):
            suspicious.append((c_, o_, [ans_], 'the data field was calculated %d times during the evaluations %r, the model '
                               'recalculates %d times (%s)' % (o_['field_calls'], [e[1] for e in eval_plan(c_)], flags.count('r'), ans_)))
    ctx.extra['max_observed_rel_diff_model_impl'] = max_rel
    ctx.extra['correspondence_disagreements'] = len(suspicious)

    # ---- property oracles on the implementation
    for i, c in enumerate(cases):
        cc = _strip(c)
        names = ['counts', 'zero_at_ns0', 'perm', 'zero_removal', 'reuse']
        if i < n_dec or c['_ns'] == 'ns:boundary':
            names.append('decimal')
        for name in names:
            if name == 'zero_removal' and not zero_events(cc):
                continue
            if name == 'perm' and c['E'] < 2:
                continue
            if name == 'reuse' and not (i < n_dec or c.get('share')):
                continue
            ctx.count('oracle:' + name)
            res = ORACLES[name](ctx, cc)
            if res:
                small = shrink(cc, lambda x, name=name: ORACLES[name](ctx, x))
                res2 = ORACLES[name](ctx, small) or res
                ctx.violation(name, small, res2, signature=_signature(name, res2))

    # ---- the guard region of the theorems (0 < N, ns < N): outside it the code returns -inf / nan and the model
    #      (llrChecked) reports `none`; inside both give the same finite number.  (N = 0 is refused by no setter.)
    dom = []
    for (N, ns, R) in [(3, 3.0, [2.0]), (3, 4.5, [2.0, 0.5, 1.0]), (5, 5.0, [0.25]), (4, 3.999999, [0.0, 7.0]),
                       (2, -0.5, [1e13, 0.0]), (1, 1.0, []), (7, 1e9, [0.5])] + \
                      [(n, n * rng.choice([0.3, 0.999, 1.0, 1.0000001, 2.0]), [gen_ratio(rng) for _ in range(rng.randrange(0, 4))])
                       for n in (rng.randrange(4, 50) for _ in range(ctx.n(8, 200)))]:
        dom.append(dict(kind='single', E=len(R), N=N, R=[R], mask=None, multi=False, key=None, n_none=False, share=False,
                        ns=ns, ns2=None))
    dans = ctx.driver('C01', ['chk %s %d %s %s' % (f2b(opa), c['N'], f2b(c['ns']), flist(c['R'][0])) for c in dom])
    for c, ans in zip(dom, dans):
        ctx.case(key=('domain', c))
        inside = c['ns'] < c['N']
        ctx.count('guard-region:' + ('inside' if inside else 'outside(ns>=N)'))
        ctx.count('branch:llrChecked:' + ('some' if inside else 'none'))
        try:
            v = impl_value(c)
        except Exception as e:  # noqa
            fx.reraise_fixture_error(e)
            v = e
        if isinstance(v, Exception):
            ctx.violation('corr', c, 'evaluate raised %s: %s' % (type(v).__name__, v), signature='C01/evaluate/raises-' + type(v).__name__)
        elif (ans == 'none') != (not math.isfinite(v)) or (ans == 'none') == inside:
            ctx.violation('corr', c, 'guard region: N=%d ns=%r: implementation %r, guarded model %s' % (c['N'], c['ns'], v, ans),
                          kind='correspondence', relation='finite value inside 0 < N, ns < N; -inf/nan exactly outside',
                          signature='C01/corr/guard-region', no_failing_input=True)

    # ---- directed: a product whose factors return arrays of different lengths (no conforming PDFRatio does; numpy raises,
    #      the model's ratioProductChecked / RExpr.eval says none)
    class _Short(type(fx.StubPDFRatio(fx.make_cfg(), np.ones((1, 1))))):
        def get_ratio(self, tdm, src_params_recarray, tl=None):
            return super().get_ratio(tdm, src_params_recarray, tl=tl)[:-1]
    for E_ in (3, 5):
        cfg_ = fx.make_cfg()
        src_ = fx.make_sources(1)
        shg_ = fx.make_shg_mgr(cfg_, src_)
        pmm_ = fx.make_pmm(src_)
        tdm_ = fx.make_tdm(shg_, pmm_, E_, n_events=E_ + 2)
        prod_ = fx.StubPDFRatio(cfg_, np.full((1, E_), 2.0)) * _Short(cfg_, np.full((1, E_), 3.0))
        llh_ = fx.make_single_llhratio(cfg_, pmm_, shg_, tdm_, prod_)
        try:
            llh_.evaluate(fx.fitparam_values(pmm_, 1.0))
            raised_ = False
        except Exception as e:  # noqa
            fx.reraise_fixture_error(e)
            raised_ = True
        ans_ = ctx.driver('C01', ['rex %s %d %s P L %s L %s' % (f2b(opa), E_ + 2, f2b(1.0), flist([2.0] * E_), flist([3.0] * (E_ - 1)))])[0]
        ctx.case(key=('length-mismatch', E_))
        ctx.count('branch:ratioProductChecked:length-mismatch')
        ctx.count('branch:RExpr.eval:none')
        if raised_ != (ans_ == 'none'):
            ctx.violation('corr', {'E': E_}, 'product of arrays of lengths %d and %d: implementation %s, model %s' % (
                E_, E_ - 1, 'raises' if raised_ else 'returns a value', ans_), kind='correspondence',
                relation='numpy shape error <-> model none', signature='C01/corr/product-length-mismatch', no_failing_input=True)

    # ---- several trials on one object graph (new event data on the same PDFRatio / LLHRatio / TrialDataManager objects)
    n_tr = ctx.n(75, 2500)
    tcases = [gen_trials_case(rng, opa, zb) for _ in range(n_tr)]
    treqs = {'C01': [], 'C03': []}
    twhere, touts = [], []
    for c in tcases:
        cc = _strip(c)
        cc['trials'] = c['trials']
        spans = []
        try:
            outs = run_trials(cc)
        except Exception as e:  # noqa
            fx.reraise_fixture_error(e)
            touts.append(e)
            twhere.append(spans)
            continue
        touts.append(outs)
        for t in range(n_trials(cc)):
            ct = trial_case(cc, t)
            drv = _driver_of(ct)
            lo = len(treqs[drv])
            treqs[drv] += [model_request(ct, opa, ns=ns, idx=outs[t]['idx'])[1] for ns in ns_sequence(ct)]
            spans.append((drv, lo, len(treqs[drv]), len(treqs['C01'])))
            treqs['C01'].append(counts_request(ct))
        twhere.append(spans)
    # the trial state machine of the model (n_events and the selected events as state) on the kind-'single' histories,
    # and before any trial was initialised
    tm_cases = [(dict(_strip(c), trials=c['trials']), touts[i]) for i, c in enumerate(tcases)
                if c['kind'] == 'single' and not isinstance(touts[i], Exception)]
    tm_ans = ctx.driver('C01', [trial_machine_request(c, opa) for c, _o in tm_cases] + ['trl %s E %s' % (f2b(opa), f2b(1.0))])
    for (c, outs), ans in zip(tm_cases, tm_ans):
        ctx.count('trial-state-machine:histories')
        ctx.count('branch:trialStep:newTrial', n_trials(c))
        ctx.count('branch:trialStep:eval(trial initialised)', sum(len(o['values']) for o in outs))
        vals = [v for o in outs for v in o['values']]
        mv = ans.split(',') if ans != '-' else []
        bad = None
        if len(mv) != len(vals):
            bad = '%d evaluations, trial state machine %d' % (len(vals), len(mv))
        else:
            k = 0
            for t, o in enumerate(outs):
                ct = trial_case(c, t)
                for ns, v in zip(ns_sequence(ct), o['values']):
                    m = mv[k]
                    k += 1
                    if m == 'x' or not (abs(v - b2f(m)) <= REL_TOL * max(abs(v), abs(b2f(m))) + _budget(ct, ns) or
                                        abs(v - b2f(m)) <= REL_TOL * _scale(dict(ct, ns=ns), opa) + _budget(ct, ns)):
                        bad = 'trial %d ns=%r: implementation %r, trial state machine %s' % (t + 1, ns, v, 'raises' if m == 'x' else repr(b2f(m)))
                        break
                if bad:
                    break
        if bad:
            res = ORACLES['trials'](ctx, c)
            if res:
                ctx.violation('trials', c, res, signature=_signature('trials', res))
            else:
                ctx.violation('corr', c, 'trial state machine and implementation disagree (%s) but the fresh-object oracle does not fail' % bad,
                              kind='correspondence', relation='every evaluation of a history of trials = trialRun of the model',
                              signature='C01/corr/trial-state-machine', no_failing_input=True)
    # evaluate on a trial data manager that never saw initialize_trial: the code raises, the model says so
    try:
        cfg0 = fx.make_cfg()
        src0 = fx.make_sources(1)
        shg0 = fx.make_shg_mgr(cfg0, src0)
        pmm0 = fx.make_pmm(src0)
        from skyllh.core.trialdata import TrialDataManager
        llh0 = fx.make_single_llhratio(cfg0, pmm0, shg0, TrialDataManager(), fx.StubPDFRatio(cfg0, np.ones((1, 1))))
    except Exception as e:  # noqa
        fx.reraise_fixture_error(e)
        raise
    try:
        with np.errstate(all='ignore'):
            v0 = llh0.evaluate(fx.fitparam_values(pmm0, 1.0))[0]
        raised = False
    except Exception:  # noqa
        raised = True
    ctx.count('trial-state-machine:evaluate-before-any-trial')
    ctx.count('branch:trialStep:eval(no trial)')
    if (tm_ans[-1] == 'x') != raised:
        ctx.violation('corr', {'history': ['eval before initialize_trial']}, 'evaluate before any initialize_trial: implementation %s, '
                      'model %s' % ('raises' if raised else 'returns %r' % (v0,), tm_ans[-1]), kind='correspondence',
                      relation='raises <-> model none', signature='C01/corr/evaluate-before-trial', no_failing_input=True)
    tans = {d: ctx.driver(d, r) for d, r in treqs.items()}
    for i, (c, spans, outs) in enumerate(zip(tcases, twhere, touts)):
        cc = _strip(c)
        cc['trials'] = c['trials']
        Es = [trial_case(cc, t)['E'] for t in range(n_trials(cc))]
        ctx.case(key=cc, desc={'kind': cc['kind'], 'events per trial': Es, 'share': cc['share'],
                               'impl': outs if not isinstance(outs, Exception) else repr(outs)} if i % 31 == 0 else None)
        ctx.count('trials-on-one-object-graph:%d' % len(Es))
        ctx.count('trials:kind:' + cc['kind'])
        ctx.count('trials:' + ('same-number-of-events' if len(set(Es)) == 1 else 'different-number-of-events'))
        d = None
        if isinstance(outs, Exception):
            d = 'evaluate raised %s: %s' % (type(outs).__name__, outs)
        else:
            for t, ((drv, lo, hi, kc), o) in enumerate(zip(spans, outs)):
                d = corr_sequence(ctx, trial_case(cc, t), opa, o, tans[drv][lo:hi], tans['C01'][kc]) or o['touched']
                if d:
                    d = 'trial %d: %s' % (t + 1, d)
                    break
        ctx.count('oracle:trials')
        res = ORACLES['trials'](ctx, cc)
        if res:
            ctx.violation('trials', cc, res, signature=_signature('trials', res))
        elif d:
            ctx.violation('corr', cc, 'model and implementation disagree on a sequence of trials (%s) but the fresh-object / '
                          'exact oracle does not fail' % d, kind='correspondence',
                          relation='every evaluation of every trial = stateless model for that trial',
                          impl_output=outs if not isinstance(outs, Exception) else repr(outs),
                          signature='C01/corr/trials', no_failing_input=True)

    # ---- disagreements model / implementation: look for a failing input, else report the relation
    reported = set()
    for cc, impl, ans, d in sorted(suspicious, key=lambda x: x[0]['E']):
        if cc['kind'] in reported:
            continue
        reported.add(cc['kind'])
        hit = False
        for name in ('counts', 'decimal', 'zero_at_ns0', 'reuse', 'zero_removal', 'perm'):
            res = ORACLES[name](ctx, cc)
            if res:
                small = shrink(cc, lambda x, name=name: ORACLES[name](ctx, x))
                res2 = ORACLES[name](ctx, small) or res
                ctx.violation(name, small, res2, signature=_signature(name, res2), impl_output=impl, model_output=ans)
                hit = True
                break
        if not hit:
            ctx.violation('corr', cc, 'model and implementation disagree (%s) but no property oracle fails on this input' % d,
                          kind='correspondence', relation='|impl - model| <= %.0e * sum|terms| for every evaluation within a trial; '
                          'exact 0 at ns=0; equal event counts' % REL_TOL,
                          impl_output=impl, model_output=ans, signature='C01/corr/' + cc['kind'], no_failing_input=True)
    direct_ok = run_direct(ctx, opa, zb)
    branch_report(ctx, MODEL_BRANCHES + (R7_BRANCHES if direct_ok else []), UNREACHABLE_BRANCHES)


MODEL_BRANCHES = [
    'lamOfAlpha:stable', 'lamOfAlpha:taylor', "pureBkgTerm:N=N'", "pureBkgTerm:N>N'", 'trialCounts:explicit',
    'trialCounts:default(raw events)', 'evalSel:keeps-all', 'evalSel:drops-events', 'ratioSOB:0<b', 'ratioSOB:else',
    'ratioProductChecked:equal-lengths', 'ratioProductChecked:length-mismatch', 'RExpr.eval:leaf', 'RExpr.eval:prod',
    'RExpr.eval:sob', 'RExpr.eval:none', 'llrChecked:some', 'llrChecked:none', 'ratioWeighted:A!=0',
    'trialStep:newTrial', 'trialStep:eval(trial initialised)', 'trialStep:eval(no trial)', 'fieldStep:recalculate',
    'fieldStep:keep']
R7_BRANCHES = ['calcLogLambda:any-unstable', 'calcLogLambda:all-stable', 'pass1:stable-slot-written',
               'pass1:unstable-slot-left-uninitialised', 'scatterU:slot-written', 'scatterU:stable-slot-kept']
# branches of the model that no conforming input can reach through the implementation (error reports of the model only)
UNREACHABLE_BRANCHES = {'sobValues:none': 'event index out of range / length mismatch of the values arrays: the index arrays come '
                        'from the TrialDataManager itself; exercised by the driver alone'}


def branch_report(ctx, branches, unreachable):
    hits = {b: ctx.counters.get('branch:' + b, 0) for b in branches}
    ctx.extra['model_branch_hits'] = hits
    ctx.extra['zero_hit_model_branches'] = sorted(b for b, n in hits.items() if n == 0)
    ctx.extra['model_branches_unreachable_through_the_implementation'] = unreachable
    if ctx.extra['zero_hit_model_branches']:
        ctx.note('model branches not hit by this run: %s' % ', '.join(ctx.extra['zero_hit_model_branches']))


MANIFEST = dict(
    text=('Lean theorems over the reals for every 0 < one_plus_alpha < 1: the modelled evaluate equals the manual\'s '
          'formula (stable log term, second-order Taylor continuation, (N-N\')log(1-ns/N) term); the continuation agrees '
          'with log(1+a) in value, first and second derivative at the threshold and the glued per-event function is '
          'differentiable there; value 0 at ns=0; invariance under permutation of the events; removal of zero-ratio '
          'events with N kept (ns/N < 1 - threshold); N itself is independent of the selection (default n_events = raw '
          'event count); product / signal-over-background compositions, every nested composition (datatype RExpr), '
          'and independence of earlier trials on the same object (trial state machine, refinement); the array-level code '
          '(masked log1p into an uninitialised buffer, gather / continuation / scatter, sum) refines the event-wise formula for '
          'either mask operator, never reads an unwritten slot, and the coefficient 1/2 of the continuation is forced; '
          'coefficient, exponent, mask operators and signatures are read from the source. The executable '
          'model is compared with ZeroSigH0SingleDatasetTCLLHRatio.evaluate and MultiDatasetTCLLHRatio.evaluate on a '
          'real TrialDataManager on every run (three evaluations per trial and 2-3 trials on the same objects, leaf arrays handed out '
          'without copy, event counts compared as well); oracles (exact 0, permutation, zero-ratio removal, 60-digit decimal '
          'formula, event counts, repeated evaluation with byte snapshots of all input arrays, trial histories vs. fresh objects, direct calls of '
          'calculate_log_lambda_and_grads with generated argument forms) search the implementation '
          'for failing inputs.'),
    note=('Theorems are about real numbers; IEEE rounding, numpy log1p and pairwise summation enter only through the '
          'tolerance-based correspondence (1e-10 of the sum of |terms|) and the exact-0 check. N >= 1, N >= N\', ns < N assumed.'),
    design='DESIGN.md section 4 C01',
    technique='Lean 4 proof (real analysis, HasDerivAt, induction over event lists) + tolerance-based model/implementation correspondence')
