"""C19 — sky-coordinate utilities are metric-consistent and stay in canonical ranges.

Correspondence: the Float instance of Model/Coords.lean (Driver/C19.lean; same IEEE operations in the
same order as the numpy code) vs. the real functions
    skyllh.core.utils.coords.angular_separation / rotate_spherical_vector / rotate_signal_events_on_sphere,
    skyllh.i3.utils.coords.azi_to_ra_transform / ra_to_azi_transform / hor_to_equ_transform,
    skyllh.analyses.i3.publicdata_ps.utils.psi_to_dec_and_ra (stub random state with a prescribed draw).
Relation: values within 1e-12 plus the conditioning of the respective inverse trigonometric function
(stated next to each comparison); right ascensions are compared on the circle; bit-equality is only counted.
Property oracles (implementation only): exact symmetry / exact zero / range checks, 80-bit reference for
the separation, metamorphic relations (full turns, involution, separation preserved by the rotations,
separation psi of the generated directions).
"""
import ast
import math
import os

import numpy as np

from harness import extract
from harness import c19_r7_fixtures as r7
from harness.core import f2b, b2f, MachineryError

MODEL_MODULES = ['SkyllhModel.Model.Coords', 'SkyllhModel.Model.CoordsR7', 'SkyllhModel.Generated.C19']

# which code is inside the executable Lean model (compared with the real callable on every run)
MODEL_MAP = {
    'skyllh/core/utils/coords.py::angular_separation': ['Coords.angSepD', 'Coords.angSepFloor', 'Coords.angSepCall', 'Coords.vecAngle'],
    'skyllh/core/utils/coords.py::rotate_spherical_vector': ['Coords.rotateSphericalVectorD', 'Coords.rotateCall'],
    'skyllh/core/utils/coords.py::rotate_signal_events_on_sphere': ['Coords.relocateD', 'Coords.relocateCall'],
    'skyllh/i3/utils/coords.py::azi_to_ra_transform': ['Coords.aziToRa', 'Coords.aziToRaCall'],
    'skyllh/i3/utils/coords.py::ra_to_azi_transform': ['Coords.raToAzi', 'Coords.raToAziCall'],
    'skyllh/i3/utils/coords.py::hor_to_equ_transform': ['Coords.horToEqu', 'Coords.horToEquCall'],
    'skyllh/analyses/i3/publicdata_ps/utils.py::psi_to_dec_and_ra': ['Coords.psiToDecRa', 'Coords.psiToDecRaCall'],
    'skyllh/core/utils/tdm.py::get_tdm_field_func_psi': ['Coords.psiField', 'Coords.psiFieldCall', 'Coords.psiFieldCallI'],
    'skyllh/core/signalpdf.py::GaussianPSFPointLikeSourceSignalSpatialPDF.calculate_pd': ['Coords.psfField', 'Coords.gaussPsfPd'],
}

PI = math.pi
TWO_PI = 2 * math.pi
HALF_PI = math.pi / 2

RECORDED = {'sidereal_length': 0.997269566, 'sidereal_offset': 2.54199002505, 'pole_eps': 1e-12}


# ------------------------------------------------------------------------------------------
# generated constants

def _local_const(relpath, func, name):
    f = extract.find_func(extract.parse(relpath), func)
    if f is None:
        raise LookupError('%s: function %s not found' % (relpath, func))
    for node in ast.walk(f):
        if isinstance(node, ast.Assign) and any(isinstance(t, ast.Name) and t.id == name for t in node.targets):
            return float(extract.literal(node.value))
    raise LookupError('%s: %s.%s not found' % (relpath, func, name))


def _astropy_pole_eps():
    import astropy.coordinates.angles.utils as m
    with open(m.__file__) as f:
        tree = ast.parse(f.read())
    fn = extract.find_func(tree, 'offset_by')
    for node in ast.walk(fn):
        if (isinstance(node, ast.Assign) and isinstance(node.targets[0], ast.Name)
                and node.targets[0].id == 'small_sin_c' and isinstance(node.value, ast.Compare)):
            return float(ast.literal_eval(node.value.comparators[0]))
    raise LookupError('astropy offset_by: small_sin_c threshold not found')


def _constants(ctx):
    vals = dict(RECORDED)
    for key, fn in (('sidereal_length', lambda: _local_const('skyllh/i3/utils/coords.py', 'azi_to_ra_transform', '_sidereal_length')),
                    ('sidereal_offset', lambda: _local_const('skyllh/i3/utils/coords.py', 'azi_to_ra_transform', '_sidereal_offset')),
                    ('pole_eps', _astropy_pole_eps)):
        try:
            vals[key] = fn()
        except Exception as e:  # noqa
            ctx.proof['generated_fallbacks'].append(key)
            ctx.note('C19: extraction of %s failed (%s); using the recorded value %r' % (key, e, RECORDED[key]))
    return vals


RECORDED_SIGNATURES = {
    'angSepParams': ['ra1', 'dec1', 'ra2', 'dec2', 'psi_floor'],
    'angSepRequired': ['ra1', 'dec1', 'ra2', 'dec2'],
    'rotateParams': ['ra1', 'dec1', 'ra2', 'dec2', 'ra3', 'dec3'],
    'relocateParams': ['src_ra', 'src_dec', 'evt_true_ra', 'evt_true_dec', 'evt_reco_ra', 'evt_reco_dec'],
    'aziToRaParams': ['azi', 'mjd'],
    'raToAziParams': ['ra', 'mjd'],
    'horToEquParams': ['azi', 'zen', 'mjd'],
    'psiFieldFuncParams': ['psi_floor'],
}
_SIG_SOURCES = {
    'angSepParams': ('skyllh/core/utils/coords.py', 'angular_separation', 0),
    'angSepRequired': ('skyllh/core/utils/coords.py', 'angular_separation', 1),
    'rotateParams': ('skyllh/core/utils/coords.py', 'rotate_spherical_vector', 0),
    'relocateParams': ('skyllh/core/utils/coords.py', 'rotate_signal_events_on_sphere', 0),
    'aziToRaParams': ('skyllh/i3/utils/coords.py', 'azi_to_ra_transform', 0),
    'raToAziParams': ('skyllh/i3/utils/coords.py', 'ra_to_azi_transform', 0),
    'horToEquParams': ('skyllh/i3/utils/coords.py', 'hor_to_equ_transform', 0),
    'psiFieldFuncParams': ('skyllh/core/utils/tdm.py', 'get_tdm_field_func_psi', 0),
}


def _signatures(ctx):
    """parameter lists (order = the positional order the harness and the call-level model use) and the `psi_floor=None`
    defaults of the anchored functions, read from the current source"""
    sigs = {}
    for key, (rel, fn, which) in _SIG_SOURCES.items():
        try:
            sigs[key] = list(extract.func_params(rel, None, fn)[which])
        except Exception as e:  # noqa
            sigs[key] = list(RECORDED_SIGNATURES[key])
            ctx.proof['generated_fallbacks'].append(key)
            ctx.note('C19: extraction of %s failed (%s); using the recorded value' % (key, e))
    flags = {}
    for key, rel, fn in (('angSepFloorDefaultNone', 'skyllh/core/utils/coords.py', 'angular_separation'),
                         ('psiFieldFloorDefaultNone', 'skyllh/core/utils/tdm.py', 'get_tdm_field_func_psi')):
        try:
            f = extract.find_func(extract.parse(rel), fn)
            a = f.args
            pos = a.posonlyargs + a.args
            dflt = dict(zip([x.arg for x in pos[len(pos) - len(a.defaults):]], a.defaults))
            d = dflt['psi_floor']
            flags[key] = isinstance(d, ast.Constant) and d.value is None
        except Exception as e:  # noqa
            flags[key] = True
            ctx.proof['generated_fallbacks'].append(key)
            ctx.note('C19: extraction of %s failed (%s); using the recorded value True' % (key, e))
    return sigs, flags


def generated(ctx):
    v = _constants(ctx)
    sigs, flags = _signatures(ctx)
    sig_text = ''.join('/-- parameter names of `%s` (%s) -/\ndef %s : List String := %s\n'
                       % (_SIG_SOURCES[k][1], 'required only' if _SIG_SOURCES[k][2] else 'all, in order', k, extract.lean_str_list(sigs[k]))
                       for k in _SIG_SOURCES)
    sig_text += ''.join('/-- the default of `psi_floor` is `None` (no floor: model `psiFloor = none`) -/\ndef %s : Bool := %s\n'
                        % (k, 'true' if flags[k] else 'false') for k in sorted(flags))
    return ('/- generated by harness/props/c19.py from skyllh/i3/utils/coords.py; do not edit -/\n'
            'namespace Gen.C19\n'
            '/-- `_sidereal_length` in `azi_to_ra_transform` -/\n'
            'def siderealLength {F : Type} [OfScientific F] : F := %s\n'
            '/-- `_sidereal_offset` in `azi_to_ra_transform` -/\n'
            'def siderealOffset {F : Type} [OfScientific F] : F := %s\n'
            '/-- astropy `offset_by` pole threshold on `cos(lat)` -/\n'
            'def poleEps {F : Type} [OfScientific F] : F := %s\n'
            '%s'
            'end Gen.C19\n') % (extract.lean_float(v['sidereal_length']), extract.lean_float(v['sidereal_offset']),
                                extract.lean_float(v['pole_eps']), sig_text)


# ------------------------------------------------------------------------------------------
# implementation adapters (vectorised: every argument a list of floats of the same length)

def A(x):
    return np.array(x, dtype=np.float64)


class Purity:
    """Calls of the real functions go through `call`: the caller's arrays must come back byte-identical and
    no returned array may share memory with an argument."""

    def __init__(self):
        self.problem = None

    def call(self, fname, fn, arrays, **kw):
        before = [a.copy() for a in arrays]
        out = fn(*arrays, **kw)
        outs = out if isinstance(out, tuple) else (out,)
        for j, (a, b) in enumerate(zip(arrays, before)):
            if a.tobytes() != b.tobytes() and self.problem is None:
                self.problem = ('modifies-input', '%s modifies its argument %d in place (the caller\'s array changed)' % (fname, j))
            for o in outs:
                if isinstance(o, np.ndarray) and o.size and np.shares_memory(o, a) and self.problem is None:
                    self.problem = ('output-aliases-input', '%s returns an array that shares memory with its argument %d' % (fname, j))
        return out


PURE = Purity()
SYM = {'n': 0, 'exact': 0}


def impl_sep(c, floor=None):
    from skyllh.core.utils.coords import angular_separation
    return PURE.call('angular_separation', angular_separation, [A(c['ra1']), A(c['dec1']), A(c['ra2']), A(c['dec2'])],
                     psi_floor=floor)


def impl_azi2ra(azi, mjd):
    from skyllh.i3.utils.coords import azi_to_ra_transform
    return PURE.call('azi_to_ra_transform', azi_to_ra_transform, [A(azi), A(mjd)])


def impl_ra2azi(ra, mjd):
    from skyllh.i3.utils.coords import ra_to_azi_transform
    return PURE.call('ra_to_azi_transform', ra_to_azi_transform, [A(ra), A(mjd)])


def impl_hor(azi, zen, mjd):
    from skyllh.i3.utils.coords import hor_to_equ_transform
    return PURE.call('hor_to_equ_transform', hor_to_equ_transform, [A(azi), A(zen), A(mjd)])


class _StubRandom:
    """Random state with prescribed unit deviates u in [0, 1): whatever way the code asks for its uniform numbers
    (uniform(lo, hi, size), random(size), random_sample(size), rand(size)) it gets lo + (hi - lo) * u.  The values
    handed out are recorded; `t` is the circle parameter when one draw of the right size spans a full turn."""

    def __init__(self, u):
        self.u = A(u)
        self.draws = []          # (lo, hi, values)

    def _give(self, lo, hi, size):
        n = int(np.prod(size)) if size is not None else 1
        if n != len(self.u):
            raise MachineryStub('the function drew %r deviates for %d events' % (size, len(self.u)))
        vals = lo + (hi - lo) * self.u
        self.draws.append((float(lo), float(hi), vals.copy()))
        return vals.copy() if size is not None else float(vals[0])

    def uniform(self, low=0.0, high=1.0, size=None):
        return self._give(low, high, size)

    def random(self, size=None):
        return self._give(0.0, 1.0, size)

    random_sample = random

    def rand(self, *shape):
        return self._give(0.0, 1.0, shape if shape else None)


class MachineryStub(Exception):
    pass


class _StubRSS:
    def __init__(self, u):
        self.random = _StubRandom(u)


def impl_psi2(src_dec, src_ra, psi, t):
    """one call per distinct source (the source is a scalar argument of the real function).
    → (dec, ra, t_used | None): t_used is what the code drew over a full turn (None: other parametrisation)."""
    from skyllh.analyses.i3.publicdata_ps.utils import psi_to_dec_and_ra
    n = len(psi)
    dec, ra, tu = np.empty(n), np.empty(n), np.empty(n)
    known = True
    groups = {}
    for i in range(n):
        groups.setdefault((src_dec[i], src_ra[i]), []).append(i)
    for (sd, sr), idx in groups.items():
        rss = _StubRSS([t[i] / TWO_PI for i in idx])
        parr = A([psi[i] for i in idx])
        keep = parr.copy()
        d, r = psi_to_dec_and_ra(rss, sd, sr, parr)
        if parr.tobytes() != keep.tobytes() and PURE.problem is None:
            PURE.problem = ('modifies-input', 'psi_to_dec_and_ra modifies its psi argument in place')
        dec[idx], ra[idx] = d, r
        dr = rss.random.draws
        if len(dr) == 1 and abs((dr[0][1] - dr[0][0]) - TWO_PI) < 1e-9 and dr[0][0] == 0.0:
            tu[idx] = dr[0][2]
        else:
            known = False
    return dec, ra, (tu if known else None)


def impl_rot(c):
    from skyllh.core.utils.coords import rotate_spherical_vector
    return PURE.call('rotate_spherical_vector', rotate_spherical_vector,
                     [A(c['ra1']), A(c['dec1']), A(c['ra2']), A(c['dec2']), A(c['ra3']), A(c['dec3'])])


def impl_reloc(c):
    """rotate_signal_events_on_sphere(src, true, reco); direction 1 = true, 2 = source, 3 = reco"""
    from skyllh.core.utils.coords import rotate_signal_events_on_sphere
    ra, dec = PURE.call('rotate_signal_events_on_sphere', rotate_signal_events_on_sphere,
                        [A(c['ra2']), A(c['dec2']), A(c['ra1']), A(c['dec1']), A(c['ra3']), A(c['dec3'])])
    return np.asarray(ra, dtype=np.float64), np.asarray(dec, dtype=np.float64)


# ------------------------------------------------------------------------------------------
# reference: the angle between the unit vectors of float64 directions, in extended precision

LD = np.longdouble
_LD_OK = np.finfo(LD).eps < 1e-18
_W = 1.0 if _LD_OK else 1e4      # widening of reference-based tolerances without an extended type


def ref_sep(ra1, dec1, ra2, dec2):
    """The angle between the unit vectors in np.longdouble (80-bit on x86-64): haversine below 0.1 rad (keeps
    relative accuracy ~1e-19 down to the smallest separations), Vincenty above (absolute ~1e-19)."""
    ra1, dec1, ra2, dec2 = (np.asarray(x, dtype=np.float64).astype(LD) for x in (ra1, dec1, ra2, dec2))
    dl = ra2 - ra1
    n1 = np.cos(dec2) * np.sin(dl)
    n2 = np.cos(dec1) * np.sin(dec2) - np.sin(dec1) * np.cos(dec2) * np.cos(dl)
    den = np.sin(dec1) * np.sin(dec2) + np.cos(dec1) * np.cos(dec2) * np.cos(dl)
    vin = np.arctan2(np.hypot(n1, n2), den)
    x = np.sin((dec1 - dec2) / 2) ** 2 + np.cos(dec1) * np.cos(dec2) * np.sin(dl / 2) ** 2
    hav = 2 * np.arcsin(np.sqrt(np.clip(x, 0, 1)))
    return np.where(vin < 0.1, hav, vin)


def ref_reloc_sin_dec(c):
    """sin(dec) of the direction rotate_signal_events_on_sphere has to return (astropy's cos_b), 80-bit"""
    ra1, dec1, ra2, dec2, ra3, dec3 = (A(c[k]).astype(LD) for k in ('ra1', 'dec1', 'ra2', 'dec2', 'ra3', 'dec3'))
    dl = ra3 - ra1
    x = np.sin(dec3) * np.cos(dec1) - np.cos(dec3) * np.sin(dec1) * np.cos(dl)
    y = np.sin(dl) * np.cos(dec3)
    pa = np.arctan2(y, x)
    d = ref_sep(ra1, dec1, ra3, dec3)
    return np.asarray(np.sin(dec2) * np.cos(d) + np.cos(dec2) * np.sin(d) * np.cos(pa), dtype=np.float64)


def sub_err(a, b):
    """rounding error of the float64 subtraction a - b (0 when exact, e.g. by Sterbenz' lemma)"""
    a, b = np.asarray(a, dtype=np.float64), np.asarray(b, dtype=np.float64)
    return np.abs(np.asarray((a.astype(LD) - b.astype(LD)) - (a - b).astype(LD), dtype=np.float64))


def sep_tol(psi):
    """|Δψ| allowed for a float64 haversine 2·arcsin√x whose argument carries a relative error of a few ulp:
    dψ = (dx/x)·tan(ψ/2), i.e. *relative* to ψ for small separations (2e-15·ψ), growing towards the antipode and
    saturating at 2·√dx ≈ 6.5e-8 (x rounds to 1: separations within 6.5e-8 rad of π are not resolved)."""
    psi = np.asarray(psi, dtype=np.float64)
    t = np.tan(np.minimum(psi, PI) / 2)
    t = np.where((t < 0) | (t > 6.5e7), 6.5e7, t)
    return 1e-12 * psi + 1e-15 * t + 5e-324


def circ_diff(a, b):
    d = np.abs(np.asarray(a, dtype=np.float64) - np.asarray(b, dtype=np.float64)) % TWO_PI
    return np.minimum(d, TWO_PI - d)


def unit(ra, dec):
    ra, dec = np.asarray(ra, dtype=np.float64), np.asarray(dec, dtype=np.float64)
    return np.stack([np.cos(ra) * np.cos(dec), np.sin(ra) * np.cos(dec), np.sin(dec)], axis=-1)


def dir_diff(ra_a, dec_a, ra_b, dec_b):
    """chord length between two directions (well conditioned everywhere)"""
    return np.sqrt(np.sum((unit(ra_a, dec_a) - unit(ra_b, dec_b)) ** 2, axis=-1))


def inv_cos_tol(dec, floor=1e-8):
    """1e-12 + 2e-15 / cos(dec): what arcsin/arccos of a Cartesian component lose next to a pole"""
    return 1e-12 + 2e-15 / np.maximum(np.abs(np.cos(np.asarray(dec, dtype=np.float64))), floor)


def pole_loss(dec):
    """what dec = arcsin(z) / pi/2 - arccos(z) loses next to a pole: a few ulp of z divided by cos(dec), saturating at
    sqrt(2·8 ulp) = 4e-8 rad (z rounds to ±1)"""
    return 4e-15 / np.maximum(np.abs(np.cos(np.asarray(dec, dtype=np.float64))), 1e-7)


def ra_input_err(c, keys):
    """right ascensions enter through cos/sin: an argument of size |ra| carries 1/2 ulp(|ra|) (non-canonical inputs)"""
    return sum(np.spacing(np.abs(A(c[k]))) for k in keys)


BASE_TOL = 2e-14      # separations of computed directions: a few ulp of the coordinates (measured max 3e-15)


def rot_alpha(c):
    return np.asarray(ref_sep(c['ra1'], c['dec1'], c['ra2'], c['dec2']), dtype=np.float64)


def rot_tol(c):
    """rotate_spherical_vector away from α = 0 and α = π: arccos(cos α) and the axis v₁×v₂/|v₁×v₂| carry
    relative errors of a few ulp / sin α"""
    return BASE_TOL + 4e-15 / np.maximum(np.sin(rot_alpha(c)), 1e-6)


def reloc_pos_tol(c):
    """astropy offset_by, *position* of the relocated event: the longitude offset atan2(xsin_A, xcos_A) loses
    1/cos δ_src next to a polar source (the separation does not depend on it to first order)"""
    return 1e-12 + 4e-15 / np.maximum(np.abs(np.cos(A(c['dec2']))), 1e-12)


def _first(mask):
    idx = np.nonzero(np.atleast_1d(mask))[0]
    return int(idx[0]) if len(idx) else None


def _pick(case, i):
    return {k: ([v[i]] if isinstance(v, list) else v) for k, v in case.items()}


def _n(case):
    ls = [len(v) for v in case.values() if isinstance(v, list)]
    return max(ls) if ls else 0


# ------------------------------------------------------------------------------------------
# per-element checks of the implementation: every element of a batch is evaluated and gets at most one
# (tag, text); the tag is the failure class *including the input class it belongs to* and makes the signature
# C19/<function>/<tag>.  ORACLES[name](ctx, case) (used for replays / known findings) returns the first text.

class Fails:
    def __init__(self, n):
        self.tag = [None] * n
        self.txt = [None] * n

    def add(self, mask, tag, fmt):
        mask = np.atleast_1d(mask)
        for i in np.nonzero(mask)[0]:
            if self.tag[i] is None:
                self.tag[i] = tag
                self.txt[i] = _clean_text(fmt(int(i)))

    def all(self, tag, txt):
        for i in range(len(self.tag)):
            if self.tag[i] is None:
                self.tag[i], self.txt[i] = tag, txt

    def items(self):
        return [(i, t, x) for i, (t, x) in enumerate(zip(self.tag, self.txt)) if t is not None]


def _clean_text(t):
    import re
    return re.sub(r'np\.(?:float64|int64)\(([^()]*)\)', r'\1', t)


def _ra_bad(ra):
    ra = np.asarray(ra, dtype=np.float64)
    return ~((ra >= 0) & (ra < TWO_PI)) & ~np.isnan(ra)


def _dec_bad(dec):
    dec = np.asarray(dec, dtype=np.float64)
    return ~((dec >= -HALF_PI) & (dec <= HALF_PI)) & ~np.isnan(dec)


def _shape_fail(f, fname, n, *outs):
    for o in outs:
        if np.shape(o) != (n,):
            f.all('wrong-shape', '%s returns an array of shape %r for %d input elements' % (fname, np.shape(o), n))
            return True
    return False


def _purity(f):
    if PURE.problem is not None:
        tag, txt = PURE.problem
        PURE.problem = None
        f.all(tag, txt)


def chk_sep(case):
    """metric properties of angular_separation; case: ra1, dec1, ra2, dec2, k1, k2 (full turns)"""
    n = _n(case)
    f = Fails(n)
    psi = impl_sep(case)
    swapped = impl_sep({'ra1': case['ra2'], 'dec1': case['dec2'], 'ra2': case['ra1'], 'dec2': case['dec1']})
    _purity(f)
    if _shape_fail(f, 'angular_separation', n, psi, swapped) or n == 0:
        return f
    ra1, dec1, ra2, dec2 = (A(case[k]) for k in ('ra1', 'dec1', 'ra2', 'dec2'))

    def at(i):
        return '(ra1=%r, dec1=%r, ra2=%r, dec2=%r)' % (ra1[i], dec1[i], ra2[i], dec2[i])
    f.add(np.isnan(psi), 'nan', lambda i: 'angular_separation%s is NaN' % at(i))
    # symmetric: the code is bit-symmetric today (|a-b| = |b-a|, commutative product); the verdict allows the few ulp
    # of the haversine argument a reassociated product would cost, bit-equality is only counted
    SYM['n'] += n
    SYM['exact'] += int(np.sum(psi == swapped))
    f.add(~(np.abs(psi - swapped) <= sep_tol(np.maximum(psi, swapped))) & ~np.isnan(psi), 'asymmetric', lambda i: 'angular_separation%s = %r but with the directions swapped %r: not symmetric'
          % (at(i), psi[i], swapped[i]))
    f.add((psi < 0) | (psi > PI), 'gt-pi', lambda i: 'angular_separation%s = %r outside [0, pi]' % (at(i), psi[i]))
    f.add((ra1 == ra2) & (dec1 == dec2) & (psi != 0), 'nonzero-for-identical',
          lambda i: 'angular_separation%s = %r for identical inputs, expected exactly 0' % (at(i), psi[i]))
    ref = np.asarray(ref_sep(ra1, dec1, ra2, dec2), dtype=np.float64)
    # + the actual rounding errors of the implementation's own float64 subtractions ra1 - ra2, dec1 - dec2
    tol = sep_tol(ref) * _W + 2 * (sub_err(ra1, ra2) + sub_err(dec1, dec2))
    # declinations beyond a pole (outside the quantifier; the function does not validate): cos(dec1)cos(dec2) < 0, the two
    # terms of the haversine argument cancel and 2*sqrt(4 ulp) = 6e-8 is lost
    tol = tol + 6e-8 * ((np.abs(dec1) > HALF_PI) | (np.abs(dec2) > HALF_PI))
    f.add(~(np.abs(psi - ref) <= tol), 'not-vector-angle',
          lambda i: 'angular_separation%s = %r but the angle between the unit vectors is %r (|diff| %.3g > %.3g)'
          % (at(i), psi[i], ref[i], abs(psi[i] - ref[i]), tol[i]))
    k1, k2 = A(case.get('k1', [0] * n)), A(case.get('k2', [0] * n))
    ra1t, ra2t = ra1 + k1 * TWO_PI, ra2 + k2 * TWO_PI
    turned = impl_sep({'ra1': ra1t, 'dec1': dec1, 'ra2': ra2t, 'dec2': dec2})
    # the shifted right ascension is a different float: allow the true change of the angle as well
    ref_t = np.asarray(ref_sep(ra1t, dec1, ra2t, dec2), dtype=np.float64)
    tolt = 2 * 6e-8 * ((np.abs(dec1) > HALF_PI) | (np.abs(dec2) > HALF_PI)) + (sep_tol(ref) + sep_tol(ref_t)) * _W + np.abs(ref_t - ref) + 2 * (sub_err(ra1t, ra2t) + sub_err(ra1, ra2)
                                                                             + 2 * sub_err(dec1, dec2))
    f.add(~(np.abs(turned - psi) <= tolt), 'not-periodic',
          lambda i: 'angular_separation%s = %r but %r after adding %d and %d full turns to the right ascensions'
          % (at(i), psi[i], turned[i], k1[i], k2[i]))
    return f


def chk_sep_floor(case):
    n = _n(case)
    f = Fails(n)
    psi = impl_sep(case)
    fl = float(case['floor'])
    got = impl_sep(case, floor=fl)
    _purity(f)
    if _shape_fail(f, 'angular_separation', n, psi, got) or n == 0:
        return f
    want = np.where(psi < fl, fl, psi)
    f.add(got != want, 'floor', lambda i: 'angular_separation(..., psi_floor=%r) = %r for a separation of %r, expected %r'
          % (fl, got[i], psi[i], want[i]))
    return f


def azi_tol(mjd, consts=None):
    """round trip / period / sidereal-angle relations: the only rounding that matters is that of mjd / length
    (1/2 ulp of the quotient, times 2π), plus a few ulp(2π)"""
    q = np.abs(A(mjd)) / 0.99 + 1.0
    return 4e-15 + TWO_PI * 2 * np.spacing(q)


def _lst_ref(mjd, consts):
    """sidereal angle offset + 2π·frac(mjd / length) of the float64 inputs, exact rational residual"""
    from fractions import Fraction
    L = Fraction(consts['sidereal_length'])
    out = np.empty(len(mjd))
    for i, t in enumerate(mjd):
        fr = (Fraction(float(t)) / L) % 1
        out[i] = float((LD(consts['sidereal_offset']) + 2 * LD(np.pi) * LD(fr.numerator) / LD(fr.denominator)) % (2 * LD(np.pi)))
    return out


def chk_azi(case, consts=None):
    """azi_to_ra_transform / ra_to_azi_transform: range, involution, slope -1 in azimuth, sidereal angle and
    sidereal period; case: azi, mjd (+ optional k: number of sidereal days for the period relation)"""
    consts = consts or _CONSTS
    n = _n(case)
    f = Fails(n)
    azi, mjd = A(case['azi']), A(case['mjd'])
    ra = impl_azi2ra(azi, mjd)
    if _shape_fail(f, 'azi_to_ra_transform', n, ra) or n == 0:
        _purity(f)
        return f
    back = impl_ra2azi(ra, mjd)
    fwd = impl_azi2ra(impl_ra2azi(azi, mjd), mjd)
    _purity(f)

    def at(i):
        return '(azi=%r, mjd=%r)' % (azi[i], mjd[i])
    f.add(np.isnan(ra), 'nan', lambda i: 'azi_to_ra_transform%s is NaN' % at(i))
    f.add(_ra_bad(ra), 'ra-out-of-range', lambda i: 'azi_to_ra_transform%s = %r is outside [0, 2pi)' % (at(i), ra[i]))
    f.add(_ra_bad(back), 'ra-out-of-range', lambda i: 'ra_to_azi_transform(ra=%r, mjd=%r) = %r is outside [0, 2pi)'
          % (ra[i], mjd[i], back[i]))
    want = np.mod(azi, TWO_PI)
    tol = azi_tol(mjd) + 2 * np.spacing(np.abs(azi) + 9.0)
    f.add(~(circ_diff(back, want) <= tol), 'not-involution',
          lambda i: 'ra_to_azi_transform(azi_to_ra_transform%s, mjd) = %r: the conversion is not its own inverse' % (at(i), back[i]))
    f.add(~(circ_diff(fwd, want) <= tol), 'not-involution',
          lambda i: 'azi_to_ra_transform(ra_to_azi_transform%s, mjd) = %r: not the inverse' % (at(i), fwd[i]))
    # right ascension + azimuth = sidereal angle(mjd)  (pins how azimuth, time and the two constants enter)
    lst = _lst_ref(mjd, consts)
    f.add(~(circ_diff(ra + azi, lst) <= tol + 4e-15), 'not-sidereal-angle',
          lambda i: 'azi_to_ra_transform%s = %r: ra + azi = %r (mod 2pi) but the sidereal angle offset + 2pi*frac(mjd/length) is %r'
          % (at(i), ra[i], float(np.mod(ra[i] + azi[i], TWO_PI)), lst[i]))
    # k sidereal days later the same azimuth points to the same right ascension
    k = A(case.get('k', [1] * n))
    mjd2 = mjd + k * consts['sidereal_length']
    ra2 = impl_azi2ra(azi, mjd2)
    # mjd2 is rounded: the sidereal angle moves by 2π·(rounding of mjd2)/length
    tol2 = tol + azi_tol(mjd2) + TWO_PI * 2 * np.spacing(np.abs(mjd2) + np.abs(k) + 1.0)
    f.add(~(circ_diff(ra2, ra) <= tol2), 'not-sidereal-period',
          lambda i: 'azi_to_ra_transform%s = %r but %r %d sidereal days later (mjd=%r)' % (at(i), ra[i], ra2[i], k[i], mjd2[i]))
    return f


def chk_hor(case):
    """hor_to_equ_transform: ra as azi_to_ra_transform and in range; dec in range"""
    n = _n(case)
    f = Fails(n)
    azi, zen, mjd = A(case['azi']), A(case['zen']), A(case['mjd'])
    ra, dec = impl_hor(azi, zen, mjd)
    ra0 = impl_azi2ra(azi, mjd)
    _purity(f)
    if _shape_fail(f, 'hor_to_equ_transform', n, ra, dec) or n == 0:
        return f

    def at(i):
        return '(azi=%r, zen=%r, mjd=%r)' % (azi[i], zen[i], mjd[i])
    f.add(np.isnan(ra) | np.isnan(dec), 'nan', lambda i: 'hor_to_equ_transform%s returns NaN' % at(i))
    f.add(_ra_bad(ra), 'ra-out-of-range', lambda i: 'hor_to_equ_transform%s returns ra = %r outside [0, 2pi)' % (at(i), ra[i]))
    f.add(~(circ_diff(ra, ra0) <= 4e-15), 'ra-differs',
          lambda i: 'hor_to_equ_transform%s returns ra = %r, azi_to_ra_transform gives %r' % (at(i), ra[i], ra0[i]))
    bad = _dec_bad(dec)
    # the recorded finding is exactly "dec = pi - zen"; any other out-of-range declination is a different failure
    is_pi_minus_zen = np.abs(dec - (PI - zen)) <= 1e-12
    f.add(bad & is_pi_minus_zen, 'dec-out-of-range',
          lambda i: 'hor_to_equ_transform%s returns dec = %r outside [-pi/2, pi/2] (dec = pi - zen)' % (at(i), dec[i]))
    f.add(bad & ~is_pi_minus_zen, 'dec-out-of-range-not-pi-minus-zen',
          lambda i: 'hor_to_equ_transform%s returns dec = %r outside [-pi/2, pi/2] (and not pi - zen = %r)' % (at(i), dec[i], PI - zen[i]))
    return f


def chk_psi2(case):
    """psi_to_dec_and_ra: ranges and separation psi from the source; case: src_dec, src_ra, psi, t"""
    n = _n(case)
    f = Fails(n)
    sd, sr, psi, t = (A(case[k]) for k in ('src_dec', 'src_ra', 'psi', 't'))
    dec, ra, tu = impl_psi2(case['src_dec'], case['src_ra'], case['psi'], case['t'])
    _purity(f)
    if n == 0:
        return f

    def at(i):
        return '(src_dec=%r, src_ra=%r, psi=%r; circle parameter %r)' % (sd[i], sr[i], psi[i], t[i])
    f.add(np.isnan(dec) | np.isnan(ra), 'nan', lambda i: 'psi_to_dec_and_ra%s returns NaN: dec=%r ra=%r' % (at(i), dec[i], ra[i]))
    f.add(_ra_bad(ra), 'ra-out-of-range', lambda i: 'psi_to_dec_and_ra%s returns ra = %r outside [0, 2pi)' % (at(i), ra[i]))
    f.add(_dec_bad(dec), 'dec-out-of-range', lambda i: 'psi_to_dec_and_ra%s returns dec = %r outside [-pi/2, pi/2]' % (at(i), dec[i]))
    got = np.asarray(ref_sep(sr, sd, ra, dec), dtype=np.float64)
    err = np.abs(got - psi)
    tol = (BASE_TOL + 1e-12 * psi) * _W + 2 * np.spacing(np.abs(sr))
    near_pole = np.abs(np.cos(dec)) < 0.1
    lost = ~(err <= tol)
    # an arccos/arcsin of the z component next to a pole loses a few ulp / cos(dec), saturating at sqrt(ulp) ~ 4e-8
    f.add(lost & near_pole & (err <= tol + pole_loss(dec)), 'separation-lost-next-to-pole',
          lambda i: 'psi_to_dec_and_ra%s returns (dec=%r, ra=%r) next to a celestial pole at separation %r from the source, not psi '
          '(|diff| %.3g, relative %.3g)' % (at(i), dec[i], ra[i], got[i], err[i], err[i] / max(psi[i], 1e-300)))
    f.add(lost, 'wrong-separation',
          lambda i: 'psi_to_dec_and_ra%s returns (dec=%r, ra=%r) at separation %r from the source, not psi (|diff| %.3g > %.3g)'
          % (at(i), dec[i], ra[i], got[i], err[i], tol[i]))
    return f


def _chk_rotation(fname, impl, case):
    n = _n(case)
    f = Fails(n)
    ra1, dec1, ra2, dec2, ra3, dec3 = (A(case[k]) for k in ('ra1', 'dec1', 'ra2', 'dec2', 'ra3', 'dec3'))
    ra, dec = impl(case)
    _purity(f)
    if _shape_fail(f, fname, n, ra, dec) or n == 0:
        return f
    is_rsv = fname == 'rotate_spherical_vector'

    def at(i):
        return '(true=(%r, %r), source=(%r, %r), reco=(%r, %r))' % (ra1[i], dec1[i], ra2[i], dec2[i], ra3[i], dec3[i])
    nan = np.isnan(dec) | np.isnan(ra)
    if not is_rsv and nan.any():
        # astropy's offset_by takes arcsin(cos_b) without clipping: NaN when the relocated direction is a pole
        polar = 1.0 - np.abs(ref_reloc_sin_dec(case)) < 1e-14
        f.add(nan & polar, 'nan-at-pole',
              lambda i: '%s%s returns dec = NaN for a relocated direction at a celestial pole (ra=%r)' % (fname, at(i), ra[i]))
    f.add(nan, 'nan', lambda i: '%s%s returns NaN: ra=%r dec=%r' % (fname, at(i), ra[i], dec[i]))
    f.add(_ra_bad(ra), 'ra-out-of-range', lambda i: '%s%s returns ra = %r outside [0, 2pi)' % (fname, at(i), ra[i]))
    f.add(_dec_bad(dec), 'dec-out-of-range', lambda i: '%s%s returns dec = %r outside [-pi/2, pi/2]' % (fname, at(i), dec[i]))
    before = np.asarray(ref_sep(ra1, dec1, ra3, dec3), dtype=np.float64)
    after = np.asarray(ref_sep(ra2, dec2, ra, dec), dtype=np.float64)
    err = np.abs(after - before)
    inerr = ra_input_err(case, ('ra1', 'ra2', 'ra3'))
    if is_rsv:
        alpha = rot_alpha(case)
        anti = PI - alpha < 1e-6
        ident = (alpha < 1e-6) & ~((ra1 == ra2) & (dec1 == dec2))
        tol = rot_tol(case) * _W + inerr
    else:
        anti = ident = np.zeros(n, dtype=bool)
        tol = (BASE_TOL + 1e-12 * before) * _W + inerr
    # rotating onto the event's own true direction is the identity (pins the position angle of the relocation)
    same = (ra1 == ra2) & (dec1 == dec2)
    moved = dir_diff(ra, dec, ra3, dec3)
    ptol = inv_cos_tol(dec3) + inv_cos_tol(dec) + (0 if is_rsv else reloc_pos_tol(case)) + inerr
    f.add(same & ~(moved <= ptol), 'identity-rotation-moves-event',
          lambda i: '%s%s: the source is the true direction, yet the event moved by %.3g rad to (ra=%r, dec=%r)'
          % (fname, at(i), moved[i], ra[i], dec[i]))
    if not is_rsv:
        # the relocation keeps the position angle (docstring; c19_relocate_preserves_position_angle), checked where it is
        # well conditioned: event not next to its true direction / antipode, nothing next to a pole
        def pa(lo1, la1, lo2, la2):
            lo1, la1, lo2, la2 = (np.asarray(x, dtype=np.float64).astype(LD) for x in (lo1, la1, lo2, la2))
            dl = lo2 - lo1
            return np.asarray(np.arctan2(np.sin(dl) * np.cos(la2), np.sin(la2) * np.cos(la1) - np.cos(la2) * np.sin(la1) * np.cos(dl)),
                              dtype=np.float64)
        good = (np.sin(before) > 1e-3) & (np.cos(dec2) > 1e-2) & (np.cos(dec) > 1e-2) & (np.cos(dec1) > 1e-2) & ~nan
        if good.any():
            dpa = circ_diff(pa(ra2, dec2, np.where(nan, 0, ra), np.where(nan, 0, dec)), pa(ra1, dec1, ra3, dec3))
            f.add(good & ~(dpa <= 1e-8), 'position-angle-not-preserved',
                  lambda i: '%s%s returns (ra=%r, dec=%r): position angle source -> event differs by %.3g rad from the position angle '
                  'true -> reco' % (fname, at(i), ra[i], dec[i], dpa[i]))
    lost = ~(err <= tol)
    txt = lambda i, extra: ('%s%s returns (ra=%r, dec=%r) at separation %r from the source; the event was at %r from its true '  # noqa
                            'direction (|diff| %.3g > %.3g)%s' % (fname, at(i), ra[i], dec[i], after[i], before[i], err[i], tol[i], extra))
    f.add(lost & anti, 'separation-not-preserved-antipodal',
          lambda i: txt(i, ' [true direction and source are antipodal within 1e-6 rad: rotation axis from rounding noise]'))
    f.add(lost & ident & (err <= 4e-8), 'separation-not-preserved-source-next-to-true',
          lambda i: txt(i, ' [source within 1e-6 rad of the true direction: alpha = arccos(cos alpha) resolves 1.5e-8 rad only]'))
    near_pole = np.abs(np.cos(dec)) < 0.1
    f.add(lost & near_pole & (err <= tol + pole_loss(dec)), 'separation-lost-next-to-pole',
          lambda i: txt(i, ' [rotated direction next to a celestial pole: dec = arcsin(z) resolves 2e-15/cos(dec) only]'))
    f.add(lost, 'separation-not-preserved', lambda i: txt(i, ''))
    return f


def chk_rot(case):
    return _chk_rotation('rotate_spherical_vector', impl_rot, case)


def chk_reloc(case):
    return _chk_rotation('rotate_signal_events_on_sphere', impl_reloc, case)


def chk_api(case):
    """calling conventions and error paths; case: {'what': …} (one element)"""
    f = Fails(1)
    what = case['what']
    from skyllh.core.utils.coords import rotate_spherical_vector, rotate_signal_events_on_sphere
    from skyllh.i3.utils.coords import azi_to_ra_transform, ra_to_azi_transform, hor_to_equ_transform
    from skyllh.analyses.i3.publicdata_ps.utils import psi_to_dec_and_ra
    v = case.get('v', [])
    try:
        if what == 'azi-scalar':            # the unit tests call these with Python scalars
            a, t, z = v
            s = float(azi_to_ra_transform(a, t))
            arr = float(azi_to_ra_transform(A([a]), A([t]))[0])
            hs = hor_to_equ_transform(a, z, t)
            ha = hor_to_equ_transform(A([a]), A([z]), A([t]))
            b = float(ra_to_azi_transform(s, t))
            ok = s == arr and float(hs[0]) == float(ha[0][0]) and float(hs[1]) == float(ha[1][0]) and b == float(ra_to_azi_transform(A([s]), A([t]))[0])
            f.add([not ok], 'scalar-call-differs', lambda i: 'azi_to_ra_transform / hor_to_equ_transform / ra_to_azi_transform with scalars '
                  '(azi=%r, zen=%r, mjd=%r) differ from the array call' % (a, z, t))
        elif what == 'psi2-scalar-psi':     # np.atleast_1d(psi): a scalar psi is one event
            sd, sr, p, t = v
            d1, r1 = psi_to_dec_and_ra(_StubRSS([t / TWO_PI]), sd, sr, p)
            d2, r2 = psi_to_dec_and_ra(_StubRSS([t / TWO_PI]), sd, sr, A([p]))
            ok = np.shape(d1) == (1,) and float(d1[0]) == float(d2[0]) and float(r1[0]) == float(r2[0])
            f.add([not ok], 'scalar-call-differs', lambda i: 'psi_to_dec_and_ra with a scalar psi differs from the array call')
        elif what == 'rot-length-mismatch':
            raised = False
            try:
                rotate_spherical_vector(A([0.1, 0.2]), A([0.1, 0.2]), A([0.3]), A([0.3]), A([0.1, 0.2]), A([0.1, 0.2]))
            except Exception:  # noqa
                raised = True
            f.add([not raised], 'no-error-on-length-mismatch',
                  lambda i: 'rotate_spherical_vector accepts argument arrays of different lengths (2 and 1) without an error')
        elif what == 'reloc-length-mismatch':
            raised = False
            try:
                rotate_signal_events_on_sphere(A([0.3]), A([0.3]), A([0.1, 0.2]), A([0.1, 0.2]), A([0.1, 0.2]), A([0.1, 0.2]))
            except Exception:  # noqa
                raised = True
            f.add([not raised], 'no-error-on-length-mismatch',
                  lambda i: 'rotate_signal_events_on_sphere accepts argument arrays of different lengths (1 and 2) without an error')
        elif what == 'reloc-dec-out-of-range':
            # a declination beyond the pole is an error (SkyCoord) or, if accepted, must still give canonical output
            d = v[0]
            try:
                ra, dec = rotate_signal_events_on_sphere(A([0.3]), A([0.2]), A([0.1]), A([d]), A([0.1]), A([0.1]))
                bad = _ra_bad(ra) | _dec_bad(dec) | np.isnan(dec)
            except Exception:  # noqa
                bad = np.array([False])
            f.add(bad, 'garbage-for-dec-beyond-pole',
                  lambda i: 'rotate_signal_events_on_sphere accepts a true declination of %r and returns non-canonical coordinates' % d)
    except MachineryStub as e:
        raise MachineryError('C19 fixture: %s' % e)
    except Exception as e:  # noqa
        f.all('raises-in-' + what, '%s: raised %s: %s' % (what, type(e).__name__, e))
    return f


# ---- the psi trial-data field (skyllh/core/utils/tdm.py) and the Gaussian PSF density (signalpdf.py) ----------
# case: {'src': [[ra, dec], ...], 'evt_ra': [...], 'evt_dec': [...], 'ang_err': [...],
#        'sel': None | 'mask' | 'box', 'mask': K x E 0/1 (sel = mask), 'delta': float (sel = box),
#        'index': None | [ints] (values of the index field the events get sorted by), 'floor': None | float}

_ORDER_SEL = {}
_REUSED = {}


def _ordered_selection(shg_mgr, mask, order):
    """Event selection stub (subclass of the llh_fixtures one) that lists its (source, event) pairs in a chosen order:
    the interface prescribes two index arrays, not their order — 'src-major' (what the built-in methods produce),
    'evt-major' (event by event: src_idxs = [0,1,0,1,…]), 'reversed', 'shuffled:<seed>'."""
    from harness import llh_fixtures as fx
    if 'cls' not in _ORDER_SEL:
        base = fx._stub_classes()['StubEventSelection']

        class OrderedStubEventSelection(base):
            def __init__(self, shg_mgr, mask, order):
                super().__init__(shg_mgr, mask)
                self.order = order

            def select_events(self, events, src_evt_idxs=None, ret_original_evt_idxs=False, tl=None):
                res = super().select_events(events, src_evt_idxs=src_evt_idxs, ret_original_evt_idxs=ret_original_evt_idxs, tl=tl)
                (k, e) = res[1]
                if self.order == 'evt-major':
                    p = np.lexsort((k, e))
                elif self.order == 'reversed':
                    p = np.arange(len(k))[::-1]
                elif self.order.startswith('shuffled:'):
                    p = np.random.RandomState(int(self.order.split(':')[1])).permutation(len(k))
                else:
                    p = np.arange(len(k))
                return (res[0], (k[p].copy(), e[p].copy())) + tuple(res[2:])
        _ORDER_SEL['cls'] = OrderedStubEventSelection
    return _ORDER_SEL['cls'](shg_mgr, mask, order)


def impl_tdm(case, with_pd=True):
    """Real TrialDataManager (built like harness.llh_fixtures.make_tdm, plus the two data fields) →
    dict(psi, pd, k = source index per value, eid = original event index per value, n_selected)."""
    from harness import llh_fixtures as fx
    from skyllh.core.source_model import PointLikeSource
    from skyllh.core.trialdata import TrialDataManager
    from skyllh.core.utils.analysis import pointlikesource_to_data_field_array
    from skyllh.core.utils.tdm import get_tdm_field_func_psi
    cfg = fx.make_cfg()
    sources = [PointLikeSource(name='S%d' % k, ra=float(ra), dec=float(dec)) for k, (ra, dec) in enumerate(case['src'])]
    shg_mgr = fx.make_shg_mgr(cfg, sources)
    pmm = fx.make_pmm(sources)
    n = len(case['evt_ra'])
    fields = dict(ra=A(case['evt_ra']), dec=A(case['evt_dec']), ang_err=A(case['ang_err']))
    if case.get('index') is not None:
        fields['ikey'] = np.array(case['index'], dtype=np.int64)
    if case.get('precalc') is not None:
        fields['mypd'] = A(case['precalc'])
    events = fx.make_events(n, **fields)
    sel = None
    if case.get('sel') == 'mask':
        sel = _ordered_selection(shg_mgr, np.array(case['mask'], dtype=bool).reshape((len(sources), n)),
                                 case.get('pair_order') or 'src-major')
    elif case.get('sel') == 'box':
        from skyllh.core.event_selection import SpatialBoxEventSelectionMethod
        sel = SpatialBoxEventSelectionMethod(shg_mgr=shg_mgr, delta_angle=float(case['delta']))
    tdm = TrialDataManager(index_field_name='ikey' if case.get('index') is not None else None)
    tdm.add_source_data_field(name='src_array', func=pointlikesource_to_data_field_array)
    if case.get('reuse'):                  # the same field-function object serves several trial data managers
        key = repr(case.get('floor'))
        if key not in _REUSED:
            _REUSED[key] = get_tdm_field_func_psi(psi_floor=case.get('floor'))
        field_func = _REUSED[key]
    else:
        field_func = get_tdm_field_func_psi(psi_floor=case.get('floor'))
    tdm.add_data_field(name='psi', func=field_func, dt='dec', is_srcevt_data=True)
    tdm.change_shg_mgr(shg_mgr=shg_mgr, pmm=pmm)
    if case.get('prev') is not None:
        # an earlier trial on the same TrialDataManager (other events, no selection): nothing of it may survive
        pv = case['prev']
        pf = dict(ra=A(pv['evt_ra']), dec=A(pv['evt_dec']), ang_err=A(pv['ang_err']))
        if case.get('index') is not None:
            pf['ikey'] = np.arange(len(pv['evt_ra']), dtype=np.int64)[::-1].copy()
        if case.get('precalc') is not None:
            pf['mypd'] = np.zeros(len(pv['evt_ra']))
        tdm.initialize_trial(shg_mgr=shg_mgr, pmm=pmm, events=fx.make_events(len(pv['evt_ra']), **pf), evt_sel_method=None)
        tdm.get_data('psi')
    tdm.initialize_trial(shg_mgr=shg_mgr, pmm=pmm, events=events, evt_sel_method=sel)
    (src_idxs, evt_idxs) = tdm.src_evt_idxs
    eid = np.asarray(tdm.get_data('eid'))[evt_idxs] if len(evt_idxs) else np.zeros(0, dtype=np.int64)
    out = dict(psi=np.asarray(tdm.get_data('psi'), dtype=np.float64), k=np.asarray(src_idxs, dtype=np.int64),
               e=np.asarray(evt_idxs, dtype=np.int64),
               eid=np.asarray(eid, dtype=np.int64), n_selected=int(tdm.n_selected_events), pd=None)
    if with_pd:
        from skyllh.core.signalpdf import GaussianPSFPointLikeSourceSignalSpatialPDF
        if case.get('reuse'):              # one PDF object evaluated on one trial data manager after the other
            if 'pdf' not in _REUSED:
                _REUSED['pdf'] = GaussianPSFPointLikeSourceSignalSpatialPDF(cfg=cfg)
            pdf = _REUSED['pdf']
        else:
            pdf = GaussianPSFPointLikeSourceSignalSpatialPDF(cfg=cfg)
        out['pd'] = np.asarray(pdf.calculate_pd(tdm), dtype=np.float64)
        # get_pd: calculated unless the named pre-calculated event field exists, then exactly that field
        out['get_pd'] = np.asarray(pdf.get_pd(tdm)[0], dtype=np.float64)
        if case.get('precalc') is not None:
            pdf2 = GaussianPSFPointLikeSourceSignalSpatialPDF(cfg=cfg, pd_event_data_field_name='mypd')
            out['get_pd_pre'] = np.asarray(pdf2.get_pd(tdm)[0], dtype=np.float64)
            out['pre_field'] = np.asarray(tdm.get_data('mypd'), dtype=np.float64)
            out['pre_eid'] = np.asarray(tdm.get_data('eid'), dtype=np.int64)
    return out


def _tdm_pairs(case, out):
    """per value: event and source coordinates of the pair the value belongs to"""
    src = np.array(case['src'], dtype=np.float64).reshape((-1, 2))
    k, e = out['k'], out['eid']
    return A(case['evt_ra'])[e], A(case['evt_dec'])[e], src[k, 0], src[k, 1], A(case['ang_err'])[e]


def _expected_pairs(case):
    K, n = len(case['src']), len(case['evt_ra'])
    if case.get('sel') == 'mask':
        m = np.array(case['mask'], dtype=bool).reshape((K, n))
        return sorted((int(k), int(e)) for k, e in np.argwhere(m))
    if case.get('sel') is None:
        return sorted((k, e) for k in range(K) for e in range(n))
    return None


def o_tdm_psi(ctx, case):
    """the psi field holds, for every (source, event) pair, the angle between the two unit vectors"""
    out = impl_tdm(case, with_pd=False)
    psi = out['psi']
    if len(psi) != len(out['k']):
        return 'psi data field has %d values for %d (source, event) pairs' % (len(psi), len(out['k']))
    want_pairs = _expected_pairs(case)
    if want_pairs is not None and sorted(zip(out['k'].tolist(), out['eid'].tolist())) != want_pairs:
        return None     # the pairing itself is the subject of C05; nothing to say about psi here
    era, edec, sra, sdec, _ = _tdm_pairs(case, out)
    ref = np.asarray(ref_sep(era, edec, sra, sdec), dtype=np.float64)
    tol = sep_tol(ref) * (1 if _LD_OK else 1e4) + np.spacing(np.abs(era) + np.abs(sra))
    fl = case.get('floor')
    want = ref if fl is None else np.where(ref < fl, fl, ref)
    i = _first(~(np.abs(psi - want) <= tol))
    if i is not None:
        return ('psi data field (get_tdm_field_func_psi(psi_floor=%r), %d sources, %d of %d events selected, %d pairs, selection %r, '
                'index field %s): value %d belongs to source %d at (%r, %r) and event %d at (%r, %r), whose unit vectors are %r apart, '
                'but is %r' % (fl, len(case['src']), out['n_selected'], len(case['evt_ra']), len(psi), case.get('sel'),
                               'yes' if case.get('index') is not None else 'no', i, out['k'][i], sra[i], sdec[i], out['eid'][i],
                               era[i], edec[i], ref[i], psi[i]))
    return None


def _pd_ref(psi, sigma):
    return 0.5 / (np.pi * sigma ** 2) * np.exp(-0.5 * (psi ** 2 / sigma ** 2))


def o_psf_pd(ctx, case):
    """GaussianPSFPointLikeSourceSignalSpatialPDF.calculate_pd: density of the pair's own separation"""
    out = impl_tdm(case)
    pd = out['pd']
    if len(pd) != len(out['k']):
        return 'Gaussian PSF pd has %d values for %d (source, event) pairs' % (len(pd), len(out['k']))
    if out['get_pd'].tobytes() != pd.tobytes():
        return 'Gaussian PSF get_pd (no pre-calculated field) differs from calculate_pd'
    if case.get('precalc') is not None:
        want_pre = A(case['precalc'])[out['pre_eid']]
        if out['get_pd_pre'].shape != want_pre.shape or not np.array_equal(out['get_pd_pre'], want_pre):
            return ('Gaussian PSF get_pd with pd_event_data_field_name: does not return the pre-calculated values of the '
                    '(selected, sorted) events')
    want_pairs = _expected_pairs(case)
    if want_pairs is not None and sorted(zip(out['k'].tolist(), out['eid'].tolist())) != want_pairs:
        return None
    era, edec, sra, sdec, sig = _tdm_pairs(case, out)
    ref = np.asarray(ref_sep(era, edec, sra, sdec), dtype=np.float64)
    want = _pd_ref(ref, sig)
    dpsi = sep_tol(ref) * (1 if _LD_OK else 1e4) + np.spacing(np.abs(era) + np.abs(sra))
    tol = want * (1e-9 + ref * dpsi / sig ** 2) + 1e-300
    i = _first(~(np.abs(pd - want) <= tol))
    if i is not None:
        return ('Gaussian PSF density (%d sources, %d of %d events selected, %d pairs, selection %r): value %d belongs to source %d at '
                '(%r, %r) and event %d at (%r, %r) with ang_err %r, separation %r, density %r expected but is %r'
                % (len(case['src']), out['n_selected'], len(case['evt_ra']), len(pd), case.get('sel'), i, out['k'][i], sra[i], sdec[i],
                   out['eid'][i], era[i], edec[i], sig[i], ref[i], want[i], pd[i]))
    return None


def _tdm_corr(ctx_driver, case, out):
    """model vs implementation for one TDM case → list of disagreement texts"""
    era, edec, sra, sdec, sig = _tdm_pairs(case, out)
    if len(out['psi']) != len(out['k']) or len(out['pd']) != len(out['k']):
        return ['psi / pd have %d / %d values for %d pairs' % (len(out['psi']), len(out['pd']), len(out['k']))], 0
    if len(out['k']) == 0:
        return [], 0
    src_flat = flist_(np.array(case['src'], dtype=np.float64).ravel())
    evt_flat = flist_(np.stack([A(case['evt_ra']), A(case['evt_dec'])], axis=1).ravel())
    pairs = ','.join('%d,%d' % (k, e) for k, e in zip(out['k'].tolist(), out['eid'].tolist()))
    reqs = ['psifield %s %s %s %s' % (src_flat, evt_flat, pairs, '-' if case.get('floor') is None else f2b(case['floor']))]
    reqs += ['psffield %s %s %s %s' % (src_flat, evt_flat, flist_(A(case['ang_err'])), pairs)]
    if case.get('sel') is None:
        reqs += ['defpairs %d %d' % (len(case['src']), out['n_selected'])]
    ans = ctx_driver(reqs)
    toks = ans[0].split(',')
    if 'ERR' in toks:
        return ['model: index error for the pairs of the implementation'], 0
    psi_m = np.array([b2f(t) for t in toks], dtype=np.float64)
    ptoks = ans[1].split(',')
    if 'ERR' in ptoks:
        return ['model: index error for the pairs of the implementation (PSF field)'], 0
    pd_m = np.array([b2f(t) for t in ptoks], dtype=np.float64)
    bad = []
    tol = sep_tol(psi_m)
    for i in np.nonzero(~(np.abs(out['psi'] - psi_m) <= tol))[0]:
        bad.append('psi field value %d (source %d, event %d): implementation %r, model %r' % (i, out['k'][i], out['eid'][i], out['psi'][i], psi_m[i]))
    ptol = pd_m * (1e-9 + psi_m * tol / sig ** 2) + 1e-300
    for i in np.nonzero(~(np.abs(out['pd'] - pd_m) <= ptol))[0]:
        bad.append('PSF density value %d (source %d, event %d): implementation %r, model %r' % (i, out['k'][i], out['eid'][i], out['pd'][i], pd_m[i]))
    if case.get('sel') is None:
        # without a selection the pairs themselves are the model's defaultPairs (source-major, every pair once)
        want = ','.join('%d,%d' % (k, e) for k, e in zip(out['k'].tolist(), out['e'].tolist())) or '-'
        if ans[2] != want:
            bad.append('default (source, event) pairs: implementation %s, model defaultPairs %s' % (want[:80], ans[2][:80]))
    exact = int(np.sum(out['psi'] == psi_m))
    return bad, exact


def flist_(xs):
    xs = list(xs)
    return ','.join(f2b(x) for x in xs) if xs else '-'


def o_tdm_corr(ctx, case):
    out = impl_tdm(case)
    bad, _ = _tdm_corr(lambda reqs: ctx.driver('C19', reqs), case, out)
    return bad[0] if bad else None


def gen_tdm(rng):
    """→ (class label, case)"""
    K = rng.choice([1, 1, 2, 2, 2, 3, 4])
    src = []
    for k in range(K):
        src.append([rng.uniform(0.0, TWO_PI), rng.choice([math.asin(rng.uniform(-1, 1)), rng.uniform(-1.2, 1.2)])])
    if K >= 2 and rng.random() < 0.5:          # well separated sources
        base = rng.uniform(0.0, TWO_PI)
        src = [[(base + TWO_PI * k / K) % TWO_PI, rng.uniform(-0.6, 0.6)] for k in range(K)]
    n = rng.choice([0, 1, 2, 3, 5, 8, 13, 24, 40])
    own = [rng.randrange(K) for _ in range(n)]                 # the source an event is scattered around
    evt_ra, evt_dec = [], []
    for e in range(n):
        if rng.random() < 0.75:
            r, d = offset_dir(rng, src[own[e]][0], src[own[e]][1], 10.0 ** rng.uniform(-9, -0.7))
        else:
            r, d = gen_ra(rng), gen_dec(rng)
        evt_ra.append(r)
        evt_dec.append(d)
    ang_err = [10.0 ** rng.uniform(-2.5, 0.3) for _ in range(n)]
    case = {'src': src, 'evt_ra': evt_ra, 'evt_dec': evt_dec, 'ang_err': ang_err, 'sel': None, 'index': None, 'floor': None}
    mode = rng.choice(['none', 'partition', 'partition', 'overlap', 'sparse', 'box', 'all'])
    if mode == 'partition':          # every event selected by exactly one source: n_pairs == n_selected
        case['sel'] = 'mask'
        case['mask'] = [[1 if own[e] == k else 0 for e in range(n)] for k in range(K)]
    elif mode == 'overlap':
        case['sel'] = 'mask'
        case['mask'] = [[1 if (own[e] == k or rng.random() < 0.4) else 0 for e in range(n)] for k in range(K)]
    elif mode == 'sparse':           # some events selected by no source; n_pairs may be <, == or > n_events
        case['sel'] = 'mask'
        case['mask'] = [[1 if rng.random() < 0.35 else 0 for e in range(n)] for k in range(K)]
    elif mode == 'all':
        case['sel'] = 'mask'
        case['mask'] = [[1] * n for k in range(K)]
    elif mode == 'box':
        case['sel'] = 'box'
        case['delta'] = rng.choice([math.radians(10.0), math.radians(3.0), 0.5])
        case['src'] = [[s[0], max(min(s[1], 1.2), -1.2)] for s in src]
    if case['sel'] == 'mask':        # the order in which the selection lists its (source, event) pairs
        case['pair_order'] = rng.choice(['src-major', 'src-major', 'evt-major', 'evt-major', 'reversed',
                                         'shuffled:%d' % rng.randrange(1000)])
    if rng.random() < 0.4 and n > 0:
        case['index'] = [rng.randrange(0, max(2, n // 2)) for _ in range(n)] if rng.random() < 0.5 else rng.sample(range(n), n)
    if rng.random() < 0.3:
        case['floor'] = rng.choice([0.0, 1e-9, math.radians(0.2), 10.0 ** rng.uniform(-6, -1)])
    if rng.random() < 0.35:          # an earlier trial on the same TrialDataManager object
        m = rng.choice([1, 3, n, n + 2])
        case['prev'] = {'evt_ra': [gen_ra(rng) for _ in range(m)], 'evt_dec': [gen_dec(rng) for _ in range(m)],
                        'ang_err': [0.1] * m}
    case['reuse'] = rng.random() < 0.5       # field function / PDF objects shared with the other cases of the run
    if rng.random() < 0.3:           # a pre-calculated density field for get_pd
        case['precalc'] = [rng.random() for _ in range(n)]
    return mode, case


# ---- correspondence (model vs implementation) ------------------------------------------------

def _corr_request(kind, c, i):
    g = lambda k: f2b(c[k][i])  # noqa
    if kind == 'sep':
        return 'sep %s %s %s %s' % (g('ra1'), g('dec1'), g('ra2'), g('dec2'))
    if kind == 'sepf':
        return 'sepf %s %s %s %s %s' % (g('ra1'), g('dec1'), g('ra2'), g('dec2'), f2b(c['floor']))
    if kind == 'azi':
        return 'azi2ra %s %s' % (g('azi'), g('mjd'))
    if kind == 'hor':
        return 'hor %s %s %s' % (g('azi'), g('zen'), g('mjd'))
    if kind == 'psi2':
        return 'psi2 %s %s %s %s' % (g('src_dec'), g('src_ra'), g('psi'), g('t'))
    if kind in ('rot', 'reloc'):
        if kind == 'rot':
            return 'rot %s %s %s %s %s %s' % (g('ra1'), g('dec1'), g('ra2'), g('dec2'), g('ra3'), g('dec3'))
        return 'reloc %s %s %s %s %s %s' % (g('ra2'), g('dec2'), g('ra1'), g('dec1'), g('ra3'), g('dec3'))
    raise ValueError(kind)


def _corr_impl(kind, c):
    """implementation outputs as a tuple of arrays"""
    if kind == 'sep':
        return (impl_sep(c),)
    if kind == 'sepf':
        return (impl_sep(c, floor=float(c['floor'])),)
    if kind == 'azi':
        return (impl_azi2ra(c['azi'], c['mjd']),)
    if kind == 'hor':
        return tuple(impl_hor(c['azi'], c['zen'], c['mjd']))
    if kind == 'psi2':
        dec, ra, tu = impl_psi2(c['src_dec'], c['src_ra'], c['psi'], c['t'])
        if tu is None:
            return None          # the code parametrises its circle differently: nothing to compare (oracle psi2 still applies)
        return (dec, ra)
    if kind == 'rot':
        return tuple(impl_rot(c))
    if kind == 'reloc':
        return tuple(impl_reloc(c))
    raise ValueError(kind)


def _corr_compare(kind, c, impl, model_lines):
    """→ (list of (index, text) disagreements under the property-level relation, number of bit-exact elements)"""
    n = _n(c)
    if impl is None or n == 0:
        return [], 0
    for o in impl:
        if np.shape(o) != (n,):
            return [(0, '%s: implementation returns shape %r for %d elements' % (kind, np.shape(o), n))], 0
    m = np.array([[b2f(t) for t in ln.split() if not t.startswith('b:')] for ln in model_lines], dtype=np.float64).reshape(n, -1)
    bad = []
    exact = 0
    if kind in ('sep', 'sepf'):
        psi_i, psi_m = impl[0], m[:, 0]
        exact = int(np.sum(psi_i == psi_m))
        tol = sep_tol(psi_m)
        msk = ~(np.abs(psi_i - psi_m) <= tol)
        for i in np.nonzero(msk)[0]:
            bad.append((int(i), 'separation: implementation %r, haversine model %r (tolerance %.3g)' % (psi_i[i], psi_m[i], tol[i])))
        if kind == 'sep':
            # the specification form (angle between the unit vectors, arccos: conditioning 1/sin ψ)
            spec = m[:, 1]
            tol2 = 1e-12 + 2e-15 / np.maximum(np.abs(np.sin(psi_m)), 1.4e-8) + 3e-8 * (np.abs(np.sin(psi_m)) < 3e-8)
            msk = ~(np.abs(psi_i - spec) <= tol2)
            for i in np.nonzero(msk)[0]:
                bad.append((int(i), 'separation: implementation %r, unit-vector model %r (tolerance %.3g)' % (psi_i[i], spec[i], tol2[i])))
    elif kind == 'azi':
        ra_i, ra_m = impl[0], m[:, 0]
        exact = int(np.sum(ra_i == ra_m))
        tol = azi_tol(c['mjd'])
        msk = ~(circ_diff(ra_i, ra_m) <= tol)
        for i in np.nonzero(msk)[0]:
            bad.append((int(i), 'azi_to_ra_transform: implementation %r, model %r' % (ra_i[i], ra_m[i])))
    elif kind == 'hor':
        exact = int(np.sum((impl[0] == m[:, 0]) & (impl[1] == m[:, 1])))
        msk = ~((circ_diff(impl[0], m[:, 0]) <= azi_tol(c['mjd'])) & (np.abs(impl[1] - m[:, 1]) <= 1e-12))
        for i in np.nonzero(msk)[0]:
            bad.append((int(i), 'hor_to_equ_transform: implementation (%r, %r), model (%r, %r)' % (impl[0][i], impl[1][i], m[i, 0], m[i, 1])))
    else:
        if kind == 'psi2':
            dec_i, ra_i, dec_m, ra_m = impl[0], impl[1], m[:, 0], m[:, 1]
            tol = inv_cos_tol(dec_m)
        elif kind == 'rot':
            ra_i, dec_i, ra_m, dec_m = impl[0], impl[1], m[:, 0], m[:, 1]
            tol = inv_cos_tol(dec_m) + 1e-12 + 4e-15 / np.maximum(np.sin(rot_alpha(c)), 1e-8)
            # antipodal true/source: the axis is the normalised rounding noise of v1 x v2 on both sides (open finding)
            anti = PI - np.asarray(ref_sep(c['ra1'], c['dec1'], c['ra2'], c['dec2']), dtype=np.float64) < 1e-6
            tol = np.where(anti, np.inf, tol)
            dec_i = np.where(anti, dec_m, dec_i)
        else:
            ra_i, dec_i, ra_m, dec_m = impl[0], impl[1], m[:, 0].copy(), m[:, 1].copy()
            nan = np.isnan(dec_i) | np.isnan(dec_m)
            if nan.any():
                # arcsin(cos_b) is not clipped by astropy (nor by the model): where the relocated direction is a pole
                # either side may round to |cos_b| > 1.  The implementation's NaN is the business of oracle `reloc`.
                sb = ref_reloc_sin_dec(c)
                for i in np.nonzero(nan & (1.0 - np.abs(sb) < 1e-14))[0]:
                    other = dec_m[i] if np.isnan(dec_i[i]) else dec_i[i]
                    if np.isnan(other) or abs(abs(other) - HALF_PI) < 2e-7:
                        ra_m[i], dec_m[i] = 0.0, math.copysign(HALF_PI, sb[i])
                        ra_i = ra_i.copy(); dec_i = dec_i.copy()
                        ra_i[i], dec_i[i] = ra_m[i], dec_m[i]
            tol = inv_cos_tol(dec_m) + reloc_pos_tol(c)
        exact = int(np.sum((ra_i == ra_m) & (dec_i == dec_m)))
        msk = ~((dir_diff(ra_i, dec_i, ra_m, dec_m) <= tol) & (np.abs(dec_i - dec_m) <= tol))
        for i in np.nonzero(msk)[0]:
            bad.append((int(i), '%s: implementation (ra=%r, dec=%r), model (ra=%r, dec=%r), tolerance %.3g' % (
                kind, ra_i[i], dec_i[i], ra_m[i], dec_m[i], tol[i])))
    import re
    bad = [(i, re.sub(r'np\.float64\(([^()]*)\)', r'\1', t)) for i, t in bad]
    return bad, exact


# branches of the model (tags printed by the driver with every per-element answer)
BRANCHES = {
    'sep': ['clip01:lo', 'clip01:hi', 'clip01:in', 'dra:neg', 'dra:nonneg', 'ddec:neg', 'ddec:nonneg', 'asin:ok'],
    'sepf': ['floor:applied', 'floor:not-applied'],
    'azi': ['mod1:neg-arg', 'mod1:in-range', 'mod1:ge-2pi', 'mod2:identity', 'mod2:maps-2pi-to-0'],
    'psi2': ['ra:in-range', 'ra:2pi-to-0'],
    'rot': ['cosalpha:hi', 'cosalpha:lo', 'cosalpha:in', 'norm:pos', 'norm:zero', 'ra0:neg', 'ra0:nonneg', 'ramod:identity',
            'ramod:2pi-to-0', 'zclip:hi', 'zclip:lo', 'zclip:in'],
    'reloc': ['pole-branch', 'regular-branch', 'asin-cosb:ok', 'asin-cosb:nan-hi', 'asin-cosb:nan-lo'],
    'calls': ['ok', 'ERR:shape', 'ERR:latitude', 'ERR:index'],
}
# proved impossible (c19_angSep_total_any_x): the clip keeps the argument of arcsin inside its domain
PROVED_UNREACHABLE = {'sep': ['asin:nan-lo', 'asin:nan-hi']}
BRANCH_COUNTS = {}


def _count_tags(kind, lines):
    kind = 'azi' if kind == 'hor' else kind
    d = BRANCH_COUNTS.setdefault(kind, {})
    for ln in lines:
        tok = ln.rsplit(' ', 1)[-1]
        if tok.startswith('b:'):
            for t in tok[2:].split('+'):
                d[t] = d.get(t, 0) + 1


def o_corr(ctx, case):
    """replay of a model/implementation disagreement: case = {'kind':…, 'c': {…one element…}}"""
    kind, c = case['kind'], case['c']
    reqs = [_corr_request(kind, c, i) for i in range(_n(c))]
    bad, _ = _corr_compare(kind, c, _corr_impl(kind, c), ctx.driver('C19', reqs))
    return bad[0][1] if bad else None


# ---- whole calls: argument forms, broadcasting, length checks, validation (model: angSepCall, aziToRaCall, rotateCall,
#      relocateCall) -----------------------------------------------------------------------------------------------------
# case: {'fn': 'sep'|'azi'|'rot'|'reloc', 'args': [[floats], …], 'forms': [form per argument], 'floor': None|float}
FORMS = ['nd', 'view', 'ro', 'fortran2d', 'f32', 'int', 'list', 'tuple', 'scalar', '0d']
_ARRAY_FORMS = ('nd', 'view', 'ro', 'fortran2d', 'int')          # float64-valued ndarrays: must behave exactly like 'nd'


def _as_form(vals, form):
    a = np.array(vals, dtype=np.float64)
    if form == 'nd':
        return a
    if form == 'view':                     # non-contiguous: every second element of a larger buffer
        buf = np.full(2 * len(a) + 1, 7.25)
        buf[::2][:len(a)] = a
        return buf[::2][:len(a)]
    if form == 'ro':
        a.setflags(write=False)
        return a
    if form == 'fortran2d':                # a column of a Fortran-ordered 2-d array
        m = np.asfortranarray(np.stack([a, a + 1.0], axis=1)) if len(a) else np.zeros((0, 2), order='F')
        return m[:, 0]
    if form == 'f32':
        return a.astype(np.float32)
    if form == 'int':
        return a.astype(np.int64)          # only generated for integral values
    if form == 'list':
        return [float(v) for v in vals]
    if form == 'tuple':
        return tuple(float(v) for v in vals)
    if form == 'scalar':
        return float(vals[0])              # only generated for one-element arguments
    if form == '0d':
        return np.array(float(vals[0]))
    raise ValueError(form)


def _call_fn(fn, args, floor, floor_form='kw'):
    from skyllh.core.utils.coords import angular_separation, rotate_spherical_vector, rotate_signal_events_on_sphere
    from skyllh.i3.utils.coords import azi_to_ra_transform
    if fn == 'sep':
        # how the floor is handed over is a generated dimension: keyword / omitted (default of the signature, only for
        # "no floor") / fifth positional argument / all five as keywords (as tdm.py calls it)
        if floor_form == 'omit' and floor is None:
            return (angular_separation(*args),)
        if floor_form == 'pos':
            return (angular_separation(*args, floor),)
        if floor_form == 'allkw':
            return (angular_separation(ra1=args[0], dec1=args[1], ra2=args[2], dec2=args[3], psi_floor=floor),)
        return (angular_separation(*args, psi_floor=floor),)
    if fn == 'azi':
        return (azi_to_ra_transform(*args),)
    if fn == 'rot':
        return tuple(rotate_spherical_vector(*args))
    if fn == 'reloc':
        r = rotate_signal_events_on_sphere(*args)
        return (np.asarray(r[0]), np.asarray(r[1]))
    raise ValueError(fn)


def _try_call(fn, args, floor, floor_form='kw'):
    """→ (outputs | None, exception | None); the arguments must come back unchanged"""
    keep = [np.array(a, dtype=np.float64, copy=True) if not isinstance(a, (float, int)) else a for a in args]
    try:
        with np.errstate(all='ignore'):
            out = _call_fn(fn, args, floor, floor_form)
    except Exception as e:  # noqa
        out, exc = None, e
    else:
        exc = None
    changed = None
    for j, (a, k) in enumerate(zip(args, keep)):
        if not isinstance(a, (float, int)) and not np.array_equal(np.asarray(a, dtype=np.float64), k, equal_nan=True):
            changed = j
    return out, exc, changed


def _calls_request(case):
    op = {'sep': 'sepcall', 'azi': 'azicall', 'rot': 'rotcall', 'reloc': 'reloccall'}[case['fn']]
    toks = [flist_(a) for a in case['args']]
    if case['fn'] == 'sep':
        toks.append('-' if case.get('floor') is None else f2b(case['floor']))
    return op + ' ' + ' '.join(toks)


def chk_calls(case, model_line=None):
    """one call of a vectorised function with its arguments in generated forms and lengths"""
    f = Fails(1)
    fn, args, forms, floor = case['fn'], case['args'], case['forms'], case.get('floor')
    fname = {'sep': 'angular_separation', 'azi': 'azi_to_ra_transform', 'rot': 'rotate_spherical_vector',
             'reloc': 'rotate_signal_events_on_sphere'}[fn]
    desc = '%s(lengths %s, forms %s)' % (fname, [len(a) for a in args], forms)
    # single-precision arguments denote the float32-rounded values
    args = [np.array(a, dtype=np.float64).astype(np.float32).astype(np.float64).tolist() if fm == 'f32' else a
            for a, fm in zip(args, forms)]
    base, ebase, ch = _try_call(fn, [_as_form(a, 'nd') for a in args], floor)
    if ch is not None:
        f.all('modifies-input', '%s modifies its argument %d in place' % (desc, ch))
        return f
    got, eform, ch = _try_call(fn, [_as_form(a, fm) for a, fm in zip(args, forms)], floor, case.get('floor_form', 'kw'))
    if ch is not None:
        f.all('modifies-input', '%s modifies its argument %d in place' % (desc, ch))
        return f
    nd_like = all(fm in _ARRAY_FORMS for fm in forms)
    if ebase is not None:
        if eform is None:
            f.all('form-changes-error', '%s returns a result, the same call with plain float64 arrays raises %s'
                  % (desc, type(ebase).__name__))
    elif eform is not None:
        if nd_like:
            f.all('raises-for-valid-array-form', '%s raises %s: %s — the same values as contiguous float64 arrays give a result'
                  % (desc, type(eform).__name__, eform))
        # lists / tuples / scalars / 0-d arrays: the docstrings ask for ndarrays; an exception is acceptable, a wrong value is not
    else:
        f32 = any(fm == 'f32' for fm in forms) and all(fm in ('f32', 'scalar', 'list', 'tuple') for fm in forms)
        for o_b, o_f in zip(base, got):
            o_b, o_f = np.atleast_1d(np.asarray(o_b, dtype=np.float64)), np.atleast_1d(np.asarray(o_f, dtype=np.float64))
            if o_b.shape != o_f.shape:
                f.all('form-changes-result', '%s returns shape %r, with plain float64 arrays %r' % (desc, o_f.shape, o_b.shape))
                break
            if any(fm == 'f32' for fm in forms):
                # float32 arguments: numpy may compute in single precision (ulp 6e-8; a time loses 2pi*ulp32(mjd/length))
                if fn == 'azi':
                    t32 = 1e-5 + TWO_PI * 4 * float(np.max(np.spacing(np.abs(np.array(args[1] or [0.0], dtype=np.float32)) + np.float32(1))))
                    ok = bool(np.all(circ_diff(o_b, o_f) <= t32))
                else:
                    ok = bool(np.all((np.abs(o_b - o_f) <= 2e-3 + 2e-3 * np.abs(o_b)) | (circ_diff(o_b, o_f) <= 2e-3)
                                     | np.isnan(o_b) | np.isnan(o_f)))
            else:
                ok = np.array_equal(o_b, o_f, equal_nan=True)
            if not ok:
                f.all('form-changes-result', '%s returns %r, with plain float64 arrays %r' % (desc, o_f.tolist()[:4], o_b.tolist()[:4]))
                break
            for a in [x for x in (_as_form(a, fm) for a, fm in zip(args, forms)) if isinstance(x, np.ndarray)]:
                pass
    # model of the call: errors and values
    if model_line is not None and f.tag[0] is None:
        BRANCH_COUNTS.setdefault('calls', {})
        key = model_line if model_line.startswith('ERR') else 'ok'
        BRANCH_COUNTS['calls'][key] = BRANCH_COUNTS['calls'].get(key, 0) + 1
        if model_line.startswith('ERR'):
            if ebase is None:
                f.all('call-model-disagrees', '%s returns a result, the model of the call says %s' % (desc, model_line))
        elif ebase is not None:
            f.all('call-model-disagrees', '%s raises %s: %s, the model of the call returns a result' % (desc, type(ebase).__name__, ebase))
        else:
            mv = np.array([] if model_line == '-' else [b2f(t) for t in model_line.split(',')], dtype=np.float64)
            if fn in ('sep', 'azi'):
                iv = np.atleast_1d(np.asarray(base[0], dtype=np.float64))
                if iv.shape != mv.shape:
                    f.all('call-model-disagrees', '%s returns %d values, the model of the call %d' % (desc, iv.size, mv.size))
                else:
                    tol = sep_tol(np.nan_to_num(mv)) + 1e-12 if fn == 'sep' else np.full(mv.shape, 1e-9)
                    d = np.abs(iv - mv) if fn == 'sep' else circ_diff(iv, mv)
                    if not bool(np.all((d <= tol) | (np.isnan(iv) & np.isnan(mv)))):
                        f.all('call-model-disagrees', '%s = %r, model of the call %r' % (desc, iv.tolist()[:4], mv.tolist()[:4]))
            else:
                ra_i, dec_i = (np.atleast_1d(np.asarray(x, dtype=np.float64)) for x in base)
                if 2 * ra_i.size != mv.size:
                    f.all('call-model-disagrees', '%s returns %d events, the model of the call %d' % (desc, ra_i.size, mv.size // 2))
                elif ra_i.size:
                    ra_m, dec_m = mv[0::2], mv[1::2]
                    okn = np.isnan(dec_i) | np.isnan(dec_m)
                    tol = 1e-7          # values are compared sharply per element elsewhere; here: the right element at the right place
                    dd = dir_diff(np.where(okn, 0, ra_i), np.where(okn, 0, dec_i), np.where(okn, 0, ra_m), np.where(okn, 0, dec_m))
                    a1 = np.asarray(ref_sep(args[0], args[1], args[2], args[3]), dtype=np.float64) if fn == 'rot' else None
                    skip = (PI - a1 < 1e-6) if a1 is not None and a1.shape == dd.shape else np.zeros(dd.shape, dtype=bool)
                    if not bool(np.all((dd <= tol) | skip)):
                        i = int(np.argmax(np.where(skip, 0, dd)))
                        f.all('call-model-disagrees', '%s: event %d is (%r, %r), model of the call (%r, %r)'
                              % (desc, i, ra_i[i], dec_i[i], ra_m[i], dec_m[i]))
    return f


def gen_calls(rng):
    """→ case for chk_calls: lengths (equal / broadcastable / mismatching / empty), invalid declinations, argument forms"""
    fn = rng.choice(['sep', 'sep', 'azi', 'rot', 'reloc', 'reloc'])
    nargs = {'sep': 4, 'azi': 2, 'rot': 6, 'reloc': 6}[fn]
    n = rng.choice([0, 1, 2, 3, 5])
    mode = rng.choice(['equal', 'equal', 'equal', 'broadcast', 'mismatch'])
    lens = [n] * nargs
    if mode == 'broadcast':
        for j in rng.sample(range(nargs), rng.randrange(1, nargs)):
            lens[j] = 1
    elif mode == 'mismatch':
        lens[rng.randrange(nargs)] = n + rng.choice([1, 2])
    integral = rng.random() < 0.15
    args = []
    for j, L in enumerate(lens):
        is_dec = (fn in ('sep', 'rot', 'reloc') and j % 2 == 1)
        is_mjd = (fn == 'azi' and j == 1)
        vals = []
        for _ in range(L):
            if integral:
                v = float(rng.choice([0, 1, -1] if is_dec else ([0, 1, 58457, 60000] if is_mjd else [0, 1, 2, 3, 6])))
            elif is_mjd:
                v = gen_mjd(rng)
            elif is_dec:
                v = gen_dec(rng)
                if abs(abs(v) - HALF_PI) < 1e-3:
                    v = 0.9 * v          # poles are the business of the per-element checks
            else:
                v = gen_ra(rng)
            vals.append(v)
        args.append(vals)
    cls = mode
    forms = []
    for L in lens:
        opts = ['nd', 'nd', 'view', 'ro', 'fortran2d', 'f32', 'list', 'tuple']
        if integral:
            opts += ['int', 'int']
        if L == 1:
            opts += ['scalar', '0d']
        forms.append(rng.choice(opts) if rng.random() < 0.6 else 'nd')
    # single-precision arguments denote float32 values
    args = [np.array(a, dtype=np.float64).astype(np.float32).astype(np.float64).tolist() if fm == 'f32' else a
            for a, fm in zip(args, forms)]
    if fn == 'reloc' and n > 0 and rng.random() < 0.25:      # a declination beyond a pole somewhere in the call
        j = rng.choice([1, 3, 5])
        if args[j]:
            args[j][rng.randrange(len(args[j]))] = rng.choice([float(np.nextafter(HALF_PI, 4.0)), -float(np.nextafter(HALF_PI, 4.0)), 2.0, -1.6])
            forms[j] = rng.choice(['nd', 'view', 'ro', 'list'])     # forms that carry the float64 value unchanged
            cls += ',dec-beyond-pole'
    case = {'fn': fn, 'args': args, 'forms': forms, 'floor': None}
    if fn == 'sep' and rng.random() < 0.2:
        case['floor'] = rng.choice([0.0, 1e-3, 1.0])
    if fn == 'sep':
        case['floor_form'] = rng.choice(['kw', 'omit', 'pos', 'allkw'])
    return cls, case


CHECKS = {'sep': chk_sep, 'sep_floor': chk_sep_floor, 'azi': chk_azi, 'hor': chk_hor, 'psi2': chk_psi2, 'rot': chk_rot,
          'reloc': chk_reloc, 'api': chk_api, 'calls': chk_calls}
_FUNC_OF = {'sep': 'angular_separation', 'sep_floor': 'angular_separation', 'azi': 'azi_to_ra_transform',
            'hor': 'hor_to_equ_transform', 'psi2': 'psi_to_dec_and_ra', 'rot': 'rotate_spherical_vector',
            'reloc': 'rotate_signal_events_on_sphere', 'api': 'calling-conventions', 'calls': 'whole-call', 'psicall': 'tdm_field_func_psi',
            'tdm_psi': 'tdm_field_func_psi', 'psf_pd': 'GaussianPSFPointLikeSourceSignalSpatialPDF'}


def _sig(name, tag):
    return 'C19/%s/%s' % (_FUNC_OF[name], tag)


def _oracle_of_check(name):
    def oracle(ctx, case):
        items = CHECKS[name](case).items()
        return items[0][2] if items else None
    return oracle


def _text_oracle(fn):
    def oracle(ctx, case):
        res = fn(ctx, case)
        return _clean_text(res) if res else res
    return oracle


ORACLES = {k: _oracle_of_check(k) for k in CHECKS}
# names used by the entries of known_findings.json (round 1)
ORACLES['hor_dec'] = ORACLES['hor']
ORACLES['hor_ra'] = ORACLES['hor']
ORACLES.update({'corr': _text_oracle(o_corr), 'tdm_psi': _text_oracle(o_tdm_psi), 'psf_pd': _text_oracle(o_psf_pd),
                'tdm_corr': _text_oracle(o_tdm_corr)})

_CHECKS_OF_KIND = {'sep': ['sep'], 'sepf': ['sep_floor', 'sep'], 'azi': ['azi'], 'hor': ['hor', 'azi'],
                   'psi2': ['psi2'], 'rot': ['rot'], 'reloc': ['reloc']}
_CONSTS = dict(RECORDED)


class _DuckTDM:
    """the part of the TrialDataManager interface the psi field function uses (src_evt_idxs, get_data), with arbitrary
    pairs — the only way to reach np.take's error path, which a real trial never produces"""

    def __init__(self, src, evt_ra, evt_dec, pairs):
        self._d = {'ra': A(evt_ra), 'dec': A(evt_dec),
                   'src_array': np.array([tuple(x) for x in src], dtype=[('ra', np.float64), ('dec', np.float64)])}
        self.src_evt_idxs = (np.array([p[0] for p in pairs], dtype=np.int64), np.array([p[1] for p in pairs], dtype=np.int64))
        self.n_selected_events = len(evt_ra)

    def get_data(self, name):
        return self._d[name]

    def __getitem__(self, name):
        return self._d[name]


def chk_psicall(case, model_line=None):
    """get_tdm_field_func_psi on arbitrary (source, event) index pairs, incl. indices that do not exist;
    case: src [[ra, dec]…], evt_ra, evt_dec, pairs [[k, e]…], floor"""
    from skyllh.core.utils.tdm import get_tdm_field_func_psi
    f = Fails(1)
    tdm = _DuckTDM(case['src'], case['evt_ra'], case['evt_dec'], case['pairs'])
    try:
        psi = np.asarray(get_tdm_field_func_psi(psi_floor=case.get('floor'))(tdm, None, None), dtype=np.float64)
        exc = None
    except Exception as e:  # noqa
        psi, exc = None, e
    K, n = len(case['src']), len(case['evt_ra'])
    bad_idx = any(k >= K or e >= n for k, e in case['pairs'])
    if bad_idx and exc is None:
        f.all('no-error-for-missing-index', 'psi field function returns %d values for pairs %r with %d sources and %d events '
              '(an index does not exist)' % (len(psi), case['pairs'], K, n))
    elif not bad_idx and exc is not None:
        f.all('raises', 'psi field function raised %s: %s for valid pairs %r' % (type(exc).__name__, exc, case['pairs']))
    elif exc is None:
        src = np.array(case['src'], dtype=np.float64).reshape((-1, 2))
        k = np.array([p[0] for p in case['pairs']], dtype=np.int64)
        e = np.array([p[1] for p in case['pairs']], dtype=np.int64)
        ref = np.asarray(ref_sep(A(case['evt_ra'])[e], A(case['evt_dec'])[e], src[k, 0], src[k, 1]), dtype=np.float64) if len(k) else np.zeros(0)
        fl = case.get('floor')
        want = ref if fl is None else np.where(ref < fl, fl, ref)
        if psi.shape != want.shape or not bool(np.all(np.abs(psi - want) <= sep_tol(ref) * _W + 1e-15)):
            f.all('not-angle-of-the-pair', 'psi field function on pairs %r returns %r, the angles of the pairs are %r'
                  % (case['pairs'], psi.tolist()[:6], want.tolist()[:6]))
    if model_line is not None and f.tag[0] is None:
        key = model_line if model_line.startswith('ERR') else 'ok'
        BRANCH_COUNTS.setdefault('calls', {})
        BRANCH_COUNTS['calls'][key] = BRANCH_COUNTS['calls'].get(key, 0) + 1
        if model_line.startswith('ERR') != (exc is not None):
            f.all('call-model-disagrees', 'psi field function on pairs %r: %s, the model of the call says %s'
                  % (case['pairs'], 'raises ' + type(exc).__name__ if exc is not None else 'returns values', model_line))
        elif exc is None and len(case['pairs']):
            mv = np.array([b2f(t) for t in model_line.split(',')], dtype=np.float64)
            if mv.shape != psi.shape or not bool(np.all(np.abs(mv - psi) <= sep_tol(mv))):
                f.all('call-model-disagrees', 'psi field function on pairs %r returns %r, model %r' % (case['pairs'], psi.tolist()[:6], mv.tolist()[:6]))
    return f


def _psicall_request(case):
    src_flat = flist_(np.array(case['src'], dtype=np.float64).ravel())
    evt_flat = flist_(np.stack([A(case['evt_ra']), A(case['evt_dec'])], axis=1).ravel()) if case['evt_ra'] else '-'
    pairs = ','.join('%d,%d' % (k, e) for k, e in case['pairs']) or '-'
    return 'psicall %s %s %s %s' % (src_flat, evt_flat, pairs, '-' if case.get('floor') is None else f2b(case['floor']))


def gen_psicall(rng):
    K, n = rng.choice([1, 2, 3]), rng.choice([0, 1, 2, 4])
    src = [[gen_ra(rng), gen_dec(rng)] for _ in range(K)]
    era, edec = [gen_ra(rng) for _ in range(n)], [gen_dec(rng) for _ in range(n)]
    m = rng.choice([0, 1, 3, 6])
    pairs = [[rng.randrange(K), rng.randrange(n)] for _ in range(m)] if n else []
    cls = 'valid'
    if rng.random() < 0.35:
        pairs.insert(rng.randrange(len(pairs) + 1), rng.choice([[K, 0], [0, n], [K + 2, n + 1], [K - 1, n]]))
        cls = 'missing-index'
    return cls, {'src': src, 'evt_ra': era, 'evt_dec': edec, 'pairs': pairs,
                 'floor': rng.choice([None, None, 1e-3])}


CHECKS['psicall'] = chk_psicall
ORACLES['psicall'] = _oracle_of_check('psicall')


# ---- round 7: signed index pairs (numpy wrap-around) and hor_to_equ / ra_to_azi as whole calls (harness/c19_r7_fixtures.py)
def _H():
    import sys
    return sys.modules[__name__]


def _cleaned(f):
    f.txt = [_clean_text(t) if t else t for t in f.txt]
    return f


def chk_psicalli(case, model_line=None, norm_lines=None):
    return _cleaned(r7.chk_psicalli(_H(), case, model_line=model_line, norm_lines=norm_lines,
                                    counts=BRANCH_COUNTS if model_line is not None else None))


def chk_horcall(case, model_line=None):
    return _cleaned(r7.chk_horcall(_H(), case, model_line=model_line, counts=BRANCH_COUNTS if model_line is not None else None))


def chk_psi2call(case, model_lines=None):
    return _cleaned(r7.chk_psi2call(_H(), case, model_lines=model_lines, counts=BRANCH_COUNTS if model_lines is not None else None))


CHECKS['psicalli'] = chk_psicalli
CHECKS['horcall'] = chk_horcall
CHECKS['psi2call'] = chk_psi2call
ORACLES['psi2call'] = _oracle_of_check('psi2call')
_FUNC_OF['psi2call'] = 'psi_to_dec_and_ra'
ORACLES['psicalli'] = _oracle_of_check('psicalli')
ORACLES['horcall'] = _oracle_of_check('horcall')
_FUNC_OF['psicalli'] = 'tdm_field_func_psi'
_FUNC_OF['horcall'] = 'hor_to_equ_transform'
BRANCHES.update(r7.R7_BRANCHES)


def _tdm_tag(res):
    if 'psi data field' in res:
        return 'not-angle-of-the-pair'
    if 'get_pd' in res:
        return 'get_pd-branch'
    return 'not-density-of-the-pair'


def _signature(name, res):
    return _sig(name, _tdm_tag(res))


# ------------------------------------------------------------------------------------------
# generators

def _ulps(x, k):
    for _ in range(abs(k)):
        x = float(np.nextafter(x, math.inf if k > 0 else -math.inf))
    return x


def gen_ra(rng):
    r = rng.random()
    if r < 0.25:
        return rng.choice([0.0, PI, HALF_PI, 3 * HALF_PI, _ulps(TWO_PI, -1), 5e-324, 1e-17, 1.0])
    return rng.uniform(0.0, TWO_PI) if rng.random() < 0.97 else _ulps(TWO_PI, -1) * rng.random()


def gen_dec(rng):
    r = rng.random()
    if r < 0.12:
        return rng.choice([HALF_PI, -HALF_PI])
    if r < 0.2:
        return rng.choice([0.0, -0.0, _ulps(HALF_PI, -1), -_ulps(HALF_PI, -1), HALF_PI - 1e-9, -HALF_PI + 1e-9,
                           HALF_PI - 1e-6, -HALF_PI + 3e-13])
    return math.asin(rng.uniform(-1.0, 1.0))


def offset_dir(rng, ra, dec, delta):
    """a direction about `delta` rad away from (ra, dec), in canonical ranges"""
    th = rng.uniform(0.0, TWO_PI)
    d2 = dec + delta * math.sin(th)
    cosd = max(abs(math.cos(dec)), 1e-3)
    r2 = ra + delta * math.cos(th) / cosd
    if d2 > HALF_PI:
        d2 = HALF_PI
    if d2 < -HALF_PI:
        d2 = -HALF_PI
    return r2 % TWO_PI, d2


def gen_pair(rng):
    """→ (class, ra1, dec1, ra2, dec2)"""
    ra1, dec1 = gen_ra(rng), gen_dec(rng)
    cls = rng.choice(['identical', 'antipode', 'near<1e-8', 'near<1e-8', 'near', 'random', 'random', 'random',
                      'pole-pole', 'same-ra', 'same-dec', 'near-antipode'])
    if cls == 'identical':
        return cls, ra1, dec1, ra1, dec1
    if cls == 'antipode':
        return cls, ra1, dec1, (ra1 + PI) % TWO_PI, -dec1
    if cls == 'near<1e-8':
        r2, d2 = offset_dir(rng, ra1, dec1, 10.0 ** rng.uniform(-17, -8))
        return cls, ra1, dec1, r2, d2
    if cls == 'near':
        r2, d2 = offset_dir(rng, ra1, dec1, 10.0 ** rng.uniform(-8, -0.5))
        return cls, ra1, dec1, r2, d2
    if cls == 'near-antipode':
        r2, d2 = offset_dir(rng, (ra1 + PI) % TWO_PI, -dec1, 10.0 ** rng.uniform(-12, -3))
        return cls, ra1, dec1, r2, d2
    if cls == 'pole-pole':
        p1, p2 = rng.choice([HALF_PI, -HALF_PI]), rng.choice([HALF_PI, -HALF_PI])
        return cls, ra1, p1, gen_ra(rng), p2
    if cls == 'same-ra':
        return cls, ra1, dec1, ra1, gen_dec(rng)
    if cls == 'same-dec':
        return cls, ra1, dec1, gen_ra(rng), dec1
    return cls, ra1, dec1, gen_ra(rng), gen_dec(rng)


def gen_mjd(rng):
    r = rng.random()
    if r < 0.15:
        return float(rng.choice([0, 1, 10, 100, 1000, 10000, 58457, 51544, 60000, 100000]))
    if r < 0.55:
        return rng.uniform(50000.0, 62000.0)
    if r < 0.6:
        return -rng.uniform(0.0, 1000.0)
    return rng.random() * 10.0 ** rng.randrange(0, 6)


def gen_azi(rng, mjd, consts):
    """→ (class, azimuth)"""
    r = rng.random()
    if r < 0.1:
        return 'edge', rng.choice([0.0, _ulps(TWO_PI, -1), PI, 5e-324, 1e-300])
    if r < 0.4:
        # azimuths that bring the right ascension next to the wrap-around 0 / 2π
        res = (mjd / consts['sidereal_length']) % 1
        a = (consts['sidereal_offset'] + TWO_PI * res) % TWO_PI
        a = _ulps(a, rng.choice([-2, -1, 0, 1, 1, 2, 3]))
        if rng.random() < 0.3:
            a += rng.choice([-1, 1]) * 10.0 ** rng.uniform(-17, -9)
        if 0 <= a < TWO_PI:
            return 'ra-next-to-wrap', a
    # azimuths outside [0, 2pi) are outside the property's quantifier ("azimuth in its physical range"): a rewrite that
    # reduces by a single full turn is valid there and must stay silent, so they are not generated
    return 'interior', (rng.uniform(0.0, TWO_PI) if rng.random() < 0.97 else _ulps(TWO_PI, -1) * rng.random())


def gen_psi2(rng):
    """→ (class, (src_dec, src_ra, psi, t))"""
    sd, sr = gen_dec(rng), gen_ra(rng)
    r = rng.random()
    if r < 0.1:
        psi, cls = rng.choice([0.0, PI, HALF_PI, 5e-324]), 'edge'
    elif r < 0.3:
        psi, cls = 10.0 ** rng.uniform(-17, -8), '<1e-8'
    elif r < 0.45:
        psi, cls = rng.choice([HALF_PI - sd, HALF_PI + sd]), 'circle-through-pole'
    elif r < 0.8:
        psi, cls = 10.0 ** rng.uniform(-8, 0), '1e-8..1'
    else:
        psi, cls = rng.uniform(0.0, PI), 'uniform'
    psi = min(max(psi, 0.0), PI)
    if abs(abs(sd) - HALF_PI) < 1e-6:
        cls += ',polar-source'
    r = rng.random()
    if r < 0.35:
        t = rng.choice([0.0, PI, HALF_PI, 3 * HALF_PI, _ulps(TWO_PI, -1), 1e-9, PI + 1e-9, 3 * HALF_PI + 1e-12])
    else:
        t = rng.uniform(0.0, TWO_PI)
    return cls, (sd, sr, psi, t)


def gen_rot(rng, allow_antipodal_axis):
    """true direction 1, source 2, reconstructed direction 3"""
    ra1, dec1 = gen_ra(rng), gen_dec(rng)
    cls = rng.choice(['random', 'random', 'random', 'src=true', 'src-near-true', 'src-pole', 'src-antipode'])
    if cls == 'src=true':
        ra2, dec2 = ra1, dec1
    elif cls == 'src-near-true':
        ra2, dec2 = offset_dir(rng, ra1, dec1, 10.0 ** rng.uniform(-12, -1))
    elif cls == 'src-pole':
        ra2, dec2 = gen_ra(rng), rng.choice([HALF_PI, -HALF_PI])
    elif cls == 'src-antipode' and allow_antipodal_axis:
        ra2, dec2 = (ra1 + PI) % TWO_PI, -dec1
    else:
        cls = 'random' if cls == 'src-antipode' else cls
        ra2, dec2 = gen_ra(rng), gen_dec(rng)
    r = rng.random()
    if r < 0.1:
        ra3, dec3, rc = ra1, dec1, 'reco=true'
    elif r < 0.75:
        (ra3, dec3), rc = offset_dir(rng, ra1, dec1, 10.0 ** rng.uniform(-9, 0)), 'reco-near'
    else:
        ra3, dec3, rc = gen_ra(rng), gen_dec(rng), 'reco-random'
    return cls + '/' + rc, ra1, dec1, ra2, dec2, ra3, dec3


# ------------------------------------------------------------------------------------------

def _batches(elems, keys, size, extra=None):
    """list of dict-of-lists cases of at most `size` elements"""
    out = []
    for s in range(0, len(elems), size):
        chunk = elems[s:s + size]
        c = {k: [float(e[j]) for e in chunk] for j, k in enumerate(keys)}
        if extra:
            c.update(extra)
        out.append(c)
    return out


def _structured_batches(rng, elems, keys, n_batches, extra=None):
    """Batches in which some argument arrays are constant over the batch while the others vary (all events of a call
    share the source right ascension but not its declination, the same time for all azimuths, …): array-level
    shortcuts of vectorised code (np.unique(...).size == 1, scalar fast paths, broadcasting) depend on exactly that."""
    out = []
    varying = [k for k in keys if k not in ('k1', 'k2', 'k')]
    for _ in range(n_batches):
        size = rng.choice([2, 3, 5, 12])
        chunk = [list(elems[rng.randrange(len(elems))]) for _ in range(size)]
        const = rng.sample(varying, rng.randrange(1, len(varying)))
        for j, k in enumerate(keys):
            if k in const:
                for e in chunk:
                    e[j] = chunk[0][j]
        c = {k: [float(e[j]) for e in chunk] for j, k in enumerate(keys)}
        if extra:
            c.update(extra)
        out.append((','.join(sorted(const)), c))
    return out


def _report_fails(ctx, name, case, fails, model_output=None):
    """Every failing element of the batch is classified by its own signature.  Elements of a class that is listed as
    an open finding are only counted (the finding itself is replayed from its recorded witness by the framework);
    every other signature is reported with its first (single-element) case.  → number of unlisted failures"""
    known = ctx.open_signatures()
    new = 0
    for i, tag, txt in fails.items():
        sig = _sig(name, tag)
        if sig in known:
            ctx.count('known-class:' + sig)
            continue
        new += 1
        if any(v['signature'] == sig for v in ctx.violations):
            ctx.count('violation_repeats')
            continue
        one = _pick(case, i)
        if _n(case) > 1 and not any(t == tag for _, t, _ in CHECKS[name](one).items()):
            # the failure needs its batch (an array-level shortcut of the vectorised code): keep a minimal batch
            one, txt = _shrink_batch(name, case, tag, txt)
        ctx.violation(name, one, txt, signature=sig, model_output=model_output)
    return new


def _shrink_batch(name, case, tag, txt):
    """drop elements while some element still fails with the same tag"""
    cur = case
    if _n(case) > 40:
        return cur, txt + ' [fails only inside its batch of %d elements]' % _n(case)
    changed = True
    while changed and _n(cur) > 1:
        changed = False
        for j in range(_n(cur) - 1, -1, -1):
            c = {k: (v[:j] + v[j + 1:] if isinstance(v, list) else v) for k, v in cur.items()}
            hit = [x for _, t, x in CHECKS[name](c).items() if t == tag]
            if hit:
                cur, txt, changed = c, hit[0], True
                break
    return cur, txt + ' [fails only inside a batch: %d elements kept, the element shown is one of them]' % _n(cur)


class _Collected(Exception):
    pass


def _shrink_tdm(ctx, name, case):
    """drop events (then sources) while the oracle keeps failing"""
    fn = ORACLES[name]
    cur = case
    changed = True
    while changed:
        changed = False
        n = len(cur['evt_ra'])
        for e in range(n - 1, -1, -1):
            c = dict(cur)
            for k in ('evt_ra', 'evt_dec', 'ang_err') + (('precalc',) if cur.get('precalc') is not None else ()):
                c[k] = cur[k][:e] + cur[k][e + 1:]
            if cur.get('index') is not None:
                c['index'] = cur['index'][:e] + cur['index'][e + 1:]
            if cur.get('sel') == 'mask':
                c['mask'] = [row[:e] + row[e + 1:] for row in cur['mask']]
            try:
                if fn(ctx, c):
                    cur, changed = c, True
            except Exception:  # noqa
                pass
    return cur


def run(ctx):
    rng = ctx.rng
    consts = _constants(ctx)
    ctx.rule = ('direction pairs: identical, antipodal, near-antipodal, offsets 1e-17..1e-8 and 1e-8..0.3 rad, both poles, equal '
                'ra / equal dec, random, non-canonical ra; right ascensions shifted by -3..3 full turns; times 0, powers of ten, 1e0..1e5 d, '
                '50000..62000 MJD, negative; azimuths over [0, 2pi) incl. the values that put the right ascension next to the '
                '0/2pi wrap ; zenith over [0, pi] incl. both ends; psi in [0, pi] incl. 0, pi, 1e-17..1e-8 and '
                'circles through a pole, polar sources, circle parameter incl. the quadrant points; rotations with source = / near / '
                'antipodal to the true direction and polar sources; batches of 250 and of 0, 1, 2, 3, 7 elements; scalar calls and '
                'error paths; every call checked for in-place modification of / aliasing with its arguments; every element of every '
                'batch is evaluated and classified by its own signature. Relations: separation within 1e-12*psi + 1e-15*tan(psi/2) '
                '(+ the rounding of the code\'s own ra1-ra2) of the 80-bit vector angle; symmetry within the same bound (bit-equality '
                'counted); separations of computed directions within 2e-14 + 1e-12*psi (rotate_spherical_vector: + 4e-15/sin(alpha)); '
                'azi/ra relations within 4e-15 + 4pi*ulp(mjd/length); model vs implementation: positions within 1e-12 + 2e-15/cos(dec) '
                '(+ 4e-15/sin(alpha), + 4e-15/cos(dec_src) for the longitude offset of astropy). A case is distinct by (kind, all float inputs)')
    ctx.trusted_base += ['correspondence harness harness/props/c19.py (relations stated in the evidence rule)',
                         'numpy/libm sin, cos, arcsin, arccos, arctan2, sqrt, mod vs. Lean Float (compared on every run)',
                         'np.longdouble (80-bit) haversine/Vincenty reference for the separation checks',
                         'astropy position_angle / angular_separation / offset_by re-implemented in Model/Coords.lean (compared on every run)',
                         'IEEE rounding is outside the theorems: over the reals, plus NaN-freedom for arbitrary intermediate values; '
                         'float-only range edges and accuracies are checked on the implementation']
    ctx.assumptions += ['inputs are float64 ndarrays as the docstrings say (angular_separation raises TypeError for Python scalars / 0-d arrays: '
                        'x[x < 0.] = 0.); only azi_to_ra_transform, ra_to_azi_transform, hor_to_equ_transform (called with scalars by '
                        'the unit tests) and a scalar psi are exercised with scalars',
                        'separations within 6.5e-8 rad of pi are not resolved by the haversine (x rounds to 1)',
                        'rotate_spherical_vector resolves separations to 4e-15/sin(alpha) for a rotation angle alpha in [1e-6, pi - 1e-6]; '
                        'outside: open findings (source next to / antipodal to the true direction)',
                        'separations next to a celestial pole: open findings for rotate_spherical_vector and rotate_signal_events_on_sphere '
                        '(arcsin of a Cartesian component)',
                        'rotate_spherical_vector: model and implementation are not compared where true direction and source are within '
                        '1e-6 rad of antipodal (both normalise rounding noise; open finding)',
                        'exact relocation theorem: source outside astropy\'s polar cap 0 < cos(dec) < 1e-12; inside: 2*(pi/2 - |dec|) bound',
                        'which (source, event) pairs exist in a trial is the subject of C05: the psi field is checked for the pairs the '
                        'trial data manager reports, identified by the eid column',
                        'azimuth in [0, 2pi) for the involution (otherwise azi mod 2pi comes back)']
    if not _LD_OK:
        ctx.note('np.longdouble is not an extended type on this platform: separation reference tolerance widened by 1e4')

    N = ctx.n(8000, 200000)
    B = 250
    _CONSTS.update(consts)
    corr = []      # (kind, batch case)
    orac = []      # (check name, batch case)

    def small_batches(elems, keys, extra=None):
        """the batch sizes 0, 1, 2, 3, 7 (vectorised code can go wrong for a particular length)"""
        out, pos = [], 0
        for size in (0, 1, 2, 3, 7):
            out += _batches(elems[pos:pos + size], keys, max(size, 1), extra) if size else [dict({k: [] for k in keys}, **(extra or {}))]
            pos += size
        return out

    # ---- angular separation
    elems = []
    for _ in range(N):
        cls, ra1, dec1, ra2, dec2 = gen_pair(rng)
        k1, k2 = (rng.randrange(-3, 4), rng.randrange(-3, 4)) if rng.random() < 0.5 else (rng.choice([-1, 1]), 0)
        if rng.random() < 0.15:        # non-canonical right ascensions as inputs
            ra1 += TWO_PI * rng.randrange(-2, 3)
            cls += ',ra-not-canonical'
        elems.append((ra1, dec1, ra2, dec2, k1, k2))
        ctx.count('pair:' + cls)
    # directed: the lower clip x < 0 needs a declination beyond a pole (mirror points through the pole, x = 0 up to
    # rounding) — outside the property's quantifier, the function does not validate its input
    for _ in range(ctx.n(60, 600)):
        a = rng.choice([rng.uniform(0.0, 1.5), 10.0 ** rng.uniform(-8, 0)])
        r = gen_ra(rng)
        s_ = rng.choice([1.0, -1.0])
        elems.append((r, s_ * (HALF_PI + a), r + PI, s_ * (HALF_PI - a), 0, 0))
        ctx.count('pair:dec-beyond-pole(outside quantifier)')
    keys = ['ra1', 'dec1', 'ra2', 'dec2', 'k1', 'k2']
    nsb = ctx.n(40, 400)
    structured = _structured_batches(rng, elems, keys, nsb)
    for cst, b in structured:
        ctx.count('sep:constant-columns')
    for b in _batches(elems, keys, B) + small_batches(elems, keys) + [b for _, b in structured]:
        orac.append(('sep', b))
        corr.append(('sep', {k: b[k] for k in ('ra1', 'dec1', 'ra2', 'dec2')}))
        ctx.count('batch-size:%s' % (_n(b) if _n(b) < 8 else '8+'))
    for _ in range(ctx.n(4, 40)):
        fl = rng.choice([0.0, 1e-9, 10.0 ** rng.uniform(-12, 0), math.radians(0.2), PI])
        sub = [elems[rng.randrange(len(elems))][:4] for _ in range(60)]
        for b in _batches(sub, ['ra1', 'dec1', 'ra2', 'dec2'], 60, {'floor': fl}):
            orac.append(('sep_floor', b))
            corr.append(('sepf', b))

    # ---- azimuth <-> right ascension, horizontal -> equatorial
    elems = []
    for _ in range(N):
        mjd = gen_mjd(rng)
        cls, azi = gen_azi(rng, mjd, consts)
        r = rng.random()
        zen = rng.choice([0.0, PI, HALF_PI, _ulps(HALF_PI, 1)]) if r < 0.1 else (
            math.acos(rng.uniform(-1.0, 1.0)) if r < 0.7 else rng.uniform(0.0, PI))
        k = rng.choice([1, 1, -1, 2, 7, 365, -1000, 10000])
        elems.append((azi, zen, mjd, k))
        ctx.count('mjd:1e%d' % (int(math.floor(math.log10(abs(mjd)))) if mjd != 0 else -99))
        ctx.count('azi:' + cls)
        ctx.count('zen:' + ('end' if r < 0.1 else 'interior'))
    keys = ['azi', 'zen', 'mjd', 'k']
    structured = _structured_batches(rng, elems, keys, nsb)
    ctx.count('azi:constant-columns', len(structured))
    for b in _batches(elems, keys, B) + small_batches(elems, keys) + [b for _, b in structured]:
        orac.append(('azi', {'azi': b['azi'], 'mjd': b['mjd'], 'k': b['k']}))
        orac.append(('hor', {'azi': b['azi'], 'zen': b['zen'], 'mjd': b['mjd']}))
        corr.append(('azi', {'azi': b['azi'], 'mjd': b['mjd']}))
        corr.append(('hor', {'azi': b['azi'], 'zen': b['zen'], 'mjd': b['mjd']}))

    # ---- psi_to_dec_and_ra
    elems = []
    for _ in range(N):
        cls, e = gen_psi2(rng)
        elems.append(e)
        ctx.count('psi:' + cls)
    # few distinct sources per batch: the real function takes the source as a scalar
    srcs = [(gen_dec(rng), gen_ra(rng)) for _ in range(max(4, N // 25))]
    for j, e in enumerate(list(elems)):
        if j % 2 == 0:
            sd, sr = srcs[rng.randrange(len(srcs))]
            psi = e[2] if rng.random() < 0.8 else min(max(rng.choice([HALF_PI - sd, HALF_PI + sd]), 0.0), PI)
            elems[j] = (sd, sr, psi, e[3])
    keys = ['src_dec', 'src_ra', 'psi', 't']
    structured = _structured_batches(rng, elems, keys, nsb)
    ctx.count('psi:constant-columns', len(structured))
    for b in _batches(elems, keys, B) + small_batches(elems, keys) + [b for _, b in structured]:
        orac.append(('psi2', b))
        corr.append(('psi2', b))

    # ---- rotations onto the source
    keys = ['ra1', 'dec1', 'ra2', 'dec2', 'ra3', 'dec3']
    for kind in ('rot', 'reloc'):
        elems = []
        for _ in range(N // 2):
            cls, *e = gen_rot(rng, True)
            if rng.random() < 0.1:     # non-canonical right ascensions: the same directions
                j = rng.choice([0, 2, 4])
                e[j] += TWO_PI * rng.choice([-1, 1, 2])
                cls += ',ra-not-canonical'
            elems.append(tuple(e))
            ctx.count(kind + ':' + cls)
        # directed: the relocated / rotated direction is exactly a pole (arcsin at the edge of its domain)
        for _ in range(ctx.n(40, 400)):
            r1, d1 = gen_ra(rng), math.asin(rng.uniform(-1.0, 1.0))
            pole = rng.choice([HALF_PI, -HALF_PI])
            elems.append((r1, d1, r1, d1, gen_ra(rng), pole))
            ctx.count(kind + ':src=true/reco-at-pole')
        # directed: an event rotated exactly onto a pole (its z component rounds above 1 in ~8 % of the cases: the clip of z)
        for _ in range(ctx.n(80, 800)):
            r1, d1 = gen_ra(rng), math.asin(rng.uniform(-1.0, 1.0))
            elems.append((r1, d1, gen_ra(rng), rng.choice([HALF_PI, -HALF_PI]), r1, d1))
            ctx.count(kind + ':src-pole/reco=true(directed)')
        elems.append((1.9439843669454338, 0.13146255981252175, 1.9439843669454338, 0.13146255981252175, HALF_PI, HALF_PI))
        elems.append((1.9439843669454338, -0.13146255981252175, 1.9439843669454338, -0.13146255981252175, HALF_PI, -HALF_PI))
        structured = _structured_batches(rng, elems, keys, 2 * nsb)
        for cst, b in structured:
            ctx.count('%s:constant-columns:%s' % (kind, 'src-ra-only' if ('ra2' in cst.split(',') and 'dec2' not in cst.split(','))
                                                   else 'src-dec-only' if ('dec2' in cst.split(',') and 'ra2' not in cst.split(','))
                                                   else 'other'))
        for b in _batches(elems, keys, B) + small_batches(elems, keys) + [b for _, b in structured]:
            orac.append((kind, b))
            corr.append((kind, b))

    # ---- calling conventions and error paths
    for what, v in (('azi-scalar', [0.5, 58457.0, 0.5]), ('azi-scalar', [rng.uniform(0, TWO_PI), gen_mjd(rng), rng.uniform(0, PI)]),
                    ('psi2-scalar-psi', [0.3, 1.0, 0.01, 2.0]), ('rot-length-mismatch', []), ('reloc-length-mismatch', []),
                    ('reloc-dec-out-of-range', [float(np.nextafter(HALF_PI, 4.0))]), ('reloc-dec-out-of-range', [2.0])):
        orac.append(('api', {'what': what, 'v': v}))
        ctx.count('api:' + what)

    # ---- whole calls: lengths, broadcasting, argument forms, validation — against the call-level model
    call_cases = []
    for _ in range(ctx.n(700, 12000)):
        cls, case = gen_calls(rng)
        call_cases.append(case)
        ctx.count('calls:%s:%s' % (case['fn'], cls))
        if case.get('floor_form'):
            ctx.count('calls:sep:floor-passed=%s%s' % (case['floor_form'], '' if case.get('floor') is not None else ',no-floor'))
        for fm in case['forms']:
            ctx.count('calls:form=' + fm)
    call_models = ctx.driver('C19', [_calls_request(c) for c in call_cases])
    for case, ml in zip(call_cases, call_models):
        ctx.case(nontrivial=True, key=('calls', case))
        fails = chk_calls(case, model_line=ml)
        for i, tag, txt in fails.items():
            sig = _sig('calls', case['fn'] + '/' + tag)
            if sig in ctx.open_signatures():
                ctx.count('known-class:' + sig)
            else:
                ctx.violation('calls', case, txt, signature=sig, model_output=ml)

    # ---- the psi field function as a call on arbitrary index pairs (np.take's error path)
    pc_cases = []
    for _ in range(ctx.n(150, 2000)):
        cls, case = gen_psicall(rng)
        pc_cases.append(case)
        ctx.count('psicall:' + cls)
    pc_models = ctx.driver('C19', [_psicall_request(c) for c in pc_cases])
    for case, ml in zip(pc_cases, pc_models):
        ctx.case(nontrivial=True, key=('psicall', case))
        for i, tag, txt in chk_psicall(case, model_line=ml).items():
            ctx.violation('psicall', case, txt, signature=_sig('psicall', 'call/' + tag), model_output=ml)

    # ---- round 7: signed index pairs (numpy's wrap-around of negative indices; model normIdx / psiFieldCallI)
    pi_cases = []
    for _ in range(ctx.n(200, 3000)):
        cls, case = r7.gen_psicalli(_H(), rng)
        pi_cases.append(case)
        ctx.count('psicalli:' + cls)
    pi_models = ctx.driver('C19', [r7.psicalli_request(_H(), c) for c in pi_cases])
    ni_reqs = [r7.normidx_requests(c) for c in pi_cases]
    ni_flat = ctx.driver('C19', [r for rs in ni_reqs for r in rs]) if any(ni_reqs) else []
    pos = 0
    for case, ml, rs in zip(pi_cases, pi_models, ni_reqs):
        nl = ni_flat[pos:pos + len(rs)]
        pos += len(rs)
        ctx.case(nontrivial=True, key=('psicalli', case))
        for i, tag, txt in chk_psicalli(case, model_line=ml, norm_lines=nl).items():
            ctx.violation('psicalli', case, txt, signature=_sig('psicalli', 'signed-call/' + tag), model_output=ml)

    # ---- round 7: hor_to_equ_transform / ra_to_azi_transform as whole calls (model horToEquCall / raToAziCall)
    hc_cases = []
    for _ in range(ctx.n(300, 5000)):
        cls, case = r7.gen_horcall(_H(), rng)
        hc_cases.append(case)
        ctx.count('horcall:' + cls)
    hc_models = ctx.driver('C19', [r7.horcall_request(_H(), c) for c in hc_cases])
    for case, ml in zip(hc_cases, hc_models):
        ctx.case(nontrivial=True, key=('horcall', case))
        for i, tag, txt in chk_horcall(case, model_line=ml).items():
            fn = 'hor_to_equ_transform' if case['fn'] == 'hor' else 'ra_to_azi_transform'
            ctx.violation('horcall', case, txt, signature='C19/%s/call/%s' % (fn, tag), model_output=ml)

    # ---- round 7: psi_to_dec_and_ra as one call (model psiToDecRaCall / psiDrawRequest)
    p2_cases = []
    for _ in range(ctx.n(250, 4000)):
        cls, case = r7.gen_psi2call(_H(), rng)
        p2_cases.append(case)
        ctx.count('psi2call:' + cls)
    p2_models = ctx.driver('C19', [r for c in p2_cases for r in r7.psi2call_requests(_H(), c)])
    for j, case in enumerate(p2_cases):
        ml = p2_models[2 * j:2 * j + 2]
        ctx.case(nontrivial=True, key=('psi2call', case))
        try:
            fails = chk_psi2call(case, model_lines=ml)
        except MachineryStub as e:
            raise MachineryError('C19 fixture: %s' % e)
        for i, tag, txt in fails.items():
            ctx.violation('psi2call', case, txt, signature=_sig('psi2call', 'call/' + tag), model_output=' | '.join(ml))

    # ---- the psi data field of a real TrialDataManager and the Gaussian PSF density
    tdm_cases = []
    for _ in range(ctx.n(250, 6000)):
        mode, case = gen_tdm(rng)
        tdm_cases.append(case)
    tdm_susp = []
    tdm_exact = 0
    for case in tdm_cases:
        try:
            out = impl_tdm(case)
        except Exception as e:  # noqa
            # the trial data manager is a fixture here (its behaviour is the subject of C05/C06)
            raise MachineryError('C19 fixture: building the trial data manager / psi field raised %s: %s' % (type(e).__name__, e))
        npairs, nsel = len(out['k']), out['n_selected']
        ctx.count('tdm:K=%d' % len(case['src']))
        ctx.count('tdm:sel=%s' % case.get('sel'))
        ctx.count('tdm:index=%s' % (case.get('index') is not None))
        ctx.count('tdm:pair-order=%s' % (case.get('pair_order') or 'default').split(':')[0])
        ks = out['k']
        ctx.count('tdm:src_idxs-%s' % ('ascending' if len(ks) < 2 or bool(np.all(np.diff(ks) >= 0)) else 'not-ascending'))
        ctx.count('tdm:second-trial=%s' % (case.get('prev') is not None))
        ctx.count('tdm:objects-reused=%s' % bool(case.get('reuse')))
        ctx.count('tdm:get_pd-precalculated=%s' % (case.get('precalc') is not None))
        ctx.count('tdm:n_pairs%sn_selected' % ('==' if npairs == nsel else '<' if npairs < nsel else '>')
                  + (',K>1' if len(case['src']) > 1 else ',K=1'))
        ctx.count('tdm:pairs', npairs)
        ctx.case(nontrivial=npairs > 0, key=('tdm', case), desc={'kind': 'tdm', 'case': case} if ctx.evaluations % 977 == 0 else None)
        case['_out'] = out
    # one driver batch for all TDM cases
    reqs_all, spans_t = [], []
    for case in tdm_cases:
        out = case.pop('_out', None)
        if out is None:
            continue
        holder = {}

        def collect(reqs, holder=holder):
            holder['reqs'] = reqs
            raise _Collected()
        try:
            _tdm_corr(collect, case, out)
        except _Collected:
            spans_t.append((case, out, len(reqs_all), len(holder['reqs'])))
            reqs_all.extend(holder['reqs'])
            continue
        spans_t.append((case, out, len(reqs_all), 0))
    ans_all = ctx.driver('C19', reqs_all) if reqs_all else []
    for case, out, s0, n0 in spans_t:
        bad, exact = _tdm_corr(lambda reqs, a=ans_all[s0:s0 + n0]: a, case, out)
        tdm_exact += exact
        if bad:
            tdm_susp.append((case, bad[0]))
        for name in ('tdm_psi', 'psf_pd'):
            ctx.count('oracle:' + name)
            res = ORACLES[name](ctx, case)
            if res:
                small = _shrink_tdm(ctx, name, case)
                res = ORACLES[name](ctx, small) or res
                ctx.violation(name, small, res, signature=_signature(name, res))
    for case, txt in tdm_susp[:3]:
        hit = False
        for name in ('tdm_psi', 'psf_pd'):
            res = ORACLES[name](ctx, case)
            if res:
                small = _shrink_tdm(ctx, name, case)
                res = ORACLES[name](ctx, small) or res
                ctx.violation(name, small, res, signature=_signature(name, res), model_output=txt)
                hit = True
                break
        if not hit:
            ctx.violation('tdm_corr', case, 'model and implementation disagree (%s) but no property oracle fails on this input' % txt,
                          kind='correspondence', relation='tolerance relation of the psi field / PSF density', model_output=txt,
                          signature='C19/corr/tdm', no_failing_input=True)
    ctx.extra['tdm_psi_bit_exact'] = tdm_exact

    # ---- correspondence, batched through one driver process
    reqs, spans = [], []
    for kind, c in corr:
        n = _n(c)
        spans.append((len(reqs), n))
        reqs.extend(_corr_request(kind, c, i) for i in range(n))
    models = ctx.driver('C19', reqs)
    suspicious = []
    n_exact = n_total = 0
    for (kind, c), (s, n) in zip(corr, spans):
        try:
            impl = _corr_impl(kind, c)
        except MachineryStub as e:
            raise MachineryError('C19 fixture: %s' % e)
        except Exception as e:  # noqa
            ctx.violation('corr', {'kind': kind, 'c': c}, '%s raised %s: %s' % (kind, type(e).__name__, e),
                          signature='C19/corr/%s/raises' % kind)
            continue
        PURE.problem = None
        if impl is None:
            ctx.count('corr:%s:not-compared(other circle parametrisation)' % kind, n)
            continue
        _count_tags(kind, models[s:s + n])
        bad, exact = _corr_compare(kind, c, impl, models[s:s + n])
        n_exact += exact
        n_total += n
        ctx.count('corr:' + kind, n)
        for i in range(n):
            ctx.case(nontrivial=True, key=(kind, [c[k][i] for k in sorted(c) if isinstance(c[k], list)], c.get('floor')),
                     desc={'kind': kind, 'case': _pick(c, i)} if (ctx.evaluations % 1499 == 0) else None)
        for i, txt in bad:
            suspicious.append((kind, _pick(c, i), txt))
    ctx.extra['correspondence_bit_exact'] = '%d of %d' % (n_exact, n_total)
    ctx.extra['hypotheses'] = {
        'c19_azi_ra_involution: 0 <= azi < 2pi': 'quantifier (azimuth in its physical range)',
        'c19_psi_offset: 0 <= psi <= pi': 'quantifier',
        'c19_relocate_sep_bound / c19_relocate_cos_sep_bound: canonical source declination': 'established by the code: SkyCoord rejects the '
        'call otherwise (model relocateCall; c19_relocateCall_errors, c19_relocateCall_elem carries the bound without the hypothesis)',
        'c19_relocate_identity: canonical reco declination': 'established by the code (same validation)',
        'c19_relocate_preserves_sep / c19_relocate_identity: eps <= cos(dec) or cos(dec) = 0': 'assumption (outside astropy\'s polar cap); '
        'inside: c19_relocate_sep_bound',
        'c19_psf_pd: sigma != 0': 'assumption (ang_err > 0; the density of an event with ang_err = 0 is NaN in the code, a matter of C10)',
        'c19_psi_field / c19_psf_field: indices in range': 'established for trials without selection (c19_default_pairs); otherwise the call '
        'raises (c19_psiFieldCall); pairs of a selection: C05',
        'c19_block_broadcast_eq_take_of_sorted: ascending source indices': 'established for the default pairs (c19_default_pairs, '
        'c19_block_broadcast_default_pairs); false otherwise (c19_block_broadcast_counterexample)',
        'c19_azi_ra_sidereal_period: len != 0': 'discharged for the constant of the current source (c19_sidereal_length_ne_zero)',
        '0 < eps': 'discharged for the threshold of the installed astropy (…_for_current_source)',
        'c19_psiFieldCallI_refines: every signed pair normalises (pairs.map normPair = ps.map some)': 'established by the code: np.take '
        'raises for the whole call otherwise (c19_psiFieldCallI_error: exactly when an index is outside [-n, n)); real trials only '
        'produce non-negative indices (c19_psiFieldCallI_nat)',
        'c19_angSepCall_elem / c19_aziToRaCall_elem: the call succeeded': 'established by the code: numpy raises otherwise '
        '(c19_angSepCall_error, c19_bcastLen)',
        'argument order / psi_floor=None of the call-level model': 'discharged for the current source (c19_signatures_for_current_source)'}
    ctx.extra['counts'] = {'branches': BRANCH_COUNTS,
                           'zero_hit_branches': sorted('%s/%s' % (k, b) for k, bs in BRANCHES.items() for b in bs
                                                       if not BRANCH_COUNTS.get(k, {}).get(b)),
                           'proved_unreachable_and_not_hit': sorted('%s/%s' % (k, b) for k, bs in PROVED_UNREACHABLE.items() for b in bs
                                                                    if not BRANCH_COUNTS.get(k, {}).get(b))}
    if ctx.extra['counts']['zero_hit_branches']:
        ctx.note('model branches not hit in this run: %s' % ', '.join(ctx.extra['counts']['zero_hit_branches']))
    ctx.extra['symmetry_bit_exact'] = SYM
    ctx.extra['correspondence_disagreements'] = len(suspicious)

    # ---- property checks on the implementation: every element, every signature
    for name, c in orac:
        ctx.count('oracle:' + name, max(_n(c), 1))
        ctx.case(nontrivial=True, key=(name, c))
        try:
            fails = CHECKS[name](c)
        except (MachineryStub, MachineryError) as e:
            raise MachineryError('C19 fixture: %s' % e)
        except Exception as e:  # noqa
            ctx.violation(name, c, '%s raised %s: %s (batch of %d)' % (_FUNC_OF[name], type(e).__name__, e, _n(c)),
                          signature=_sig(name, 'raises'))
            continue
        _report_fails(ctx, name, c, fails)

    # ---- model/implementation disagreements: failing-input search with the checks; a hit of a class that is a
    #      listed finding does not explain a disagreement
    seen = {}
    for kind, c1, txt in suspicious:
        if seen.get(kind, 0) >= 8:
            continue
        seen[kind] = seen.get(kind, 0) + 1
        new = 0
        for name in _CHECKS_OF_KIND[kind]:
            new += _report_fails(ctx, name, dict(c1), CHECKS[name](dict(c1)), model_output=txt)
        if not new:
            ctx.violation('corr', {'kind': kind, 'c': c1},
                          'model and implementation disagree (%s) but no property oracle fails on this input' % txt,
                          kind='correspondence', relation='tolerance relation of ' + kind, model_output=txt,
                          signature='C19/corr/' + kind, no_failing_input=True)


MANIFEST = dict(
    text=('Lean theorems over the reals about Model/Coords.lean: the haversine separation is symmetric, in [0, pi], exactly 0 for '
          'identical inputs and 0 iff the unit vectors agree, obeys the triangle inequality, is invariant under full turns and equals '
          'arccos of the scalar product of the unit vectors; azi<->ra is an involution on [0, 2pi), has slope -1 in azimuth, ra + azi is '
          'the sidereal angle and the sidereal length is a period; NaN freedom: with arcsin/arccos modelled as partial functions the '
          'clipped code stays in their domain for arbitrary intermediate values and all results are in the canonical ranges (false '
          'without the clips and for astropy\'s offset_by); psi_to_dec_and_ra returns directions at separation psi; '
          'rotate_spherical_vector and the astropy relocation preserve the separation (exactly outside astropy\'s polar cap, within '
          '2*(pi/2-|dec_src|) everywhere) and the relocation preserves the position angle; whole calls (broadcasting, length asserts, '
          'SkyCoord validation, np.take errors incl. numpy\'s wrap-around of negative indices) raise exactly when the call-level model says, and '
          'every element of a successful angular_separation / azi_to_ra_transform / hor_to_equ_transform call is the per-element function of '
          'the broadcast elements (hor_to_equ_transform: one declination per zenith angle, not broadcast); parameter lists and psi_floor '
          'defaults are regenerated from the source; the psi trial-data field and the Gaussian PSF density hold the vector angle of their own pair. '
          'The Float instance of the same model is compared with the real functions and real TrialDataManagers on every run; per-element '
          'oracles (80-bit reference, metamorphic relations, purity, error paths) search the implementation for failing inputs.'),
    note=('hor_to_equ_transform returns dec = pi - zen (counterexample theorem; pinned by tests/i3/test_coords.py). Open findings: astropy NaN '
          'and loss of separations < 1.5e-8 rad when the relocated direction is next to a pole; rotate_spherical_vector next to a pole and for '
          'source next to / antipodal to the true direction. IEEE accuracy is checked on the implementation only (relations in the evidence rule). '
          'astropy is modelled, not verified.'),
    design='DESIGN.md section 4 C19',
    technique='Lean 4 proof (real trigonometry, vector algebra via grind/linear_combination, partial inverse functions) + tolerance-based Float-model/implementation correspondence + per-element exact and 80-bit oracles')
