"""C06 — a trial's result never depends on earlier trials or evaluations (cache transparency).

Correspondence: a real likelihood object graph (harness/cache_fixtures.py: TrialDataManager with/without data
fields, SignalMultiDimGridPDFSet with Linear/Parabola interpolation over MultiDimGridPDFs with caching on/off,
SigOverBkgPDFRatio, SourceWeightedPDFRatio, ZeroSigH0SingleDatasetTCLLHRatio, MultiDatasetTCLLHRatio) is driven
through histories; Model/Cache.lean (Driver/C06.lean) is driven through the same histories on leaf values that
are recomputed with scipy alone.  Compared per operation: PDF-ratio values and gradients of every (source, event)
(relation: |a-b| <= 1e-9*(|a|+|b|)+1e-300; bit-exactness is counted as a diagnostic), interpolation-cache hit,
number of spline evaluations, background-cache miss (exact), and which evaluation a second derivative refers to.
Property oracles (implementation only): the same final query on a freshly built object graph (bitwise), the same
history with PDF value caching switched off (bitwise), byte snapshots of the leaf caches (inputs never written, repeated
evaluation leaves caches and gradients bit-identical, caches equal those of a fresh object graph).  A second object
graph — PDFRatioProduct of the real SplinedI3EnergySigSetOverBkgPDFRatio (hands out its cache) with a sharing stub ratio,
in both orders — is driven by the oracles only.
"""
import copy

import numpy as np

from harness.core import MachineryError, f2b, flist, ilist, parse_flist

MODEL_MODULES = ['SkyllhModel.Model.Cache', 'SkyllhModel.Model.CacheTop', 'SkyllhModel.Model.CacheI3R7']

# which Python callables have an executable Lean counterpart that the c06_* theorems are about and that run(ctx) compares with
# the real callable on every run (harness/core.py model_map_report checks keys against the current source, names against the
# imported model files)
MODEL_MAP = {
    'skyllh/core/trialdata.py::TrialDataManager.initialize_trial': ['Cache.initTrial', 'Cache.bumpInit', 'CacheTop.tstep'],
    'skyllh/core/trialdata.py::TrialDataManager.change_shg_mgr': ['Cache.changeSource', 'Cache.bumpSrc'],
    'skyllh/core/trialdata.py::TrialDataManager.calculate_global_fitparam_data_fields': ['Cache.fieldCalc', 'Cache.fieldStep'],
    'skyllh/core/interpolate.py::Linear1DGridManifoldInterpolationMethod._is_cached': ['Cache.linearHit', 'Cache.hitOf'],
    'skyllh/core/interpolate.py::Linear1DGridManifoldInterpolationMethod.__call__':
        ['Cache.interpCall', 'Cache.interpMiss', 'Cache.linCoef', 'Cache.linVal'],
    'skyllh/core/interpolate.py::Parabola1DGridManifoldInterpolationMethod._is_cached': ['Cache.hitOf'],
    'skyllh/core/interpolate.py::Parabola1DGridManifoldInterpolationMethod.__call__':
        ['Cache.interpCall', 'Cache.interpMiss', 'Cache.parCoef', 'Cache.parVal'],
    'skyllh/core/pdf.py::MultiDimGridPDF._get_cached_pd_values': ['Cache.pdGet'],
    'skyllh/core/pdf.py::MultiDimGridPDF._store_pd_values_to_cache': ['Cache.pdGet'],
    'skyllh/core/signalpdf.py::SignalMultiDimGridPDFSet.initialize_for_new_trial': ['CacheTop.tstep'],
    'skyllh/core/signalpdf.py::SignalMultiDimGridPDFSet.get_pd': ['Cache.evalPdfs', 'Cache.evalC', 'CacheTop.evalCσ'],
    'skyllh/core/pdfratio.py::SigOverBkgPDFRatio.get_ratio': ['Cache.ratioOf', 'Cache.finish'],
    'skyllh/core/pdfratio.py::SigOverBkgPDFRatio.get_gradient': ['Cache.gradOf', 'Cache.finish'],
    'skyllh/core/pdfratio.py::SourceWeightedPDFRatio.get_ratio': ['CacheTop.derive', 'CacheTop.denseRow'],
    'skyllh/core/pdfratio.py::PDFRatioProduct.get_ratio': ['CacheI3.pstep', 'CacheI3.mulRows'],
    'skyllh/core/pdfratio.py::PDFRatioProduct.get_gradient': ['CacheI3.pstep', 'CacheI3.combine', 'CacheI3.dep1Of', 'CacheI3.gradOrZero'],
    'skyllh/core/llhratio.py::ZeroSigH0SingleDatasetTCLLHRatio.evaluate': ['CacheTop.tstep', 'CacheTop.derive'],
    'skyllh/core/llhratio.py::ZeroSigH0SingleDatasetTCLLHRatio.calculate_ns_grad2': ['CacheTop.grad2Of'],
    'skyllh/core/llhratio.py::ZeroSigH0SingleDatasetTCLLHRatio.initialize_for_new_trial': ['CacheTop.tstep'],
    'skyllh/core/llhratio.py::MultiDatasetTCLLHRatio.evaluate': ['CacheTop.cstep', 'CacheTop.combine', 'CacheTop.q0'],
    'skyllh/core/llhratio.py::MultiDatasetTCLLHRatio.calculate_ns_grad2': ['CacheTop.cgrad2Of'],
    'skyllh/core/llhratio.py::MultiDatasetTCLLHRatio.initialize_for_new_trial': ['CacheTop.expand'],
    'skyllh/core/llhratio.py::MultiDatasetTCLLHRatio.change_shg_mgr': ['CacheTop.expand'],
    'skyllh/i3/pdfratio.py::SplinedI3EnergySigSetOverBkgPDFRatio._is_cached': ['CacheI3.keyEq', 'CacheI3.lookup'],
    'skyllh/i3/pdfratio.py::SplinedI3EnergySigSetOverBkgPDFRatio._create_interpol_params_recarray':
        ['CacheI3.allClose', 'CacheI3.reduceKey', 'CacheI3.closeAbs'],
    'skyllh/i3/pdfratio.py::SplinedI3EnergySigSetOverBkgPDFRatio._calculate_ratio_and_grads': ['CacheI3.miss'],
    'skyllh/i3/pdfratio.py::SplinedI3EnergySigSetOverBkgPDFRatio.get_ratio': ['CacheI3.lookup', 'CacheI3.step'],
    'skyllh/i3/pdfratio.py::SplinedI3EnergySigSetOverBkgPDFRatio.get_gradient': ['CacheI3.lookup', 'CacheI3.gradOut', 'CacheI3.assemble'],
}

RECORDED_VARIANT = (True, True, True, True, True)
_VARIANT = {}


# --------------------------------------------------------------------------------------------------
# translator part: five facts about the code the proofs are parametric in.  They are *probed* on the real classes
# (five tiny histories through public methods — the witnesses of the five findings), not pattern-matched in the source:
# a behaviour-preserving refactoring (bump moved into a helper) cannot flip them, a conditional reset does.

def _probe_bump():
    from harness import llh_fixtures as fx
    from skyllh.core.trialdata import TrialDataManager
    cfg = fx.make_cfg()
    srcs = fx.make_sources(1)
    shg = fx.make_shg_mgr(cfg, srcs)
    pmm = fx.make_pmm(srcs)
    tdm = TrialDataManager()
    ids = [tdm.trial_data_state_id]
    tdm.initialize_trial(shg_mgr=shg, pmm=pmm, events=fx.make_events(3))
    ids.append(tdm.trial_data_state_id)
    tdm.initialize_trial(shg_mgr=shg, pmm=pmm, events=fx.make_events(3))
    ids.append(tdm.trial_data_state_id)
    tdm.change_shg_mgr(shg_mgr=shg, pmm=pmm)
    ids.append(tdm.trial_data_state_id)
    return all(b > a for a, b in zip(ids, ids[1:]))


_PROBE_SPEC = dict(K=1, split=False, fields='none', cache=False, interp='linear', scale='mjd')


def _probe_exact_hit():
    cf = _cf()
    b = cf.base(_PROBE_SPEC)
    G = cf.build(_PROBE_SPEC, 0, 0)
    cf.op_evaluate(G, 2.5, [b + 1.03])
    used = cf.op_evaluate(G, 2.5, [b + 1.13])
    fresh = cf.op_evaluate(cf.build(_PROBE_SPEC, 0, 0), 2.5, [b + 1.13])
    return _same(used['grads'], fresh['grads']) and _same(used['llh'], fresh['llh'])


def _probe_reset_nsgrad():
    cf = _cf()
    G = cf.build(_PROBE_SPEC, 0, 0)
    cf.op_evaluate(G, 2.5, [cf.base(_PROBE_SPEC) + 1.03])
    cf.op_reinit_same(G)
    return cf.op_grad2(G, 2.5) == 'ERR'


def _probe_clear_on_eval():
    cf = _cf()
    b = cf.base(_PROBE_SPEC)
    G = cf.build(_PROBE_SPEC, 0, 0)
    cf.op_evaluate(G, 2.5, [b + 1.03])
    try:
        cf.op_evaluate(G, 2.5, [b + 2.95])
        return True        # nothing failed: the flag is irrelevant
    except Exception:  # noqa
        pass
    return cf.op_grad2(G, 2.5) == 'ERR'


def _probe_reset_fields():
    cf = _cf()
    T = cf.build_field(0, 0)
    cf.field_calc(T, 2.0)
    cf.field_change_source(T, 1)
    return _same(cf.field_calc(T, 2.0)[0], [float(v) for v in cf.field_value(0, 1, 2.0)])


def probe_variant(ctx=None):
    """(bumpAlways, exactHit, resetNsgrad, clearNsgOnEval, resetFields) observed on the current code."""
    if 'v' in _VARIANT:
        return _VARIANT['v']
    out, fallbacks = [], []
    for i, fn in enumerate((_probe_bump, _probe_exact_hit, _probe_reset_nsgrad, _probe_clear_on_eval, _probe_reset_fields)):
        try:
            out.append(bool(fn()))
        except Exception as e:  # noqa
            out.append(RECORDED_VARIANT[i])
            fallbacks.append('%s: %s: %s' % (fn.__name__, type(e).__name__, e))
    if fallbacks and ctx is not None:
        ctx.proof['generated_fallbacks'] += fallbacks
        ctx.note('C06: code facts could not be probed, recorded values used: %s' % '; '.join(fallbacks))
    _VARIANT['v'] = tuple(out)
    return _VARIANT['v']


def extract_variant(ctx=None, with_fields=False):
    v = probe_variant(ctx)
    return v if with_fields else v[:4]


def _lean_float(x):
    from harness import extract
    return extract.lean_float(x)


_I3_ATOL = {}


def i3_atol(ctx=None):
    """the absolute tolerance below which SplinedI3EnergySigSetOverBkgPDFRatio._create_interpol_params_recarray treats the
    per-source parameter values as one value: the call np.isclose(np.diff(...), 0) read from the current source; keywords
    given as literals are taken from the call, absent ones are numpy's defaults (inspect.signature).  With b = 0 the
    relative term rtol*|b| vanishes, so atol is the whole tolerance."""
    if 'v' in _I3_ATOL:
        return _I3_ATOL['v']
    import ast
    import inspect
    from harness import extract
    from harness import c06_r7_fixtures as r7
    val, why = r7.ATOL_RECORDED, None
    try:
        f = extract.find_func(extract.find_class(extract.parse('skyllh/i3/pdfratio.py'), 'SplinedI3EnergySigSetOverBkgPDFRatio'),
                              '_create_interpol_params_recarray')
        calls = [n for n in ast.walk(f) if isinstance(n, ast.Call) and isinstance(n.func, ast.Attribute) and n.func.attr == 'isclose']
        if len(calls) != 1:
            why = '%d isclose calls' % len(calls)
        else:
            c = calls[0]
            kws = {k.arg: k.value for k in c.keywords}
            second = c.args[1] if len(c.args) > 1 else kws.get('b')
            if second is None or extract.literal(second) != 0:
                why = 'second argument of isclose is not the literal 0'
            elif len(c.args) > 2:
                why = 'positional tolerances'
            else:
                val = float(extract.literal(kws['atol'])) if 'atol' in kws else float(inspect.signature(np.isclose).parameters['atol'].default)
    except Exception as e:        # noqa: BLE001
        why = '%s: %s' % (type(e).__name__, e)
    if why and ctx is not None:
        ctx.note('C06: atol of _create_interpol_params_recarray not extracted (%s); recorded value %r used' % (why, val))
    _I3_ATOL['v'] = val
    return val


def generated(ctx):
    (a, b, c, e, d) = probe_variant(ctx)
    L = lambda x: 'true' if x else 'false'  # noqa
    return ('/- GENERATED by harness/props/c06.py: facts probed on the current skyllh classes. Do not edit. -/\n'
            'import SkyllhModel.Model.Cache\n'
            'namespace Gen.C06\n'
            '/-- the trial data state id is strictly larger after every initialize_trial and change_shg_mgr (no data fields) -/\n'
            'def bumpAlways : Bool := %s\n'
            '/-- Linear interpolation: an evaluation in the adjacent cell of an MJD-sized grid equals that of fresh objects -/\n'
            'def exactHit : Bool := %s\n'
            '/-- calculate_ns_grad2 right after a re-initialised trial raises RuntimeError -/\n'
            'def resetNsgrad : Bool := %s\n'
            '/-- initialize_trial on the same events array after a source change recomputes a global-fit-parameter field -/\n'
            'def resetFields : Bool := %s\n'
            '/-- calculate_ns_grad2 after a failed evaluate (point outside the grid) raises RuntimeError -/\n'
            'def clearNsgOnEval : Bool := %s\n'
            'def variant : Cache.Variant := ⟨bumpAlways, exactHit, resetNsgrad, clearNsgOnEval⟩\n'
            '/-- atol of the np.isclose(np.diff(...), 0) in SplinedI3EnergySigSetOverBkgPDFRatio._create_interpol_params_recarray -/\n'
            'def i3Atol {F : Type} [OfScientific F] : F := %s\n'
            'end Gen.C06\n') % (L(a), L(b), L(c), L(d), L(e), _lean_float(i3_atol(ctx)))


# --------------------------------------------------------------------------------------------------
# cases.   case = {spec, d0, s0, ops: [[kind, ...]], final: [kind, ...]}
#   ops:   ['I', d]               new trial, data set d, newly created events array
#          ['R']                  new trial on the same events array instance once more
#          ['M', d]               new trial on the same events array instance edited in place to hold data set d
#          ['S', s, how, events]  source change; how = 'mutate' | 'replace' | 'new' (manager / source object identity),
#                                 events = 'new' | 'same' (instance handed to the re-initialised trial); default new/new
#          ['E', ns, [x per source]] | ['G', ns] second derivative of the first dataset's likelihood
#          ['H', ns]              second derivative of the composite (multi-dataset) likelihood
#   final: ['eval', ns, xs] | ['eval_grad2', ns, xs] | ['grad2raw', ns] | ['maximize']

def _cf():
    from harness import cache_fixtures
    return cache_fixtures


def points(spec):
    """named parameter points: same cell (p, p2), adjacent cell (q), distant cell (r), on a grid node (n)"""
    cf = _cf()
    if spec.get('graph') == 'i3':
        spec = dict(spec, scale='small')
    b = cf.base(spec)
    gv = cf.grid_values(spec)
    if spec['interp'] == 'linear':
        off = {'p': 1.03, 'p2': 1.07, 'q': 1.13, 'r': 1.56, 'r2': 0.31}
    else:
        off = {'p': 1.02, 'p2': 0.97, 'q': 1.07, 'r': 1.56, 'r2': 0.31}
    pts = {k: b + v for k, v in off.items()}
    pts['n'] = float(gv[11])      # exactly on a grid point: upper boundary of the cell of p/p2, lower boundary of q's cell
    pts['n2'] = float(gv[12])     # the next grid point: upper boundary of q's cell
    return pts


def bad_point(spec):
    """a parameter value outside the grid of PDFs: evaluate raises (KeyError in PDFSet.get_pdf)"""
    cf = _cf()
    if spec.get('graph') == 'i3':
        return 4.45          # the gamma grid of the I3 energy PDF set is 1.0 … 4.0
    return cf.base(spec) + 2.95


def apply_op(G, op):
    cf = _cf()
    if op[0] == 'I':
        cf.op_init(G, op[1])
    elif op[0] == 'R':
        cf.op_reinit_same(G)
    elif op[0] == 'M':
        cf.op_mutate_events(G, op[1])
    elif op[0] == 'S':
        cf.op_change_source(G, op[1], *(op[2:4] if len(op) >= 4 else ('new', 'new')))
    elif op[0] == 'E':
        return cf.op_evaluate(G, op[1], op[2])
    elif op[0] == 'G':
        return cf.op_grad2(G, op[1])
    elif op[0] == 'H':
        return grad2_multi(G, op[1])
    else:
        raise ValueError(op)
    return 'U'


def grad2_multi(G, ns):
    """the composite likelihood's calculate_ns_grad2 (reads the dataset signal weight factors of the weights service and the
    per-dataset cached ns-gradients); 'ERR' when it is refused"""
    try:
        return _cf().op_grad2_multi(G, ns)
    except (RuntimeError, AttributeError):
        return 'ERR'


def model_ops(case, ops=None):
    """the history in the model's alphabet: R / M are initTrial of the current / the new data set"""
    d = case['d0']
    out = []
    for op in (case['ops'] if ops is None else ops):
        if op[0] in ('I', 'M'):
            d = op[1]
            out.append(['I', d])
        elif op[0] == 'R':
            out.append(['I', d])
        elif op[0] == 'S':
            out.append(['S', op[1]])
        elif op[0] == 'H':
            out.append(['G', op[1], 'multi'])
        else:
            out.append(op)
    return out


def run_history(spec, d0, s0, ops, final=None):
    """Drive a real object graph.  Returns (per-op results, final result).  A Python exception of an operation is part
    of the history: it is recorded as 'EXC:<type>: <msg>' and the history goes on with whatever state the objects were
    left in.  A failure to *build* the graph is a fixture problem (MachineryError)."""
    cf = _cf()
    res = []
    try:
        G = cf.build(spec, d0, s0)
    except Exception as e:  # noqa
        raise MachineryError('C06 fixture: cannot build the object graph %r: %s: %s' % (spec, type(e).__name__, e))
    for op in ops:
        try:
            res.append(apply_op(G, op))
        except Exception as e:  # noqa
            res.append('EXC:%s: %s' % (type(e).__name__, str(e)[:120]))
    fin = None
    if final is not None:
        try:
            if final[0] == 'eval':
                r = cf.op_evaluate(G, final[1], final[2])
                fin = {'llh': r['llh'], 'grads': r['grads'], 'ratio': r['ratio'], 'grad': r['grad']}
            elif final[0] == 'eval_grad2':
                r = cf.op_evaluate(G, final[1], final[2])
                fin = {'llh': r['llh'], 'grads': r['grads'], 'grad2': cf.op_grad2(G, final[1]),
                       'grad2_multi': grad2_multi(G, final[1])}
            elif final[0] == 'grad2raw':
                fin = {'grad2': cf.op_grad2(G, final[1])}
            elif final[0] == 'grad2multi_raw':
                fin = {'grad2_multi': grad2_multi(G, final[1])}
            elif final[0] == 'maximize':
                fin = cf.op_maximize(G)
            else:
                raise ValueError(final)
        except Exception as e:  # noqa
            fin = 'EXC:%s: %s' % (type(e).__name__, str(e)[:120])
    return res, fin


def last_state(case):
    d, s = case['d0'], case['s0']
    for op in case['ops']:
        if op[0] in ('I', 'M'):
            d = op[1]
        elif op[0] == 'S':
            s = op[1]
    return d, s


def _same(a, b):
    """bitwise equality of nested results (nan == nan)"""
    if isinstance(a, dict) and isinstance(b, dict):
        return a.keys() == b.keys() and all(_same(a[k], b[k]) for k in a)
    if isinstance(a, (list, tuple)) and isinstance(b, (list, tuple)):
        return len(a) == len(b) and all(_same(x, y) for x, y in zip(a, b))
    if isinstance(a, float) and isinstance(b, float):
        return f2b(a) == f2b(b) or (a != a and b != b)
    if isinstance(a, str) and isinstance(b, str) and a.startswith('EXC:') and b.startswith('EXC:'):
        return True         # both raised; the exception class / message is incidental
    return a == b


def _short(x):
    s = repr(x)
    return s if len(s) < 300 else s[:300] + '…'


# --------------------------------------------------------------------------------------------------
# property oracles (implementation only)

_NOT_GIVEN = object()


def o_fresh_vs_used(ctx, case, used=_NOT_GIVEN):
    """the final query on the used objects == the same query on a freshly built object graph
    (`used`: the result of the final query if the caller has driven the history already)"""
    spec = case['spec']
    if used is _NOT_GIVEN or used is None:
        (_, used) = run_history(spec, case['d0'], case['s0'], case['ops'], case['final'])
    (d, s) = last_state(case)
    ref_ops = []
    if case['final'][0] in ('grad2raw', 'grad2multi_raw'):
        # the second derivative alone is *defined* relative to the last evaluation of the current trial
        for op in case['ops']:
            if op[0] in ('I', 'S', 'R', 'M'):
                ref_ops = []
            elif op[0] == 'E':
                ref_ops = [op]
    (_, fresh) = run_history(spec, d, s, ref_ops, case['final'])
    if not _same(used, fresh):
        return ('%s after the history %s (first trial: data set %d, source set %d) gives %s, but %s on freshly built '
                'objects holding the same trial data (data set %d, source set %d)%s; configuration %s' % (
                    case['final'], case['ops'], case['d0'], case['s0'], _short(used), _short(fresh), d, s,
                    ' after %s' % ref_ops if ref_ops else '', spec))
    return None


def o_repeat_final(ctx, case):
    """every query is read-only: asking the final query twice in a row on the used objects gives the same answer twice
    (evaluate, evaluate + second derivatives, second derivative alone — single and composite —, maximize + TS)"""
    cf = _cf()
    spec = case['spec']
    try:
        G = cf.build(spec, case['d0'], case['s0'])
    except Exception as e:  # noqa
        raise MachineryError('C06 fixture: cannot build the object graph %r: %s: %s' % (spec, type(e).__name__, e))
    for op in case['ops']:
        try:
            apply_op(G, op)
        except Exception:  # noqa
            pass
    final = case['final']

    def ask():
        try:
            if final[0] == 'eval':
                r = cf.op_evaluate(G, final[1], final[2])
                return {k: r[k] for k in ('llh', 'grads', 'ratio', 'grad')}
            if final[0] == 'eval_grad2':
                r = cf.op_evaluate(G, final[1], final[2])
                g1, h1 = cf.op_grad2(G, final[1]), grad2_multi(G, final[1])
                return {'llh': r['llh'], 'grads': r['grads'], 'grad2': [g1, cf.op_grad2(G, final[1])],
                        'grad2_multi': [h1, grad2_multi(G, final[1])]}
            if final[0] == 'grad2raw':
                return {'grad2': cf.op_grad2(G, final[1])}
            if final[0] == 'grad2multi_raw':
                return {'grad2_multi': grad2_multi(G, final[1])}
            return cf.op_maximize(G)
        except Exception as e:  # noqa
            return 'EXC:%s: %s' % (type(e).__name__, str(e)[:120])
    a = ask()
    if isinstance(a, dict) and final[0] == 'eval_grad2':
        for k in ('grad2', 'grad2_multi'):
            if not _same(a[k][0], a[k][1]):
                return ('after evaluate(%r, %r) the %s second derivative computed twice in a row is %r and then %r; history %s, '
                        'configuration %s' % (final[1], final[2], 'composite' if k == 'grad2_multi' else "first dataset's",
                                              a[k][0], a[k][1], case['ops'], spec))
    b = ask()
    if not _same(a, b):
        return ('%s asked twice in a row after the history %s (first trial: data set %d, source set %d) gives %s and then %s; '
                'configuration %s' % (final, case['ops'], case['d0'], case['s0'], _short(a), _short(b), spec))
    return None


def o_trace_fresh(ctx, case):
    """every evaluate *inside* the history (not only the final query) == the same evaluate on a freshly built object graph
    holding the trial data / source of that moment; "raises on the used objects only" is a failure.  (For the grid graph
    this is what the model trace checks — theorem c06_trace; the I3 graph has no model.)"""
    spec = case['spec']
    (res, _) = run_history(spec, case['d0'], case['s0'], case['ops'])
    d, s = case['d0'], case['s0']
    for i, (op, r) in enumerate(zip(case['ops'], res)):
        if op[0] in ('I', 'M'):
            d = op[1]
        elif op[0] == 'S':
            s = op[1]
        elif op[0] == 'E':
            (_, fresh) = run_history(spec, d, s, [], ['eval', op[1], op[2]])
            used = {k: r[k] for k in ('llh', 'grads', 'ratio', 'grad')} if isinstance(r, dict) else r
            if not _same(used, fresh):
                return ('operation %d %s of the history %s (first trial: data set %d, source set %d) gives %s, but %s on freshly '
                        'built objects holding the same trial data (data set %d, source set %d); configuration %s' % (
                            i, op, case['ops'], case['d0'], case['s0'], _short(used), _short(fresh), d, s, spec))
    return None


_FORM_KEYS = ('fp_form', 'scribble', 'reuse_fp')


def o_arg_forms(ctx, case):
    """the glue around the core is invisible: the same history gives bit-identical answers whether the caller hands in a
    fresh contiguous fit-parameter array, one re-used instance, a strided view, a read-only array or an explicit
    src_params_recarray, and whether or not the caller overwrites the gradient array it was handed out"""
    plain = dict(case['spec'])
    for k in _FORM_KEYS:
        plain.pop(k, None)
    (ra, fa) = run_history(case['spec'], case['d0'], case['s0'], case['ops'], case['final'])
    (rb, fb) = run_history(plain, case['d0'], case['s0'], case['ops'], case['final'])
    strip = lambda r: {k: v for k, v in r.items() if k in ('llh', 'grads', 'ratio', 'grad')} if isinstance(r, dict) else r  # noqa
    forms = {k: case['spec'].get(k) for k in _FORM_KEYS}
    for i, (a, b) in enumerate(zip(ra, rb)):
        if not _same(strip(a), strip(b)):
            return ('operation %d (%s) of the history %s gives %s with the caller-side forms %s but %s with plain new arrays; '
                    'configuration %s' % (i, case['ops'][i], case['ops'], _short(strip(a)), forms, _short(strip(b)), plain))
    if not _same(fa, fb):
        return ('%s after the history %s gives %s with the caller-side forms %s but %s with plain new arrays; configuration %s'
                % (case['final'], case['ops'], _short(fa), forms, _short(fb), plain))
    return None


def o_cache_onoff(ctx, case):
    """PDF value caching switched on/off is invisible (every operation of the history and the final query)"""
    spec_on = dict(case['spec'], cache=True, cache_bkg=True)
    spec_off = dict(case['spec'], cache=False, cache_bkg=False)
    (ron, fon) = run_history(spec_on, case['d0'], case['s0'], case['ops'], case['final'])
    (roff, foff) = run_history(spec_off, case['d0'], case['s0'], case['ops'], case['final'])
    strip = lambda r: {k: v for k, v in r.items() if k in ('llh', 'grads', 'ratio', 'grad')} if isinstance(r, dict) else r  # noqa
    for i, (a, b) in enumerate(zip(ron, roff)):
        if not _same(strip(a), strip(b)):
            return ('operation %d (%s) of the history %s gives %s with cache_pd_values=True but %s with '
                    'cache_pd_values=False; configuration %s' % (i, case['ops'][i] if i < len(case['ops']) else 'build',
                                                                  case['ops'], _short(strip(a)), _short(strip(b)), case['spec']))
    if len(ron) != len(roff) or not _same(fon, foff):
        return ('%s after the history %s gives %s with cache_pd_values=True but %s with cache_pd_values=False; '
                'configuration %s' % (case['final'], case['ops'], _short(fon), _short(foff), case['spec']))
    return None


def _drive(G, ops):
    for op in ops:
        apply_op(G, op)


def _diff_keys(a, b):
    return sorted(k for k in set(a) | set(b) if a.get(k) != b.get(k))


def _pd_changed(before, after):
    """a pd cache entry that was valid (computed, current state id) before an evaluate must be byte-identical after it: the
    cached value of a grid PDF for a trial is a constant — the implementation-side form of the Lean invariant `pd_ok`
    (whoever is handed the cache array must not write into it)"""
    for g, a in before.items():
        b = after.get(g)
        if b is None or b.shape != a.shape:
            continue
        m = ~np.isnan(a)
        if a[m].tobytes() != b[m].tobytes():
            return g
    return None


def o_cache_snapshot(ctx, case, collect=None):
    """byte snapshots around evaluations:
      (1) inputs (spline / grid tables, the tables of parameter-free factors) are never written;
      (2) an evaluate within a trial does not alter the array a parameter-free leaf hands out;
      (3) evaluating the final point a second time returns bit-identical value and gradients and leaves every
          last-evaluation cache byte-identical.
    Diagnostic only (counted, not a verdict — a benign extra or lazily cleared cache entry is legal): (4) the last-evaluation
    caches and pd cache entries equal those of a freshly built object graph after the same evaluate.
    Private attributes are read through cache_fixtures._get: a renamed one drops its key (noted in the evidence).
    `collect` (a list): the per-operation results and the result of the final evaluate are appended, so that the caller can
    use this very run for the model correspondence as well (one object graph instead of two)."""
    if case['final'][0] not in ('eval', 'eval_grad2'):
        return None
    cf = _cf()
    spec = case['spec']
    (ns, xs) = case['final'][1], case['final'][2]
    try:
        G = cf.build(spec, case['d0'], case['s0'])
    except Exception as e:  # noqa
        raise MachineryError('C06 fixture: cannot build the object graph %r: %s: %s' % (spec, type(e).__name__, e))
    const0 = cf.const_snapshot(G)
    for i, op in enumerate(case['ops']):
        stored = None if G.stub is None or op[0] != 'E' else cf._b(G.stub._stored)
        svc = cf.service_snapshot(G) if op[0] in ('G', 'H') else None
        pd0 = cf.pd_cache_snapshot(G) if op[0] == 'E' else None
        try:
            r_op = apply_op(G, op)
            if collect is not None:
                collect.append(r_op)
        except Exception as e:  # noqa  (a raising operation is part of the history)
            if collect is not None:
                collect.append('EXC:%s: %s' % (type(e).__name__, str(e)[:120]))
            continue
        if pd0:
            g = _pd_changed(pd0, cf.pd_cache_snapshot(G))
            if g is not None:
                return ('operation %d %s of the history %s changed the cached PDF values of grid point %r, which had been computed '
                        'earlier in the same trial (a consumer wrote into the cache array it was handed); configuration %s'
                        % (i, op, case['ops'], g, spec))
        if svc is not None and svc != cf.service_snapshot(G):
            return ('operation %d %s of the history %s changed what the weight services hand out %s (a read-only query wrote '
                    'into an array it was handed); configuration %s' % (i, op, case['ops'],
                                                                       _diff_keys(svc, cf.service_snapshot(G)), spec))
        if stored is not None and stored != cf._b(G.stub._stored):
            return ('operation %d %s of the history %s changed the array the parameter-free PDF ratio hands out '
                    '(a consumer wrote into its input); configuration %s' % (i, op, case['ops'], spec))
    pd0 = cf.pd_cache_snapshot(G)
    try:
        r1 = cf.op_evaluate(G, ns, xs)
        if collect is not None:
            collect.append(r1)
    except Exception as e:  # noqa  (raised-ness of the final query is judged by fresh_vs_used)
        if collect is not None:
            collect.append('EXC:%s: %s' % (type(e).__name__, str(e)[:120]))
        return None
    snap1 = cf.cache_snapshot(G)
    pd1 = cf.pd_cache_snapshot(G)
    where = 'after the history %s (first trial: data set %d, source set %d); configuration %s' % (
        case['ops'], case['d0'], case['s0'], spec)
    g = _pd_changed(pd0, pd1)
    if g is not None:
        return ('evaluate(%r, %r) changed the cached PDF values of grid point %r, which had been computed earlier in the same '
                'trial (a consumer wrote into the cache array it was handed) %s' % (ns, xs, g, where))
    try:
        r2 = cf.op_evaluate(G, ns, xs)
    except Exception as e:  # noqa
        return 'evaluate(%r, %r) succeeds, the same call again raises %s: %s %s' % (ns, xs, type(e).__name__, e, where)
    snap2 = cf.cache_snapshot(G)
    const1 = cf.const_snapshot(G)
    if const0 != const1:
        return 'input tables %s were written to %s' % (_diff_keys(const0, const1)[:4], where)
    strip = lambda r: {k: r[k] for k in ('llh', 'grads', 'ratio', 'grad')}  # noqa
    if not _same(strip(r1), strip(r2)):
        return ('evaluate(%r, %r) twice in a row gives %s and then %s %s' % (ns, xs, _short(strip(r1)), _short(strip(r2)), where))
    if snap1 != snap2:
        return ('evaluating (%r, %r) a second time changed the cache(s) %s %s' % (ns, xs, _diff_keys(snap1, snap2), where))
    # ---- (4) diagnostic (thorough tier only: it costs one more object graph)
    if not ctx.thorough:
        return None
    (d, s) = last_state(case)
    try:
        F = cf.build(spec, d, s)
        cf.op_evaluate(F, ns, xs)
        snapf = cf.cache_snapshot(F)
        differs = snap1 != snapf
        for g, arr in cf.pd_cache_snapshot(F).items():
            if g in pd1:
                m = ~np.isnan(arr)
                differs = differs or pd1[g].shape != arr.shape or pd1[g][m].tobytes() != arr[m].tobytes()
        if differs:
            ctx.count('diag: cache content differs from a fresh graph')
    except Exception:  # noqa
        pass
    return None


# --------------------------------------------------------------------------------------------------
# correspondence with the Lean model

def _request(case, variant):
    """the driver line of a case (world tables from scipy alone, grid keys from the real ParameterGrid)"""
    cf = _cf()
    spec = case['spec']
    K = spec['K']
    G = _grid_only(spec)
    ds = {(case['d0'], case['s0'])}
    d, s = case['d0'], case['s0']
    qs = []
    toks = []
    for op in model_ops(case) + ([['E'] + list(case['final'][1:])] if case['final'] and case['final'][0] == 'eval' else []):
        if op[0] == 'I':
            d = op[1]
            toks.append('I%d' % d)
        elif op[0] == 'S':
            s = op[1]
            toks.append('S%d' % s)
        elif op[0] == 'E':
            xs = [float(x) for x in op[2]]
            key = _keys(G, spec, xs)
            qs.append((xs, key))
            toks.append('E%s|%s|%s' % (f2b(op[1]), flist(xs), flist(key)))
        elif op[0] == 'G':
            toks.append('G')
        ds.add((d, s))
    up, lo, need = {}, {}, set()
    for xs, key in qs:
        x = np.array(xs)
        if spec['interp'] == 'linear':
            x1 = G.round_to_upper_grid_point(x)
            for k_, u in zip(key, x1):
                up.setdefault(k_, set()).add(float(u))
                need |= {k_, float(u)}
        else:
            k1 = np.array(key)
            x0 = G.round_to_nearest_grid_point(k1 - G.delta)
            x2 = G.round_to_nearest_grid_point(k1 + G.delta)
            for k_, a, b in zip(key, x0, x2):
                lo.setdefault(k_, set()).add(float(a))
                up.setdefault(k_, set()).add(float(b))
                need |= {k_, float(a), float(b)}
    if any(len(v) != 1 for v in list(up.values()) + list(lo.values())):
        raise MachineryError('C06: grid neighbours are not a function of the grid key (a ParameterGrid matter, property '
                             'C15): %r %r' % (up, lo))
    gridpts = set(float(g) for g in cf.grid_values(spec))
    if any(g == 0.0 or g != g for g in gridpts):
        raise MachineryError('C06: the grid contains 0.0 or NaN; the model identifies keys by bit pattern')
    man = []
    for (d_, s_) in sorted(ds):
        for k in range(K):
            for g in sorted(need & gridpts):
                man.append('%d:%d:%d:%s:%s' % (d_, s_, k, f2b(g), flist(cf.world_man(spec, d_, s_, k, g))))
    bkg = ['%d:%d:%s' % (d_, s_, flist(cf.world_bkg(spec, d_, s_))) for (d_, s_) in sorted(ds)]
    f = spec['fields']
    cfgbits = ''.join('1' if b else '0' for b in (f == 'all', f == 'all', f in ('static', 'all'), spec['cache'],
                                                  spec['interp'] == 'parabola', spec.get('cache_bkg', spec['cache'])))
    vbits = ''.join('1' if b else '0' for b in variant)
    nb = lambda t: ';'.join('%s:%s' % (f2b(k), f2b(next(iter(v)))) for k, v in sorted(t.items())) or '-'  # noqa
    sel = []
    if spec.get('evsel'):
        for d_ in sorted({d__ for (d__, _) in ds}):
            for s_ in sorted({s__ for (_, s__) in ds}):
                for k in range(K):
                    sel.append('%d:%d:%d:%s' % (d_, s_, k, ilist(cf.sel_positions(spec, d_, k))))
    return 'hist %s %s %s %s %s %s %s %s %s %d %d %s' % (vbits, cfgbits, ';'.join(man) or '-', ';'.join(bkg), nb(up), nb(lo),
                                                         f2b(G.delta), flist(sorted(gridpts)), ';'.join(sel) or '-',
                                                         case['d0'], case['s0'], ';'.join(toks) or '-')


_GRIDS = {}


def _grid_only(spec):
    from skyllh.core.parameters import ParameterGrid
    cf = _cf()
    k = spec['scale']
    if k not in _GRIDS:
        _GRIDS[k] = ParameterGrid('gamma', cf.grid_values(spec), delta=cf.DELTA, decimals=1)
    return _GRIDS[k]


def _keys(G, spec, xs):
    x = np.array(xs, dtype=np.float64)
    key = G.round_to_lower_grid_point(x) if spec['interp'] == 'linear' else G.round_to_nearest_grid_point(x)
    return [float(v) for v in key]


def _close(a, b):
    return abs(a - b) <= 1e-9 * (abs(a) + abs(b)) + 1e-300 or (a != a and b != b)


def _blocks(s):
    return [] if s == '~' else [parse_flist(b) for b in s.split('/')]      # '~': no block at all; '-': an empty block


BRANCHES = [
    'pdGet: caching off', 'pdGet: cache valid, block hit', 'pdGet: cache valid, block not yet computed',
    'pdGet: cache of another state id / empty',
    'interpCall: empty cache', 'interpCall: hit', 'interpCall: miss, other state id', 'interpCall: miss, other grid key',
    'interpMiss: linear', 'interpMiss: parabola', 'evalE: values', 'evalE: point outside the grid',
    'ratioOf/gradOf: background > 0', 'ratioOf/gradOf: background = 0',
    'step: initTrial', 'step: changeSource', 'step: grad2 answers', 'step: grad2 refused',
    'hitOf: parabola (exact)', 'hitOf: linear exact', 'hitOf: linear isclose (unrepaired code only)',
    'fieldStep: initNew', 'fieldStep: initSame', 'fieldStep: changeSource',
    'fieldCalc: values reused', 'fieldCalc: field not in the events array', 'fieldCalc: remembered parameter value differs',
    'tstep: tdmInit', 'tstep: llhInit', 'tstep: changeShg', 'tstep: evaluate without event data', 'tstep: evaluate values',
    'tstep: evaluate raises', 'tstep: grad2 number', 'tstep: grad2 refused',
    'cstep: cevaluate values', 'cstep: cevaluate raises', 'cstep: cgrad2 number', 'cstep: cgrad2 refused',
]


def _branches_hist(case, ops, model, br):
    """which branches of Model/Cache.lean a compared history went through (from the model's own answers)"""
    sp = case['spec']
    K = sp['K']
    U = K * (3 if sp['interp'] == 'parabola' else 2)
    cf = _cf()
    seen_eval, new_trial = False, True
    d, s_ = case['d0'], case['s0']
    for op, m in zip(ops, model):
        if op[0] == 'I':
            br['step: initTrial'] += 1
            new_trial, d = True, op[1]
        elif op[0] == 'S':
            br['step: changeSource'] += 1
            new_trial, s_ = True, op[1]
        elif op[0] == 'G':
            br['step: grad2 refused' if m == 'ERR' else 'step: grad2 answers'] += 1
        elif op[0] == 'E':
            m = m.partition('|')[0]
            if m == 'XERR':
                br['evalE: point outside the grid'] += 1
                continue
            br['evalE: values'] += 1
            parts = m.split(':')
            hit, miss, bmiss = parts[3] == '1', int(parts[4]), parts[5] == '1'
            br['hitOf: parabola (exact)' if sp['interp'] == 'parabola' else
               ('hitOf: linear exact' if extract_variant()[1] else 'hitOf: linear isclose (unrepaired code only)')] += 1
            if hit:
                br['interpCall: hit'] += 1
            else:
                br['interpCall: empty cache' if not seen_eval else
                   ('interpCall: miss, other state id' if new_trial else 'interpCall: miss, other grid key')] += 1
                br['interpMiss: ' + sp['interp']] += 1
                if not sp['cache']:
                    br['pdGet: caching off'] += U
                else:
                    if miss < U:
                        br['pdGet: cache valid, block hit'] += U - miss
                    if miss:
                        br['pdGet: cache of another state id / empty' if new_trial else
                           'pdGet: cache valid, block not yet computed'] += miss
            if not sp.get('cache_bkg', sp['cache']):
                br['pdGet: caching off'] += 1
            else:
                br['pdGet: cache valid, block hit' if not bmiss else 'pdGet: cache of another state id / empty'] += 1
            b = cf.world_bkg(sp, d, s_)
            br['ratioOf/gradOf: background > 0'] += int((b > 0).sum()) * K
            br['ratioOf/gradOf: background = 0'] += int((b <= 0).sum()) * K
            seen_eval, new_trial = True, False


def _compare(ctx, case, impl, model_line, stats=None):
    """property-level relation between the implementation's per-op results and the model's answer line.
    Verdict: raised <-> model error; PDF-ratio values and gradients (1e-9 relative); number of spline evaluations never
    above the uncached number; provenance and value of second derivatives.  Diagnostics only (counted in `stats`):
    bit-exactness, exact interpolation-hit / spline-evaluation / background-miss counts (a smarter cache is legal)."""
    if model_line in ('bad-op', 'bad-ops'):
        raise MachineryError('C06 driver rejected the request: ' + model_line)
    model = model_line.split(';')
    ops = model_ops(case) + ([['E'] + list(case['final'][1:])] if case['final'] and case['final'][0] == 'eval' else [])
    K = case['spec']['K']
    if stats is not None:
        _branches_hist(case, ops, model, stats['branches'])
    for i, (op, m) in enumerate(zip(ops, model)):
        if i >= len(impl):
            break
        r = impl[i]
        raised = isinstance(r, str) and r.startswith('EXC:')
        if op[0] in ('I', 'S'):
            if raised or m != 'U':
                return 'operation %d %s: implementation %s, model answers %s' % (i, op, _short(r), m)
        elif op[0] == 'E':
            (m, _, pure) = m.partition('|')
            if (m == 'XERR') != raised:
                return ('operation %d %s: implementation %s, model %s' % (
                    i, op, 'raised ' + r if raised else 'returned values', 'expects an error (point outside the grid)'
                    if m == 'XERR' else 'returns values'))
            if stats is not None and raised:
                stats['failing_evaluates'] = stats.get('failing_evaluates', 0) + 1
            if raised:
                continue
            parts = m.split(':')
            pp = pure.split(':')
            if len(pp) == 3 and (pp[1], pp[2]) != (parts[1], parts[2]):
                # the cached model left its specification (theorem c06_trace): only possible when a probed fact is false
                if stats is not None:
                    stats['model_cached_ne_pure'] = stats.get('model_cached_ne_pure', 0) + 1
                if all(extract_variant()):
                    return 'operation %d %s: cached model %s differs from the stateless model %s' % (i, op, m[:80], pure[:80])
            if parts[0] != 'O':
                return 'operation %d %s: model answers %s' % (i, op, m[:80])
            mr, mg = _blocks(parts[1]), _blocks(parts[2])
            for name, a, b in (('ratio', r['ratio'], mr), ('gradient', r['grad'], mg)):
                if len(a) != len(b) or any(len(x) != len(y) for x, y in zip(a, b)):
                    return 'operation %d %s: %s shapes differ: implementation %s, model %s' % (i, op, name, _short(a), _short(b))
                for k, (x, y) in enumerate(zip(a, b)):
                    for j, (u, v) in enumerate(zip(x, y)):
                        if stats is not None:
                            stats['floats'] += 1
                            stats['bit_exact'] += f2b(u) == f2b(v)
                        if not _close(u, v):
                            return ('operation %d %s: PDF-ratio %s of source %d, event %d: implementation %r, '
                                    'model %r' % (i, op, name, k, j, u, v))
            if not r['other_zero']:
                return 'operation %d %s: gradient w.r.t. the parameter of one source is non-zero for events of another' % (i, op)
            uncached = K * (3 if case['spec']['interp'] == 'parabola' else 2)
            if r['pd_miss'] is not None and r['pd_miss'] > uncached:
                return ('operation %d %s: %d spline evaluations, more than the %d of an uncached evaluation' % (
                    i, op, r['pd_miss'], uncached))
            if stats is not None and (r['interp_hit'], r['pd_miss'], r['bkg_miss']) != (parts[3] == '1', int(parts[4]), parts[5] == '1'):
                stats['diag_hit_miss_differs'] = stats.get('diag_hit_miss_differs', 0) + 1
        elif op[0] == 'G':
            if raised:
                return 'operation %d %s: implementation raised %s, model answers %s' % (i, op, r, m[:80])
            if m == 'ERR' or r == 'ERR':
                if m != r:
                    return 'operation %d %s: implementation %s, model %s' % (i, op, _short(r), m)
                continue
            # model token: "second derivative of the evaluation (data set, source set, ns, x)" — recompute it on fresh objects
            md, ms, mns, mx = m[1:].split(':')
            cf = _cf()
            Gf = cf.build(case['spec'], int(md), int(ms))
            cf.op_evaluate(Gf, parse_flist(mns)[0], parse_flist(mx))
            want = grad2_multi(Gf, op[1]) if len(op) > 2 else cf.op_grad2(Gf, op[1])
            if not (isinstance(r, float) and isinstance(want, float) and f2b(r) == f2b(want)):
                return ('operation %d %s: second derivative %r, but the evaluation the model says it stems from '
                        '(data set %s, source set %s, ns=%r, x=%r) gives %r' % (i, op, r, md, ms, parse_flist(mns)[0],
                                                                                 parse_flist(mx), want))
    return None


# ---- upper layers (Model/CacheTop.lean): the real call sequences, log-lambda, ns-gradient, second-derivative number

_SIZE = {0: 6, 1: 6, 2: 9, 3: 1, 4: 0}


def top_ops(case, rng=None):
    """the history as the sequence of *real calls* (T d = tdm.initialize_trial, L = initialize_for_new_trial cascade,
    C s = change_shg_mgr, E, G).  With `rng` and a trial data manager without data fields one cascade call may be dropped
    or moved in front of its initialize_trial (equal-size data only): the documented order is then violated on purpose and
    the model has to predict the resulting *stale* numbers."""
    d = case['d0']
    lops = []
    for op in list(case['ops']) + ([['E'] + list(case['final'][1:])] if case['final'][0] in ('eval', 'eval_grad2') else []) \
            + ([['G', case['final'][1]]] if case['final'][0] in ('eval_grad2', 'grad2raw') else []):
        if op[0] in ('I', 'M', 'R'):
            nd = op[1] if op[0] != 'R' else d
            lops += [['T', nd, _SIZE[nd] == _SIZE[d]], ['L']]
            d = nd
        elif op[0] == 'S':
            lops += [['C', op[1]], ['T', d, True], ['L']]
        elif op[0] == 'E':
            lops.append(['E', op[1], op[2]])
        elif op[0] == 'G':
            lops.append(['G', op[1]])
    broke = False
    if rng is not None and case['spec']['fields'] == 'none':
        idx = [i for i, o in enumerate(lops) if o[0] == 'T' and o[2] and i + 1 < len(lops) and lops[i + 1][0] == 'L'
               and any(x[0] == 'E' for x in lops[i + 2:])]
        if idx and rng.random() < 0.5:
            i = rng.choice(idx)
            if rng.random() < 0.5:
                del lops[i + 1]                       # cascade forgotten
            else:
                lops[i], lops[i + 1] = lops[i + 1], lops[i]     # cascade before the new trial data
            broke = True
    return [o[:2] if o[0] == 'T' else o for o in lops], broke


def run_top(spec, d0, s0, lops, cascade=True):
    cf = _cf()
    try:
        G = cf.build(spec, d0, s0, cascade=cascade)
    except Exception as e:  # noqa
        raise MachineryError('C06 fixture: cannot build the object graph %r: %s: %s' % (spec, type(e).__name__, e))
    ns_idx = G.pmm.get_gflp_idx('ns')
    res = []
    for op in lops:
        try:
            if op[0] == 'T':
                cf.op_tdm_init(G, op[1])
                res.append('U')
            elif op[0] == 'L':
                cf.op_llh_init(G)
                res.append('U')
            elif op[0] == 'C':
                cf.op_change_shg(G, op[1])
                res.append('U')
            elif op[0] == 'E':
                r = cf.op_evaluate(G, op[1], op[2])
                res.append({'llh': r['llh'], 'gradNs': r['grads'][ns_idx], 'ratio': r['ratio'], 'grad': r['grad']})
            elif op[0] == 'G':
                res.append(cf.op_grad2(G, op[1]))
        except Exception as e:  # noqa
            res.append('EXC:%s: %s' % (type(e).__name__, str(e)[:120]))
    return res


def _top_request(case, lops, variant, cascade=True):
    """driver line of the upper-layer model: world tokens of `_request` + event counts, a_k table, one_plus_alpha"""
    cf = _cf()
    spec = case['spec']
    # a synthetic fused case that mentions every data set / source set / point of the call sequence
    ops, d, s = [], case['d0'], case['s0']
    for op in lops:
        if op[0] == 'T':
            ops.append(['I', op[1]])
        elif op[0] == 'C':
            ops.append(['S', op[1]])
        elif op[0] == 'E':
            ops.append(['E', op[1], op[2]])
    w = _request(dict(case, ops=ops, final=['maximize']), variant).split(' ')
    ss = sorted({case['s0']} | {op[1] for op in lops if op[0] == 'C'})
    ak = ['%d:%s:%s' % (s_, flist(op[2]), flist(cf.ak_of(spec, s_, op[2]))) for s_ in ss for op in lops if op[0] == 'E']
    toks = []
    for op in lops:
        if op[0] == 'T':
            toks.append('T%d' % op[1])
        elif op[0] == 'L':
            toks.append('L')
        elif op[0] == 'C':
            toks.append('C%d' % op[1])
        elif op[0] == 'E':
            toks.append('E%s|%s|%s' % (f2b(op[1]), flist(op[2]), flist(_keys(_grid_only(spec), spec, op[2]))))
        elif op[0] == 'G':
            toks.append('G' + f2b(op[1]))
    nev = ';'.join('%d:%d' % (d_, n) for d_, n in sorted(cf.N_OF.items()))
    return 'top %s %s %s %s %d %s %s' % (' '.join(w[1:10]), nev, ';'.join(sorted(set(ak))) or '-', f2b(cf.one_plus_alpha()),
                                         1 if cascade else 0, ' '.join(w[10:12]), ';'.join(toks) or '-')


def _closeS(a, b, scale=0.0):
    return abs(a - b) <= 1e-9 * (abs(a) + abs(b) + scale) + 1e-300 or (a != a and b != b)


def _top_compare(case, lops, impl, model_line, stats=None):
    if model_line in ('bad-op', 'bad-ops'):
        raise MachineryError('C06 driver rejected the top request: ' + model_line)
    for i, (op, r, m) in enumerate(zip(lops, impl, model_line.split(';'))):
        raised = isinstance(r, str) and r.startswith('EXC:')
        if op[0] in ('T', 'L', 'C'):
            if raised or m != 'U':
                return 'call %d %s: implementation %s, model %s' % (i, op, _short(r), m)
        elif op[0] == 'E':
            if (m == 'XERR') != raised:
                return 'call %d %s: implementation %s, model %s' % (i, op, _short(r)[:120], m[:60])
            if raised:
                continue
            (_, llh, gns, rb, gb) = m.split(':')
            mr, mg = _blocks(rb), _blocks(gb)
            for name, a, b in (('ratio', r['ratio'], mr), ('gradient', r['grad'], mg)):
                if [len(x) for x in a] != [len(y) for y in b]:
                    return 'call %d %s: %s shapes differ: implementation %s, model %s' % (i, op, name, _short(a), _short(b))
                for k, (x, y) in enumerate(zip(a, b)):
                    for j, (u, v_) in enumerate(zip(x, y)):
                        if not _close(u, v_):
                            return 'call %d %s: PDF-ratio %s of source %d, event %d: implementation %r, model %r' % (i, op, name, k, j, u, v_)
            n_ev = sum(len(x) for x in r['ratio'][:1]) or 1
            for name, u, v_ in (('log-lambda', r['llh'], parse_flist(llh)[0]), ('d log-lambda / d ns', r['gradNs'], parse_flist(gns)[0])):
                if stats is not None:
                    stats['top_numbers'] = stats.get('top_numbers', 0) + 1
                if not _closeS(u, v_, scale=1e-3 * n_ev):
                    return 'call %d %s: %s: implementation %r, model %r' % (i, op, name, u, v_)
        elif op[0] == 'G':
            if raised:
                return 'call %d %s: implementation raised %s, model %s' % (i, op, r, m)
            if (m == 'REF') != (r == 'ERR'):
                return 'call %d %s: second derivative: implementation %s, model %s' % (i, op, _short(r), m)
            if m != 'REF':
                if stats is not None:
                    stats['top_numbers'] = stats.get('top_numbers', 0) + 1
                if not _closeS(r, parse_flist(m.split(':')[1])[0]):
                    return 'call %d %s: second derivative: implementation %r, model %r' % (i, op, r, parse_flist(m.split(':')[1])[0])
    return None


# ---- composite likelihood of two datasets (CacheTop.Comp)

def comp_ops(case, rng=None):
    """the call sequence of top_ops with every evaluate being the composite one (M), plus the composite second derivative (H)"""
    (lops, broke) = top_ops(dict(case, ops=[o for o in case['ops'] if o[0] != 'H']), rng)
    out, hs = [], [o for o in case['ops'] if o[0] == 'H']
    for o in lops:
        out.append(['M'] + o[1:] if o[0] == 'E' else o)
        if o[0] == 'E' and (hs or case['final'][0] in ('eval_grad2', 'grad2multi_raw')):
            out.append(['H', (hs.pop(0) if hs else case['final'])[1]])
    if case['final'][0] == 'grad2multi_raw':
        out.append(['H', case['final'][1]])
    return out, broke


def run_comp(spec, d0, s0, lops, cascade=True):
    cf = _cf()
    try:
        G = cf.build(spec, d0, s0, cascade=cascade)
    except Exception as e:  # noqa
        raise MachineryError('C06 fixture: cannot build the object graph %r: %s: %s' % (spec, type(e).__name__, e))
    ns_idx = G.pmm.get_gflp_idx('ns')
    res = []
    for op in lops:
        try:
            if op[0] == 'T':
                cf.op_tdm_init(G, op[1])
                res.append('U')
            elif op[0] == 'L':
                cf.op_llh_init(G)
                res.append('U')
            elif op[0] == 'C':
                cf.op_change_shg(G, op[1])
                res.append('U')
            elif op[0] == 'M':
                r = cf.op_evaluate(G, op[1], op[2])
                res.append({'llh': r['llh'], 'gradNs': r['grads'][ns_idx]})
            elif op[0] == 'G':
                res.append(cf.op_grad2(G, op[1]))
            elif op[0] == 'H':
                res.append(grad2_multi(G, op[1]))
        except Exception as e:  # noqa
            res.append('EXC:%s: %s' % (type(e).__name__, str(e)[:120]))
    return res


def _comp_request(case, lops, variant, cascade=True):
    cf = _cf()
    spec = case['spec']
    t = _top_request(case, [['E'] + o[1:] if o[0] == 'M' else o for o in lops if o[0] != 'H'], variant, cascade).split(' ')
    # top tokens: 0 'top', 1..9 world (v c man bkg up lo dx grid sel), 10 nev, 11 ak, 12 opa, 13 casc0, 14 d0, 15 s0, 16 ops
    ss = sorted({case['s0']} | {op[1] for op in lops if op[0] == 'C'})
    dd = sorted({case['d0']} | {op[1] for op in lops if op[0] == 'T'})
    evs = [op for op in lops if op[0] == 'M']
    fj = sorted({'%d:%s:%s' % (s_, flist(op[2]), flist(cf.fj_of(spec, s_, op[2]))) for s_ in ss for op in evs})
    oth = sorted({'%d:%d:%s:%s' % (d_, s_, flist(op[2]), flist(cf.other_ri(spec, d_, s_, op[2]))) for d_ in dd for s_ in ss for op in evs})
    cnt = ';'.join('%d:%d:%d' % (d_, cf.N2[d_], cf.E2[d_]) for d_ in sorted(cf.N2))
    toks = []
    for op in lops:
        if op[0] == 'T':
            toks.append('T%d' % op[1])
        elif op[0] == 'L':
            toks.append('L')
        elif op[0] == 'C':
            toks.append('C%d' % op[1])
        elif op[0] == 'M':
            toks.append('M%s|%s|%s' % (f2b(op[1]), flist(op[2]), flist(_keys(_grid_only(spec), spec, op[2]))))
        elif op[0] == 'G':
            toks.append('G' + f2b(op[1]))
        elif op[0] == 'H':
            toks.append('H' + f2b(op[1]))
    return 'comp %s %s %s %s %s %s' % (' '.join(t[1:13]), ';'.join(fj) or '-', ';'.join(oth) or '-', cnt, ' '.join(t[13:16]),
                                       ';'.join(toks) or '-')


def _comp_compare(case, lops, impl, model_line, stats=None):
    if model_line in ('bad-op', 'bad-ops'):
        raise MachineryError('C06 driver rejected the comp request: ' + model_line)
    for i, (op, r, m) in enumerate(zip(lops, impl, model_line.split(';'))):
        raised = isinstance(r, str) and r.startswith('EXC:')
        if op[0] in ('T', 'L', 'C'):
            if raised or m != 'U':
                return 'call %d %s: implementation %s, model %s' % (i, op, _short(r), m)
        elif op[0] == 'M':
            if (m == 'XERR') != raised:
                return 'call %d %s: implementation %s, model %s' % (i, op, _short(r)[:120], m[:60])
            if raised:
                continue
            (_, llh, gns) = m.split(':')
            for name, u, v_ in (('composite log-lambda', r['llh'], parse_flist(llh)[0]),
                                ('composite d log-lambda / d ns', r['gradNs'], parse_flist(gns)[0])):
                if stats is not None:
                    stats['comp_numbers'] = stats.get('comp_numbers', 0) + 1
                if not _closeS(u, v_, scale=1e-2):
                    return 'call %d %s: %s: implementation %r, model %r' % (i, op, name, u, v_)
        else:
            ref = 'REF' if op[0] == 'G' else 'HREF'
            if raised:
                return 'call %d %s: implementation raised %s, model %s' % (i, op, r, m)
            if (m == ref) != (r == 'ERR'):
                return 'call %d %s: second derivative: implementation %s, model %s' % (i, op, _short(r), m)
            if m != ref:
                if stats is not None:
                    stats['comp_numbers'] = stats.get('comp_numbers', 0) + 1
                if not _closeS(r, parse_flist(m.split(':')[1])[0]):
                    return 'call %d %s: %s second derivative: implementation %r, model %r' % (
                        i, op, 'composite' if op[0] == 'H' else "dataset 0's", r, parse_flist(m.split(':')[1])[0])
    return None


def o_comp_corr(ctx, tcase):
    """replay of a composite correspondence case: {case, lops}"""
    variant = extract_variant()
    impl = run_comp(tcase['case']['spec'], tcase['case']['d0'], tcase['case']['s0'], tcase['lops'])
    model = ctx.driver('C06', [_comp_request(tcase['case'], tcase['lops'], variant)])[0]
    return _comp_compare(tcase['case'], tcase['lops'], impl, model)


def o_top_corr(ctx, tcase):
    """replay of an upper-layer correspondence case: {case, lops}"""
    variant = extract_variant()
    casc = tcase.get('cascade', True)
    impl = run_top(tcase['case']['spec'], tcase['case']['d0'], tcase['case']['s0'], tcase['lops'], cascade=casc)
    model = ctx.driver('C06', [_top_request(tcase['case'], tcase['lops'], variant, cascade=casc)])[0]
    return _top_compare(tcase['case'], tcase['lops'], impl, model)


def o_corr(ctx, case):
    variant = extract_variant()
    (impl, _) = run_history(case['spec'], case['d0'], case['s0'],
                            list(case['ops']) + ([['E'] + list(case['final'][1:])] if case['final'] and case['final'][0] == 'eval' else []))
    model = ctx.driver('C06', [_request(case, variant)])[0]
    return _compare(ctx, case, impl, model)


# ---- data field depending on a global fit parameter (TrialDataManager level) ------------------------
#   fcase = {d0, s0, ops: [['N', d] | ['R'] | ['S', s] | ['C', [gamma, ns]]], final: [gamma, ns]}
#   (the field depends on two global fit parameters; a bare number g stands for [g, 1.0])

def _fk(x):
    return [float(v) for v in x] if isinstance(x, (list, tuple)) else [float(x), 1.0]


def run_field_history(d0, s0, ops):
    cf = _cf()
    T = cf.build_field(d0, s0)
    res = []
    for op in ops:
        if op[0] == 'N':
            cf.field_init_new(T, op[1])
            res.append('U')
        elif op[0] == 'R':
            cf.field_init_same(T)
            res.append('U')
        elif op[0] == 'S':
            cf.field_change_source(T, op[1])
            res.append('U')
        elif op[0] == 'C':
            res.append(cf.field_calc(T, *_fk(op[1])))
    return res


def field_last_state(fcase):
    d, s = fcase['d0'], fcase['s0']
    for op in fcase['ops']:
        if op[0] == 'N':
            d = op[1]
        elif op[0] == 'S':
            s = op[1]
    return d, s


def o_field_fresh_vs_used(ctx, fcase):
    """values of a global-fit-parameter data field after a history == on a fresh TrialDataManager"""
    used = run_field_history(fcase['d0'], fcase['s0'], list(fcase['ops']) + [['C', fcase['final']]])[-1][0]
    (d, s) = field_last_state(fcase)
    fresh = run_field_history(d, s, [['C', fcase['final']]])[-1][0]
    if not _same(used, fresh):
        return ('data field values for gamma=%r after the history %s (first trial: data set %d, source set %d) are %s, '
                'a fresh TrialDataManager holding the same trial data (data set %d, source set %d) gives %s' % (
                    fcase['final'], fcase['ops'], fcase['d0'], fcase['s0'], used, d, s, fresh))
    return None


def _field_request(fcase, reset):
    cf = _cf()
    ops = list(fcase['ops']) + [['C', fcase['final']]]
    ds, d, s, gammas = {(fcase['d0'], fcase['s0'])}, fcase['d0'], fcase['s0'], set()
    toks = []
    for op in ops:
        if op[0] == 'N':
            d = op[1]
            toks.append('N%d' % d)
        elif op[0] == 'R':
            toks.append('R')
        elif op[0] == 'S':
            s = op[1]
            toks.append('S%d' % s)
        else:
            gammas.add(tuple(_fk(op[1])))
            toks.append('C' + flist(_fk(op[1])))
        ds.add((d, s))
    tab = ['%d:%d:%s:%s' % (d_, s_, flist(g), flist(cf.field_value(d_, s_, *g))) for (d_, s_) in sorted(ds) for g in sorted(gammas)]
    return 'field %d %s %d %d %s' % (1 if reset else 0, ';'.join(tab), fcase['d0'], fcase['s0'], ';'.join(toks))


def _field_compare(fcase, impl, model_line):
    ops = list(fcase['ops']) + [['C', fcase['final']]]
    for i, (op, r, m) in enumerate(zip(ops, impl, model_line.split(';'))):
        if op[0] != 'C':
            if m != 'U':
                return 'operation %d %s: model answers %s' % (i, op, m)
            continue
        (re, _, vals) = m.partition(':')
        if [f2b(v) for v in r[0]] != [f2b(v) for v in parse_flist(vals)]:
            return 'operation %d %s: field values: implementation %s, model %s' % (i, op, r[0], parse_flist(vals))
        if r[1] != (re == '1'):
            return 'operation %d %s: field function called: implementation %s, model %s' % (i, op, r[1], re == '1')
    return None


def o_field_corr(ctx, fcase):
    reset = extract_variant(with_fields=True)[4]
    impl = run_field_history(fcase['d0'], fcase['s0'], list(fcase['ops']) + [['C', fcase['final']]])
    return _field_compare(fcase, impl, ctx.driver('C06', [_field_request(fcase, reset)])[0])


def near(rng, x):
    """a value right next to x: the neighbouring double, or 1e-9 / 1e-6 relative away — different from x for an exact cache
    key, 'equal' for any tolerance-based comparison (at MJD-like magnitudes 1e-6 relative is several hours)"""
    return float(rng.choice([np.nextafter(x, np.inf), np.nextafter(x, -np.inf), x * (1.0 + 1e-9), x * (1.0 + 1e-6),
                             x * (1.0 - 1e-6)]))


_FIELD_GAMMAS = [2.0, 2.5, 3.25, 58000.0, 58000.25, 55001.5]      # small and MJD-like values of a fit parameter


def gen_field_case(ctx, maxlen):
    rng = ctx.rng
    ops = []
    for _ in range(rng.randrange(0, maxlen + 1)):
        r = rng.random()
        if r < 0.2:
            ops.append(['N', rng.randrange(3)])
        elif r < 0.35:
            ops.append(['R'])
        elif r < 0.55:
            ops.append(['S', rng.randrange(2)])
        else:
            prev = next((o[1] for o in reversed(ops) if o[0] == 'C'), None)
            if prev is not None and rng.random() < 0.3:
                ops.append(['C', [near(rng, prev[0]), prev[1]] if rng.random() < 0.7 else [prev[0], near(rng, prev[1])]])
            else:
                ops.append(['C', [rng.choice(_FIELD_GAMMAS), rng.choice([1.0, 4.0])]])
    # the final key changes none / one / both of the two parameters of the last computed key — or moves one of them to a
    # value right next to it
    last = next((o[1] for o in reversed(ops) if o[0] == 'C'), [2.0, 1.0])
    final = [rng.choice([last[0], last[0], 2.5, 58000.25, near(rng, last[0]), near(rng, last[0])]),
             rng.choice([last[1], last[1], 4.0, 1.0, near(rng, last[1])])]
    return dict(d0=rng.randrange(3), s0=rng.randrange(2), ops=ops, final=final)


def shrink_field(ctx, fcase):
    cur = copy.deepcopy(fcase)
    changed = True
    while changed and cur['ops']:
        changed = False
        for i in range(len(cur['ops'])):
            cand = copy.deepcopy(cur)
            del cand['ops'][i]
            if o_field_fresh_vs_used(ctx, cand):
                cur, changed = cand, True
                break
    return cur


ORACLES = {'fresh_vs_used': o_fresh_vs_used, 'cache_onoff': o_cache_onoff, 'corr': o_corr,
           'field_fresh_vs_used': o_field_fresh_vs_used, 'field_corr': o_field_corr,
           'cache_snapshot': o_cache_snapshot, 'trace_fresh': o_trace_fresh, 'repeat_final': o_repeat_final,
           'top_corr': o_top_corr, 'arg_forms': o_arg_forms, 'comp_corr': o_comp_corr,
           'i3_slot_fresh_vs_used': lambda ctx, icase: _r7().fresh_vs_used(icase), 'i3_slot_corr': lambda ctx, icase: o_i3_slot_corr(ctx, icase),
           'i3_product_fresh_vs_used': lambda ctx, pcase: _r7().pfresh_vs_used(pcase),
           'i3_product_corr': lambda ctx, pcase: o_i3_product_corr(ctx, pcase)}


def o_i3_product_corr(ctx, pcase):
    r7 = _r7()
    model = ctx.driver('C06', [r7.prequest(pcase, extract_variant(ctx)[0], i3_atol(ctx))])[0]
    return r7.pcompare(pcase, r7.prun_impl(pcase), model)


def _r7():
    from harness import c06_r7_fixtures as r7
    return r7


def o_i3_slot_corr(ctx, icase):
    r7 = _r7()
    bump = extract_variant(ctx)[0]
    model = ctx.driver('C06', [r7.request(icase, bump, i3_atol(ctx))])[0]
    return r7.compare(icase, r7.run_impl(icase), model)


def shrink_i3(icase):
    r7 = _r7()
    cur = icase
    changed = True
    while changed:
        changed = False
        for i in range(len(cur['ops'])):
            cand = dict(cur, ops=cur['ops'][:i] + cur['ops'][i + 1:])
            if cand['ops'] and r7.fresh_vs_used(cand):
                cur, changed = cand, True
                break
    return cur


# --------------------------------------------------------------------------------------------------
# shrinking and classification

def shrink(ctx, name, case):
    """greedy: drop operations while the oracle still fails"""
    fn = ORACLES[name]
    cur = copy.deepcopy(case)
    changed = True
    while changed and cur['ops']:
        changed = False
        for i in range(len(cur['ops'])):
            cand = copy.deepcopy(cur)
            del cand['ops'][i]
            try:
                if fn(ctx, cand):
                    cur = cand
                    changed = True
                    break
            except Exception:  # noqa
                pass
    return cur


def classify(name, case, res):
    kinds = ''.join(op[0] for op in case['ops'])
    if 'EXC:' in res:
        import re
        m = re.search(r'EXC:(\w+)', res)
        mode = 'raises-' + (m.group(1) if m else 'exception')
    elif name == 'trace_fresh':
        mode = 'intermediate-evaluate'
    elif name == 'cache_snapshot':
        mode = ('input-written' if ('input tables' in res or 'hands out' in res or 'cache array it was handed' in res) else
                'repeated-evaluation' if ('twice in a row' in res or 'second time' in res) else 'cache-content')
    elif name == 'arg_forms':
        mode = 'caller-side-form'
    elif name == 'repeat_final':
        mode = 'repeated-query-' + case['final'][0]
    elif case['final'][0] == 'grad2raw':
        mode = 'stale-nsgrad'
    elif case['final'][0] == 'grad2multi_raw':
        mode = 'composite-second-derivative'
    elif any(k in kinds for k in 'ISRM'):
        mode = 'stale-after-new-trial'
    else:
        mode = 'stale-interpolation-cell'
    return 'C06/%s/%s' % (name, mode)


# --------------------------------------------------------------------------------------------------

def all_specs(split_ok):
    specs = [dict(K=3, split=sp, fields=f, cache=c, interp=i, scale='small')
             for sp in ((False, True) if split_ok else (False,)) for f in ('none', 'all') for c in (False, True)
             for i in ('linear', 'parabola') if (c and f == 'all' if not sp else (f == 'all' and c) or (f == 'none' and c and i == 'linear'))]
    for K in (1, 2):
        for split in ((False, True) if (K == 2 and split_ok) else (False,)):
            for fields in (('none', 'all') if (K == 2 and split) else ('none', 'static', 'all')):
                for cache in (False, True):
                    for interp in ('linear', 'parabola'):
                        for scale in (('small',) if (K == 2 and not split) else ('small', 'mjd')):
                            specs.append(dict(K=K, split=split, fields=fields, cache=cache, interp=interp, scale=scale))
    return specs


def probe_cases(spec, i):
    """directed invalidation probes, swept over every configuration (deterministic): evaluate, then a new trial (new events
    array of equal / different size, same array again, same array edited in place), a source change in each identity
    flavour (sources mutated in place / replaced inside the same manager / new manager) with the re-initialised trial on a
    new or on the same events array, another grid cell, per-source values equal -> different -> equal; then the first
    point again"""
    pts = points(spec)
    K = spec['K']
    split = bool(spec.get('split')) or (spec.get('graph') == 'i3' and K > 1)
    p = [pts['p']] * K
    # per-source parameters: the second point keeps the grid cell of the first source and moves the second source
    far = pts['q'] if i % 2 == 1 else pts['r']          # adjacent / distant cell
    q = [far] * K if not split else [pts['p2']] + [far] * (K - 1)
    sp = spec if spec.get('graph') == 'i3' else dict(spec, product=[None, 'first', 'second'][i % 3])
    sp = dict(sp, reuse_fp=(i % 2 == 1), dY=(i % 4 >= 2))
    bad = [bad_point(spec)] * K
    node = [pts['n']] * K if not split else [pts['n']] + [pts['p2']] * (K - 1)
    below = [pts['p2']] * K
    above = [pts['q']] * K
    how = ['new', 'replace', 'mutate'][i % 3]
    how2 = ['replace', 'mutate', 'new'][i % 3]
    out = [dict(spec=sp, d0=0, s0=0, ops=[['E', 2.5, p], ['I', 1]], final=['eval', 2.5, p]),
           dict(spec=sp, d0=0, s0=0, ops=[['E', 2.5, p], ['S', 1, how, 'same']], final=['eval', 2.5, p])]
    if i % 2 == 1 or spec.get('graph') == 'i3':
        out.append(dict(spec=sp, d0=1, s0=1, ops=[['E', 0.7, p], ['S', 0, how2, 'new']], final=['eval_grad2', 0.7, p]))
    if i % 4 == 0:
        out.append(dict(spec=sp, d0=1, s0=0, ops=[['E', 2.5, p], ['I', 2]], final=['eval', 2.5, p]))
    elif i % 4 == 2:
        out.append(dict(spec=sp, d0=1, s0=0, ops=[['E', 2.5, p], ['M', 0]], final=['eval', 2.5, p]))
    # error path inside a history: a failing evaluate, then the second derivative / the earlier point again
    if i % 2 == 0:
        out.append(dict(spec=sp, d0=0, s0=0, ops=[['E', 2.5, p], ['E', 2.5, bad]], final=['grad2raw', 2.5]))
    else:
        out.append(dict(spec=sp, d0=3, s0=0, ops=[['E', 0.7, bad], ['I', 2], ['E', 2.5, p]], final=['eval_grad2', 2.5, q]))
    if i % 4 == 0:
        out.append(dict(spec=sp, d0=0, s0=1, ops=[['E', 2.5, q], ['I', 1]], final=['maximize']))
    if i % 4 == 1:
        # a trial in which no event survives, then a normal one (and back)
        out.append(dict(spec=sp, d0=1, s0=0, ops=[['E', 2.5, p], ['I', 4], ['E', 2.5, p], ['I', 1]], final=['eval_grad2', 2.5, p]))
    if i % 3 == 0 or split:
        out.append(dict(spec=sp, d0=2, s0=1, ops=[['E', 2.5, p], ['E', 2.5, q]], final=['eval', 2.5, p]))
        out.append(dict(spec=sp, d0=2, s0=1, ops=[['E', 2.5, p]], final=['eval_grad2', 2.5, q]))
    if i % 2 == 0:
        out.append(dict(spec=sp, d0=3, s0=1, ops=[['E', 2.5, p], ['G', 0.7]], final=['eval', 0.7, below if not split else p]))
    # re-entering grid cells: adjacent cells alternately (the upper grid point of one is the lower one of the other)
    adj = [pts['q']] * K if not split else [pts['p2']] + [pts['q']] * (K - 1)
    if i % 2 == 0:
        out.append(dict(spec=sp, d0=0, s0=0, ops=[['E', 2.5, adj], ['E', 2.5, p], ['E', 2.5, adj]], final=['eval', 0.7, p]))
    else:
        out.append(dict(spec=sp, d0=1, s0=1, ops=[['E', 0.7, p], ['E', 0.7, adj], ['E', 0.7, p]], final=['eval_grad2', 2.5, adj]))
    # boundary values: a parameter value exactly on a grid point, reached from the cell below / from the cell above
    out.append(dict(spec=sp, d0=1, s0=0, ops=[['E', 2.5, below]], final=['eval', 0.7, node]))
    if i % 2 == 0:
        out.append(dict(spec=sp, d0=0, s0=1, ops=[['E', 0.7, above]], final=['eval_grad2', 2.5, node]))
    # read-only queries repeated: the composite second derivative (two datasets) asked again without a new evaluate
    if i % 2 == 1:
        out.append(dict(spec=sp, d0=2, s0=0, ops=[['E', 2.5, q], ['H', 2.5]], final=['grad2multi_raw', 0.7]))
    if spec.get('graph') == 'i3':
        return out
    if spec.get('scale') == 'mjd' or (K == 2 and not split):
        # MJD-sized parameter values matter for the grid-key logic only: keep the new-trial probe and the probes that move
        # between grid cells / onto a grid point; the identity / error-path / option probes run on the small-valued twin
        keep = [c for c in out if all(o[0] in ('E', 'I') for o in c['ops']) and c['final'][0] in ('eval', 'eval_grad2')]
        out = keep + [dict(spec=sp, d0=2, s0=1, ops=[['E', 2.5, p], ['E', 2.5, q]], final=['eval', 2.5, p])] \
            if not any(len(c['ops']) == 2 and c['ops'][1][0] == 'E' for c in keep) else keep
    # option interactions are spread over the probes: every probe draws its own (norm factor function, second dataset,
    # detector-yield dependence, product position) from a generator seeded by (configuration, probe) alone
    import random
    for j, c in enumerate(out):
        r = random.Random(1000 * i + j)
        c['spec'] = dict(c['spec'], norm=r.random() < 0.5, J=2 if (r.random() < 0.5 or any(o[0] == 'H' for o in c['ops'])) else 1,
                         dY=r.random() < 0.4, product=r.choice([None, 'first', 'second']),
                         fp_form=r.choice([None, None, 'strided', 'readonly', 'recarray']), scribble=r.random() < 0.3,
                         evsel=r.random() < 0.3,
                         cache_bkg=(not c['spec']['cache']) if r.random() < 0.3 else c['spec']['cache'])
    return out


def staircase_case(spec):
    """boundary sweep over the WHOLE grid (model correspondence of every evaluate, no oracles): climbing cell by cell, each
    grid point is approached from the cell below — midpoint of the cell, the float just below the grid point, the grid point
    itself, the float just above it.  Floating-point sums such as x0 + delta are exact at some grid points and one ulp off at
    others, so a boundary probe at a single grid point says nothing about the rest."""
    cf = _cf()
    gv = cf.grid_values(spec)
    K = spec['K']
    ops = []
    for k in range(1, len(gv) - 2):
        g = float(gv[k])
        for x in (g - 0.05, float(np.nextafter(g, -np.inf)), g, float(np.nextafter(g, np.inf))):
            ops.append(['E', 2.5, [x] * K])
    sp = dict(spec, product=None, J=1, reuse_fp=False, dY=False, norm=False)
    return dict(spec=sp, d0=0, s0=0, ops=ops, final=['grad2raw', 2.5], corr_only=True)


def i3_specs():
    return [dict(graph='i3', K=K, order=o, interp=i) for K in (1, 2) for o in ('first', 'second')
            for i in ('linear', 'parabola')]


def witness_cases():
    """the design's leads, replayed first on every run"""
    b = 55000.0
    return [
        # state id stuck at -1 without data fields: second trial answered from the first trial's caches
        dict(spec=dict(K=1, split=False, fields='none', cache=True, interp='linear', scale='small'), d0=0, s0=0,
             ops=[['E', 2.5, [2.03]], ['I', 1]], final=['eval', 2.5, [2.03]]),
        dict(spec=dict(K=1, split=False, fields='none', cache=False, interp='parabola', scale='small'), d0=0, s0=0,
             ops=[['E', 2.5, [2.03]], ['I', 2]], final=['maximize']),
        # numpy.isclose as cache key: adjacent MJD-sized grid cells
        dict(spec=dict(K=1, split=False, fields='static', cache=False, interp='linear', scale='mjd'), d0=0, s0=0,
             ops=[['E', 2.5, [b + 1.03]]], final=['eval', 2.5, [b + 1.13]]),
        # per-event ns-gradients survive a new trial
        dict(spec=dict(K=1, split=False, fields='static', cache=False, interp='linear', scale='small'), d0=0, s0=0,
             ops=[['E', 2.5, [2.03]], ['I', 1]], final=['grad2raw', 2.5]),
        # caching of PDF values with more than one source
        dict(spec=dict(K=2, split=False, fields='static', cache=True, interp='linear', scale='small'), d0=0, s0=0,
             ops=[], final=['eval', 2.5, [2.03, 2.03]]),
    ]


def gen_case(ctx, spec, maxlen):
    rng = ctx.rng
    pts = points(spec)
    names = list(pts)
    K = spec['K']

    def xs():
        if rng.random() < 0.07:                 # error path: a point outside the grid, the history goes on afterwards
            ctx.count('failing evaluate generated')
            v = bad_point(spec)
            mixed = K > 1 and (spec.get('split') or spec.get('graph') == 'i3') and rng.random() < 0.5
            return [pts['p']] * (K - 1) + [v] if mixed else [v] * K
        prev = next((o[2] for o in reversed(ops) if o[0] == 'E'), None)
        if prev is not None and rng.random() < 0.1:
            ctx.count('evaluate right next to the previous point')
            return [near(rng, prev[0])] * K if not (K > 1 and (spec.get('split') or spec.get('graph') == 'i3')) \
                else [near(rng, x) if j == 0 else x for j, x in enumerate(prev)]
        v = pts[rng.choice(names)]
        if K == 2 and spec.get('split') and rng.random() < 0.6:     # per-source values: all equal (40 %), else different
            return [pts[rng.choice(names)] for _ in range(K)]
        return [v] * K
    n = rng.randrange(0, maxlen + 1)
    ops = []
    for _ in range(n):
        r = rng.random()
        if r < 0.16:
            ops.append(['I', rng.randrange(5)])
        elif r < 0.22:
            ops.append(['R'])
        elif r < 0.28:
            ops.append(['M', rng.randrange(2)])
        elif r < 0.40:
            ops.append(['S', rng.randrange(2), rng.choice(['mutate', 'replace', 'new']), rng.choice(['new', 'same'])])
        elif r < 0.86:
            ops.append(['E', rng.choice([2.5, 0.7]), xs()])
        elif r < 0.93:
            ops.append(['G', rng.choice([2.5, 0.7])])
        else:
            ops.append(['H', rng.choice([2.5, 0.7])])
    evs = [op for op in ops if op[0] == 'E']
    same_point = bool(evs) and rng.random() < 0.4      # the final query repeats the last evaluated point exactly

    def fin_args():
        return [evs[-1][1], list(evs[-1][2])] if same_point else [rng.choice([2.5, 0.7]), xs()]
    r = rng.random()
    if r < 0.6:
        final = ['eval'] + fin_args()
    elif r < 0.75:
        final = ['eval_grad2'] + fin_args()
    elif r < 0.83:
        final = ['grad2raw', 2.5]
    elif r < 0.90:
        final = ['grad2multi_raw', 2.5]
    else:
        final = ['maximize']
    if same_point and final[0] in ('eval', 'eval_grad2'):
        ctx.count('final repeats the last evaluated point')
    if spec.get('graph') != 'i3':
        spec = dict(spec, product=rng.choice([None, None, 'first', 'second']))
    spec = dict(spec, reuse_fp=rng.random() < 0.5, dY=rng.random() < 0.4,
                fp_form=rng.choice([None, None, 'strided', 'readonly', 'recarray']), scribble=rng.random() < 0.3)
    if spec.get('graph') != 'i3':
        # option interactions: non-trivial normalisation factor function of the grid PDFs; a second dataset
        spec = dict(spec, evsel=rng.random() < 0.3, norm=rng.random() < 0.4, J=2 if rng.random() < 0.4 else 1,
                    cache_bkg=(not spec['cache']) if rng.random() < 0.3 else spec['cache'])
    return dict(spec=spec, d0=rng.randrange(5), s0=rng.randrange(2), ops=ops, final=final)


def _split_supported():
    """per-source parameters need TrialDataManager.get_values_mask_for_source_mask (a C02 lead)"""
    try:
        cf = _cf()
        G = cf.build(dict(K=2, split=True, fields='none', cache=False, interp='linear', scale='small'), 0, 0)
        cf.op_evaluate(G, 2.5, [2.03, 2.56])
        return True
    except NameError:
        return False
    except Exception:  # noqa
        return True


def run(ctx):
    variant = extract_variant(ctx)
    ctx.extra['source_facts'] = dict(zip(('bumpAlways', 'exactHit', 'resetNsgrad', 'clearNsgOnEval'), variant))
    ctx.rule = ('histories of length 0..3 (quick) / 0..5 (thorough) over {initialize trial with data set A/B/C (6,6,9 events) on a '
                'new / the same / the in-place edited events array, source change by mutation / replacement / new manager, '
                'evaluate at p/p2 (same grid cell), q (adjacent), r/r2 (distant), n (grid node), change source hypothesis, '
                'second derivative}, then a final query (evaluate | evaluate+second derivative | second derivative alone | '
                'maximize+TS); object graphs: 1 or 2 sources (shared or per-source parameter) x trial data manager without / '
                'with static / with source+pre-selection+static data fields x PDF value caching on/off x Linear/Parabola '
                'interpolation x parameter values near 2 / near 55000; distinct by (configuration, history, final query)')
    ctx.trusted_base += ['correspondence harness harness/props/c06.py + harness/cache_fixtures.py',
                         'leaf values (spline value per event) recomputed with scipy.interpolate.RegularGridInterpolator',
                         'grid keys taken from the real ParameterGrid (property C15)',
                         'IEEE rounding is outside the theorems; the LLH value formula itself is property C01']
    ctx.assumptions += ['leaf tables are well-formed (every signal block as long as its selection, positions in range): checked by '
                        'cache_fixtures.well_formed; queries have one value and one grid key per source',
                        'top-level transparency is claimed for complete call sequences (initialize_trial then the '
                        'initialize_for_new_trial cascade); broken orders are compared with the model, not claimed transparent',
                        'grids contain neither 0.0 nor NaN (the executed model identifies keys by bit pattern)',
                        'a source change is followed by initialize_trial (documented requirement of change_shg_mgr)',
                        'a source change keeps the number of sources (the ParameterModelMapper is built for a fixed source count)',
                        'all source hypotheses of one object graph have the same number of sources',
                        'object identity is varied on purpose: events array new / same instance again / same instance edited in '
                        'place; sources mutated in place / replaced inside the same manager / new manager; fit parameter array '
                        'new / one instance overwritten; the model maps all flavours to the same operation']
    split_ok = _split_supported()
    if not split_ok:
        ctx.note('C06: per-source parameter configurations skipped: get_values_mask_for_source_mask raises NameError (C02)')
    specs = all_specs(split_ok)
    maxlen = ctx.n(3, 5)
    per_spec = ctx.n(1, 30)
    cases = [(c, True) for c in witness_cases()]
    for i, spec in enumerate(specs):
        for c in probe_cases(spec, i):
            cases.append((c, False))
            ctx.count('directed probes')
        for _ in range(per_spec):
            cases.append((gen_case(ctx, spec, maxlen), False))
    for sp in specs:
        if sp['K'] == 1 and sp['fields'] == 'none' and (sp['cache'] or ctx.thorough):
            cases.append((staircase_case(sp), False))
            ctx.count('boundary sweeps over the whole grid')
    # PDFRatioProduct around the real SplinedI3EnergySigSetOverBkgPDFRatio (oracles only; no Lean model of this graph)
    i3_cases = [dict(spec=sp, d0=0, s0=0, ops=[['E', 2.5, [2.13] * sp['K']]], final=['eval', 2.5, [2.13] * sp['K']])
                for sp in i3_specs()]
    for i, sp in enumerate(i3_specs()):
        i3_cases += probe_cases(sp, i) + probe_cases(sp, i + 1)[1:4]
        i3_cases += [gen_case(ctx, sp, maxlen) for _ in range(ctx.n(3, 100))]
    import collections
    stats = {'floats': 0, 'bit_exact': 0, 'branches': collections.Counter()}
    import time as _time
    phase = {}
    t_ph = _time.time()
    # ---- implementation runs + model requests (one driver batch)
    impls, reqs = [], []
    used_final = {}
    snap_done = {}
    for ci, (case, _) in enumerate(cases):
        ops = list(case['ops']) + ([['E'] + list(case['final'][1:])] if case['final'][0] == 'eval' else [])
        if case['final'][0] == 'eval':
            # one object graph serves the model correspondence and the byte-snapshot oracle
            impl = []
            snap_done[ci] = o_cache_snapshot(ctx, case, collect=impl)
            if len(impl) != len(ops):        # an early return of the oracle before the final evaluate
                (impl, _f) = run_history(case['spec'], case['d0'], case['s0'], ops)
        else:
            (impl, _f) = run_history(case['spec'], case['d0'], case['s0'], ops)
        impls.append(impl)
        reqs.append(_request(case, variant))
        if case['final'][0] == 'eval':
            # the last operation of this run *is* the final query of the fresh-vs-used oracle
            if len(impl) == len(ops):
                r = impl[-1]
                used_final[ci] = {k: r[k] for k in ('llh', 'grads', 'ratio', 'grad')} if isinstance(r, dict) else r
            else:
                used_final[ci] = None
    phase['impl runs + snapshot'] = round(_time.time() - t_ph, 1)
    t_ph = _time.time()
    tcases = []
    for case, is_w in cases:
        if case.get('corr_only') or case['final'][0] in ('maximize', 'grad2multi_raw') or ctx.rng.random() >= ctx.n(0.1, 0.5):
            continue
        case = dict(case, spec=dict(case['spec'], J=1, product=None))     # the modelled upper layers: one dataset, no product
        (lops, broke) = top_ops(case, ctx.rng)
        if lops:
            tcases.append((case, lops, broke, True))
    # directed: the documented call order violated (trial data managers without data fields, equal-size data sets)
    for i, sp in enumerate(specs):
        if sp['fields'] != 'none':
            continue
        pts = points(sp)
        p = [pts['p']] * sp['K']
        c = dict(spec=dict(sp, J=1, product=None, dY=(i % 2 == 1), norm=(i % 4 >= 2)), d0=0, s0=0, ops=[], final=['maximize'])
        tcases.append((c, [['E', 2.5, p], ['T', 1], ['E', 2.5, p], ['G', 2.5]], True, True))                 # cascade forgotten
        tcases.append((c, [['T', 1], ['E', 0.7, p], ['L'], ['E', 0.7, p], ['G', 0.7]], True, True))          # cascade too late
        if i % 2 == 0:
            tcases.append((c, [['E', 2.5, p], ['L'], ['T', 1], ['E', 2.5, p], ['C', 1], ['E', 2.5, p]], True, True))   # too early
        else:
            # the object graph as constructed, before its first cascade: an evaluation is refused, the cascade repairs it
            tcases.append((c, [['G', 2.5], ['E', 2.5, p], ['L'], ['E', 2.5, p], ['G', 2.5]], True, False))
    ccases = []
    for case, is_w in cases:
        if case.get('corr_only') or case['final'][0] == 'maximize' or ctx.rng.random() >= ctx.n(0.07, 0.4):
            continue
        case = dict(case, spec=dict(case['spec'], J=2, product=None))
        (lops, broke) = comp_ops(case, ctx.rng)
        if lops:
            ccases.append((case, lops, broke))
    for i, sp in enumerate(specs):          # directed: the composite second derivative twice, after failures, after a new trial
        if i % 3:
            continue
        pts = points(sp)
        p = [pts['p']] * sp['K']
        c = dict(spec=dict(sp, J=2, product=None, dY=(i % 2 == 0), norm=False), d0=0, s0=0, ops=[], final=['maximize'])
        ccases.append((c, [['H', 2.5], ['M', 2.5, p], ['H', 2.5], ['H', 0.7], ['G', 2.5], ['M', 0.7, [bad_point(sp)] * sp['K']],
                           ['H', 2.5], ['M', 0.7, p], ['T', 2], ['L'], ['H', 0.7], ['M', 2.5, p], ['H', 2.5]], False))
    reset = extract_variant(ctx, with_fields=True)[4]
    fcases = [dict(d0=0, s0=0, ops=[['C', 2.0], ['S', 1]], final=2.0),
              # the key is the tuple of all parameter values: one component changes, then the other, then both, then none
              dict(d0=0, s0=0, ops=[['C', [2.0, 1.0]], ['C', [2.0, 4.0]], ['C', [2.5, 4.0]], ['C', [3.25, 1.0]]], final=[3.25, 1.0]),
              dict(d0=1, s0=1, ops=[['C', [2.5, 4.0]], ['R'], ['C', [2.5, 1.0]]], final=[2.0, 1.0]),
              # keys right next to each other, at small and at MJD-like magnitude: every one is a different key
              dict(d0=0, s0=0, ops=[['C', [58000.0, 1.0]], ['C', [58000.0 * (1 + 1e-6), 1.0]],
                                    ['C', [float(np.nextafter(58000.0 * (1 + 1e-6), np.inf)), 1.0]]], final=[58000.0, 1.0]),
              dict(d0=2, s0=1, ops=[['C', [2.0, 1.0]], ['C', [2.0 * (1 + 1e-9), 1.0]], ['C', [2.0, float(np.nextafter(1.0, 2.0))]]],
                   final=[float(np.nextafter(2.0, 3.0)), 1.0])]
    fcases += [gen_field_case(ctx, maxlen + 1) for _ in range(ctx.n(60, 1500))]
    timpl = [run_top(c['spec'], c['d0'], c['s0'], lops, cascade=ca) for c, lops, _, ca in tcases]
    cimpl = [run_comp(c['spec'], c['d0'], c['s0'], lops) for c, lops, _ in ccases]
    fimpl = [run_field_history(c['d0'], c['s0'], list(c['ops']) + [['C', c['final']]]) for c in fcases]
    # one driver process for all four request kinds
    treqs = [_top_request(c, lops, variant, cascade=ca) for c, lops, _, ca in tcases]
    creqs = [_comp_request(c, lops, variant) for c, lops, _ in ccases]
    freqs = [_field_request(c, reset) for c in fcases]
    # round 7: the splined I3 energy ratio's one-slot cache, driven directly (Model/CacheI3R7.lean)
    r7 = _r7()
    atol = i3_atol(ctx)
    ctx.extra['source_facts']['i3Atol'] = atol
    icases = [c for sp in i3_specs() for c in r7.directed_icases(sp)]
    icases += [r7.gen_icase(ctx.rng, ctx.rng.choice(i3_specs()), maxlen + 3) for _ in range(ctx.n(8, 200))]
    iimpl = [r7.run_impl(c) for c in icases]
    ireqs = [r7.request(c, variant[0], atol) for c in icases]
    # ... and PDFRatioProduct with that ratio as first / second factor, the other factor stateless
    pcases = [c for i, sp in enumerate(i3_specs()) if (ctx.thorough or i % 2 == 0) for c in r7.directed_pcases(sp, i, ctx.n(1, 2))]
    pcases += [r7.gen_pcase(ctx.rng, ctx.rng.choice(i3_specs()), maxlen + 3) for _ in range(ctx.n(4, 150))]
    pimpl = [r7.prun_impl(c) for c in pcases]
    preqs = [r7.prequest(c, variant[0], atol) for c in pcases]
    answers = ctx.driver('C06', reqs + treqs + creqs + freqs + ireqs + preqs)
    pmodel = answers[len(answers) - len(preqs):]
    answers = answers[:len(answers) - len(preqs)]
    imodel = answers[len(answers) - len(ireqs):]
    answers = answers[:len(answers) - len(ireqs)]
    phase['i3 slot + product impl/requests'] = round(_time.time() - t_ph, 1)
    models = answers[:len(reqs)]
    tmodel = answers[len(reqs):len(reqs) + len(treqs)]
    cmodel = answers[len(reqs) + len(treqs):len(reqs) + len(treqs) + len(creqs)]
    fmodel = answers[len(reqs) + len(treqs) + len(creqs):]
    phase['driver hist'] = round(_time.time() - t_ph, 1)
    t_ph = _time.time()
    suspicious = []
    for (case, is_w), impl, m in zip(cases, impls, models):
        sp = case['spec']
        ctx.case(key=(sp, case['d0'], case['s0'], case['ops'], case['final']),
                 desc=case if (ctx.evaluations % 211 == 0) else None)
        ctx.count('len=%d' % len(case['ops']))
        ctx.count('final:' + case['final'][0])
        ctx.count('cfg:K%d%s/%s/%s/%s/%s' % (sp['K'], 's' if sp.get('split') else '', sp['fields'],
                                             'cache' if sp['cache'] else 'nocache', sp['interp'], sp['scale']))
        for op in case['ops']:
            ctx.count('op:' + op[0] + (':' + '/'.join(op[2:4]) if op[0] == 'S' and len(op) >= 4 else ''))
        _count_classes(ctx, case)
        d = _compare(ctx, case, impl, m, stats)
        if d:
            suspicious.append((case, impl, m, d))
    # ---- property oracles on the implementation
    phase['compare'] = round(_time.time() - t_ph, 1)
    t_ph = _time.time()
    reported = set()
    oracle_s = collections.Counter()
    for c in i3_cases:
        ctx.case(key=(c['spec'], c['d0'], c['s0'], c['ops'], c['final']), desc=c if ctx.evaluations % 211 == 0 else None)
        ctx.count('cfg:i3/K%d/%s/%s' % (c['spec']['K'], c['spec']['order'], c['spec']['interp']))
        for op in c['ops']:
            ctx.count('op:' + op[0] + (':' + '/'.join(op[2:4]) if op[0] == 'S' and len(op) >= 4 else ''))
        ctx.count('final:' + c['final'][0])
    for ci, (case, is_w) in enumerate(cases + [(c, False) for c in i3_cases]):
        if case.get('corr_only'):
            continue
        for name in ('fresh_vs_used', 'cache_onoff', 'cache_snapshot', 'trace_fresh', 'repeat_final', 'arg_forms'):
            if name == 'arg_forms' and not ((case['spec'].get('fp_form') or case['spec'].get('scribble'))
                                             and ctx.rng.random() < ctx.n(0.2, 0.6)):
                continue
            if name == 'repeat_final' and (case['final'][0] == 'eval' or (case['final'][0] == 'eval_grad2' and not is_w
                                                                          and ctx.rng.random() < ctx.n(0.4, 0.0))):
                continue            # evaluate twice in a row is clause (3) of cache_snapshot; eval_grad2 is sampled in quick
            if name == 'cache_onoff' and (case['spec'].get('graph') == 'i3' or not (is_w or ctx.rng.random() < ctx.n(0.2, 0.5))):
                continue
            if name == 'trace_fresh' and (case['spec'].get('graph') != 'i3' or not any(op[0] == 'E' for op in case['ops'])):
                continue
            ctx.count('oracle:' + name)
            t_or = _time.time()
            if name == 'cache_snapshot' and ci in snap_done:
                res = snap_done[ci]
            elif name == 'fresh_vs_used' and ci in used_final:
                res = o_fresh_vs_used(ctx, case, used=used_final[ci])
            else:
                res = ORACLES[name](ctx, case)
            oracle_s[name] += _time.time() - t_or
            if res:
                sig0 = classify(name, case, res)
                if sig0 in reported:
                    ctx.count('violation_repeats')
                    continue
                small = shrink(ctx, name, case)
                res = ORACLES[name](ctx, small) or res
                sig = classify(name, small, res)
                reported |= {sig0, sig}
                ctx.violation(name, small, res, signature=sig, kind='history')
    # ---- model/implementation disagreements: failing-input search, else report the relation
    seen = set()
    for case, impl, m, d in sorted(suspicious, key=lambda t: len(t[0]['ops'])):
        hit = False
        for name in ('fresh_vs_used', 'cache_onoff'):
            for cand in _neighbourhood(case):
                res = ORACLES[name](ctx, cand)
                if res:
                    small = shrink(ctx, name, cand)
                    res = ORACLES[name](ctx, small) or res
                    sig = classify(name, small, res)
                    if sig not in reported:
                        reported.add(sig)
                        ctx.violation(name, small, res, signature=sig, kind='history', impl_output=_short(impl),
                                      model_output=m[:300])
                    hit = True
                    break
            if hit:
                break
        if not hit:
            key = d.split(':')[1][:40] if ':' in d else d[:40]
            if key in seen:
                continue
            seen.add(key)
            ctx.violation('corr', case, 'model and implementation disagree (%s) but no property oracle fails on this '
                          'history' % d, kind='correspondence',
                          relation='values 1e-9 relative; hit/miss counts and grad2 provenance exact',
                          impl_output=_short(impl), model_output=m[:300], signature='C06/corr/' + _corr_mode(d),
                          no_failing_input=True)
    phase['oracles'] = {k: round(v, 1) for k, v in oracle_s.items()}
    t_ph = _time.time()
    # ---- upper layers: real call sequences vs Model/CacheTop.lean (complete sequences, and deliberately broken ones)
    t_seen = set()
    for (c, lops, broke, ca), i, m in zip(tcases, timpl, tmodel):
        ctx.count('branch:tstep.evaluate ' + ('no event data yet (evd = none)' if not ca else 'event data present'))
        ctx.case(key=('top', c['spec'], c['d0'], c['s0'], lops), desc=None)
        ctx.count('top:' + ('call order violated on purpose' if broke else 'complete call sequences'))
        for o, a in zip(lops, m.split(';')):
            ctx.count('top:call ' + o[0])
            stats['branches'][{'T': 'tstep: tdmInit', 'L': 'tstep: llhInit', 'C': 'tstep: changeShg'}.get(o[0]) or (
                ('tstep: grad2 refused' if a == 'REF' else 'tstep: grad2 number') if o[0] == 'G' else
                ('tstep: evaluate values' if a.startswith('V') else
                 ('tstep: evaluate without event data' if (not ca and not any(x[0] == 'L' for x in lops[:lops.index(o)]))
                  else 'tstep: evaluate raises')))] += 1
        d = _top_compare(c, lops, i, m, stats)
        if d:
            suspicious.append((c, i, m, d))
            mode = 'broken-order' if broke else ('number' if ('log-lambda' in d or 'second derivative' in d) else 'values')
            if mode not in t_seen:
                t_seen.add(mode)
                # a disagreement on a complete sequence is first handed to the fresh-vs-used oracle of the fused history
                res = None if broke else o_fresh_vs_used(ctx, c)
                if res:
                    ctx.violation('fresh_vs_used', c, res, signature=classify('fresh_vs_used', c, res), kind='history')
                else:
                    ctx.violation('top_corr', {'case': c, 'lops': lops, 'cascade': ca}, 'upper-layer model and implementation disagree (%s)%s' % (
                        d, ' on a call sequence that violates the documented order (the model mirrors the code as it is)' if broke else
                        ' but no property oracle fails on this history'), kind='correspondence',
                        relation='log-lambda, ns-gradient, second-derivative number 1e-9 relative; ratios 1e-9; raised/refused exact',
                        impl_output=_short(i), model_output=m[:300], signature='C06/top_corr/' + mode, no_failing_input=True)
    ctx.extra['top_numbers_compared'] = stats.get('top_numbers', 0)
    # ---- composite likelihood of two datasets vs CacheTop.Comp
    c_seen = set()
    for (c, lops, broke), i, m in zip(ccases, cimpl, cmodel):
        ctx.case(key=('comp', c['spec'], c['d0'], c['s0'], lops), desc=None)
        ctx.count('comp:' + ('call order violated on purpose' if broke else 'complete call sequences'))
        for o, a in zip(lops, m.split(';')):
            if o[0] == 'M':
                stats['branches']['cstep: cevaluate values' if a.startswith('V') else 'cstep: cevaluate raises'] += 1
            elif o[0] == 'H':
                stats['branches']['cstep: cgrad2 number' if a.startswith('H:') else 'cstep: cgrad2 refused'] += 1
        d = _comp_compare(c, lops, i, m, stats)
        if d:
            suspicious.append((c, i, m, d))
            mode = 'broken-order' if broke else 'number'
            if mode not in c_seen:
                c_seen.add(mode)
                ctx.violation('comp_corr', {'case': c, 'lops': lops}, 'composite model and implementation disagree (%s)' % d,
                              kind='correspondence', relation='composite log-lambda, ns-gradient, second derivatives 1e-9 relative; '
                              'raised/refused exact', impl_output=_short(i), model_output=m[:300],
                              signature='C06/comp_corr/' + mode, no_failing_input=True)
    ctx.extra['comp_numbers_compared'] = stats.get('comp_numbers', 0)
    phase['top'] = round(_time.time() - t_ph, 1)
    ctx.extra['phase_s'] = phase
    # ---- data fields depending on global fit parameters (TrialDataManager level)
    ctx.extra['source_facts']['resetFields'] = reset
    f_reported = False
    for c, i, m in zip(fcases, fimpl, fmodel):
        ctx.case(key=('field', c['d0'], c['s0'], c['ops'], c['final']), desc=None)
        ctx.count('field:len=%d' % len(c['ops']))
        res = o_field_fresh_vs_used(ctx, c)
        d = _field_compare(c, i, m)
        in_events, prev = False, None
        for o, a in zip(list(c['ops']) + [['C', c['final']]], m.split(';')):
            if o[0] == 'N':
                stats['branches']['fieldStep: initNew'] += 1
                in_events = False
            elif o[0] == 'R':
                stats['branches']['fieldStep: initSame'] += 1
            elif o[0] == 'S':
                stats['branches']['fieldStep: changeSource'] += 1
            else:
                stats['branches']['fieldCalc: values reused' if a.startswith('0:') else
                                  ('fieldCalc: field not in the events array' if not in_events else
                                   'fieldCalc: remembered parameter value differs')] += 1
                in_events = True
        if res and not f_reported:
            f_reported = True
            small = shrink_field(ctx, c)
            ctx.violation('field_fresh_vs_used', small, o_field_fresh_vs_used(ctx, small) or res,
                          signature='C06/field_fresh_vs_used/stale-global-fitparam-field', kind='history')
        elif d and not res:
            suspicious.append((c, i, m, d))
            ctx.violation('field_corr', c, 'model and implementation disagree (%s) but the field values equal those of a '
                          'fresh TrialDataManager' % d, kind='correspondence', relation='field values bit-exact, recomputation flag exact',
                          impl_output=_short(i), model_output=m[:300], signature='C06/field_corr/' + ('recompute' if 'called' in d else 'values'),
                          no_failing_input=True)
    # ---- round 7: the one-slot cache of the splined I3 energy PDF ratio
    i_reported = False
    for c, i, m in zip(icases, iimpl, imodel):
        ctx.case(key=('i3slot', c['spec'], c['d0'], c['s0'], c['ops'], c.get('rec_form')), desc=None)
        ctx.count('i3:rec_form=%s' % c.get('rec_form'))
        ctx.count('i3slot:K=%d/%s' % (c['spec']['K'], c['spec']['interp']))
        d = r7.compare(c, i, m, stats)
        r7.count_branches(c, m, atol, stats['branches'])
        res = r7.fresh_vs_used(c, i)
        if res and not i_reported:
            i_reported = True
            small = shrink_i3(c)
            ctx.violation('i3_slot_fresh_vs_used', small, r7.fresh_vs_used(small) or res,
                          signature='C06/i3_slot_fresh_vs_used/stale-energy-ratio-slot', kind='history')
        elif d and not res:
            suspicious.append((c, i, m, d))
            ctx.violation('i3_slot_corr', c, 'model and implementation disagree (%s) but every call answers like freshly built '
                          'objects' % d, kind='correspondence', relation='1e-9 relative + 1e-12*max|row| per value',
                          impl_output=_short(i), model_output=m[:300], signature='C06/i3_slot_corr/values', no_failing_input=True)
    p_reported = False
    for c, i, m in zip(pcases, pimpl, pmodel):
        ctx.case(key=('i3prod', c['spec'], c['stubdep'], c['d0'], c['s0'], c['ops'], c.get('rec_form')), desc=None)
        ctx.count('i3:rec_form=%s' % c.get('rec_form'))
        ctx.count('i3prod:K=%d/%s/%s/stub(%s)' % (c['spec']['K'], c['spec']['interp'], c['spec']['order'], '+'.join(c['stubdep'])))
        d = r7.pcompare(c, i, m, stats)
        res = r7.pfresh_vs_used(c, i)
        if res and not p_reported:
            p_reported = True
            ctx.violation('i3_product_fresh_vs_used', c, res, signature='C06/i3_product_fresh_vs_used/history-dependent-product',
                          kind='history')
        elif d and not res:
            suspicious.append((c, i, m, d))
            ctx.violation('i3_product_corr', c, 'model and implementation disagree (%s) but every call answers like freshly built '
                          'objects' % d, kind='correspondence', relation='1e-9 relative + 1e-12*max|row| per value; scalar 0 exact',
                          impl_output=_short(i), model_output=m[:300], signature='C06/i3_product_corr/values', no_failing_input=True)
    ctx.extra['i3_product_numbers_compared'] = stats.get('i3p_numbers', 0)
    ctx.extra['i3_slot_numbers_compared'] = stats.get('i3_numbers', 0)
    ctx.extra['diag_i3_hit_differs'] = stats.get('diag_i3_hit_differs', 0)
    ctx.extra['correspondence_disagreements'] = len(suspicious)
    ctx.extra['counts'] = {b: int(stats['branches'].get(b, 0)) for b in BRANCHES + r7.BRANCHES + r7.PBRANCHES}
    ctx.extra['zero_hit_branches'] = [b for b in BRANCHES + r7.BRANCHES + r7.PBRANCHES if not stats['branches'].get(b)]
    ctx.extra['floats_compared'] = stats['floats']
    ctx.extra['floats_bit_exact'] = stats['bit_exact']
    ctx.extra['model_cached_ne_pure'] = stats.get('model_cached_ne_pure', 0)
    ctx.extra['failing_evaluates_compared'] = stats.get('failing_evaluates', 0)
    ctx.extra['diag_hit_miss_count_differs'] = stats.get('diag_hit_miss_differs', 0)
    if _cf().MISSING:
        ctx.note('C06: private attributes the byte snapshots wanted to read no longer exist (keys dropped): %s'
                 % ', '.join(sorted(_cf().MISSING)))


def _count_classes(ctx, case):
    """one counter per class named in the property's quantifier"""
    sp = case['spec']
    ctx.count('class:fields=' + sp['fields'])
    ctx.count('class:event selection method ' + ('with unequal per-source blocks' if sp.get('evsel') else 'none'))
    ctx.count('class:pd caching ' + ('on' if sp['cache'] else 'off'))
    ctx.count('class:parameter values ' + ('MJD-like' if sp['scale'] == 'mjd' else 'small'))
    ctx.count('class:interpolation=' + sp['interp'])
    ctx.count('class:sources K=%d%s' % (sp['K'], ' per-source parameters' if sp.get('split') else ''))
    G = _grid_only(sp)
    size = _SIZE
    d, prev = case['d0'], None
    evals = list(case['ops']) + ([['E'] + list(case['final'][1:])] if case['final'][0] in ('eval', 'eval_grad2') else [])
    for op in evals:
        if op[0] in ('I', 'M'):
            ctx.count('class:new trial, data set %s, %s size' % ('ABCDE'[op[1]], 'equal' if size[op[1]] == size[d] else 'different'))
            d = op[1]
        elif op[0] == 'R':
            ctx.count('class:new trial, same events array')
        elif op[0] == 'S':
            ctx.count('class:change source')
        elif op[0] == 'G':
            ctx.count('class:second derivative')
        elif op[0] == 'E':
            key = _keys(G, sp, op[2])
            if prev is not None:
                dist = max(abs(a - b) for a, b in zip(key, prev)) / 0.1
                ctx.count('class:evaluate, %s' % ('same grid cell' if dist < 0.5 else 'adjacent cell' if dist < 1.5 else 'distant cell'))
            prev = key
    ctx.count('class:final ' + case['final'][0])


def _neighbourhood(case):
    """the disagreeing history itself, and every prefix of it closed by an evaluation at the last evaluated point"""
    yield case
    ops = case['ops']
    for i in range(len(ops), 0, -1):
        if ops[i - 1][0] == 'E':
            yield dict(case, ops=ops[:i - 1], final=['eval', ops[i - 1][1], ops[i - 1][2]])


def _corr_mode(d):
    if 'cache behaviour' in d:
        return 'hit-miss'
    if 'second derivative' in d or 'model refers' in d:
        return 'grad2'
    if 'raised' in d:
        return 'raises'
    return 'values'


MANIFEST = dict(
    text=('Lean theorems (63), for every history, every world of leaf functions and any scalar type. Lower layers (state id, '
          'interpolation cache, per-grid-point and background pd caches, event selection blocks): the invariant "cache content = '
          'pure function of the current data at the cached key", the trace theorem (every evaluate of a history, incl. failing '
          'ones, answers like the stateless evaluator), no truncation across trials of different size, caching flags invisible, '
          'hit implies same key. Upper layers (CacheTop): the real call sequences (initialize_trial, the initialize_for_new_trial '
          'cascade, change_shg_mgr) refine the fused operations; source-weighted ratio, log-lambda, its ns-gradient and the '
          'second-derivative NUMBER after any history equal the stateless top-level evaluator; the composite likelihood of several '
          'datasets (value, ns-gradient, f_j^2-weighted second derivative, weight-service state) likewise. Counterexample theorems '
          'for every unrepaired variant and for a violated call order. The executable model (bit-pattern scalar = the proved '
          'instance) is compared with real object graphs on every run: ratios, log-lambda, gradients, second derivatives, raised / '
          'refused, also on call sequences that violate the documented order on purpose; fresh-vs-used, caching on/off, byte '
          'snapshot, repeated-query, caller-side-form and intermediate-evaluate oracles search for failing histories. '
          'Round 7: the one-slot cache of the splined I3 energy PDF ratio (key reduction, broadcasting key compare, gradient '
          'assembly) and PDFRatioProduct on top of it (four gradient branches, scalar 0) are modelled, proved transparent for every '
          'history and compared call by call with the real classes.'),
    note=('Hypotheses (a) state id advances, (b) hit test is key equality, and the resets are discharged for facts PROBED on the '
          'current classes (five small histories through public methods). Assumptions named in the evidence: well-formed leaf tables '
          '(checked by the fixture), complete call sequences for the top-level transparency theorems, grids without 0.0/NaN. '
          'Oracle-only: array aliasing (service arrays, handed-out views), gamma '
          'components of the LLH gradient vector (C02), L-BFGS maximisation and TS, static data fields as TDM state under a '
          'violated call order. Not exercised: NR1d maximiser, photospline tables, BackgroundI3SpatialPDF, J > 2, change of the '
          'number of sources.'),
    design='DESIGN.md section 4 C06',
    technique='Lean 4 proof (state-machine refinement in three layers, induction over histories) + model/implementation '
              'correspondence on histories and call sequences')
